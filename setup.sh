#!/bin/bash
# Run once after a fresh restore, offline: builds the clock shim and pre-builds the binaries of
# every check listed in MANIFEST.json (each ./check invocation rebuilds on demand anyway).
set -u
ROOT="$(cd "$(dirname "$0")" && pwd)"
export CARGO_NET_OFFLINE=true
export CARGO_TARGET_DIR="$ROOT/target"
mkdir -p "$ROOT/target" "$ROOT/evidence"
if [ -f "$ROOT/shim/clock.c" ]; then
  gcc -O2 -shared -fPIC -o "$ROOT/shim/libverifclock.so" "$ROOT/shim/clock.c" -ldl || echo "WARNING: clock shim did not build"
fi
cd "$ROOT/harness" || exit 1
BINS=""
for id in $(jq -r '.checks[].property_id' "$ROOT/MANIFEST.json" | tr 'A-Z' 'a-z'); do
  [ -f "src/bin/$id.rs" ] && BINS="$BINS --bin $id"
done
if [ -n "$BINS" ]; then
  cargo build --offline --release $BINS 2>&1 | tail -3
  rc=${PIPESTATUS[0]}
  if [ "$rc" -ne 0 ]; then echo "setup: release build failed"; exit 1; fi
fi
for id in c01 c02 c03 c05 c06 c07 c09 c10 c11 c13 c16; do
  if jq -e --arg id "$id" '.checks[] | select((.property_id|ascii_downcase)==$id)' "$ROOT/MANIFEST.json" >/dev/null 2>&1; then
    cargo build --offline --profile devopt --bin $id 2>&1 | tail -1
  fi
done
echo "setup done"
