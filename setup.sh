#!/bin/bash
# Run once after a fresh restore, offline: builds the clock shim and pre-builds every check.
set -e
ROOT="$(cd "$(dirname "$0")" && pwd)"
export CARGO_NET_OFFLINE=true
mkdir -p "$ROOT/target" "$ROOT/evidence"
if [ -f "$ROOT/shim/clock.c" ]; then
  gcc -O2 -shared -fPIC -o "$ROOT/shim/libverifclock.so" "$ROOT/shim/clock.c" -ldl
fi
cd "$ROOT/harness"
cargo build --offline --release --bins 2>&1 | tail -3
if [ -f src/bin/c05.rs ]; then
  cargo build --offline --profile devopt --bin c05 2>&1 | tail -1
fi
echo "setup done"
