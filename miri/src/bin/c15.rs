//! C15 workload for Miri (`-Zmiri-many-seeds`) and for the ThreadSanitizer build: the same
//! program generator, recorder and linearizability checker as the native check
//! (`/verif/harness/src/c15_model.rs`).
//!
//! usage: c15 <seed> <histories> <max_sleep_us> [threads=3] [ops_per_thread=4]
//! stdout: `C15-SUMMARY k=v …` on success, `C15-VIOLATION <json>` (exit 1) when a recorded
//! history has no linearisation.

#[allow(dead_code)]
#[path = "../../../harness/src/rng.rs"]
mod rng;
#[allow(dead_code)]
#[path = "../../../harness/src/sched.rs"]
mod sched;
#[path = "../../../harness/src/c15_model.rs"]
mod c15_model;

use c15_model::*;
use rng::Rng;
use std::collections::BTreeSet;

fn main() {
    let a: Vec<String> = std::env::args().collect();
    let num = |i: usize, d: u64| a.get(i).and_then(|s| s.parse::<u64>().ok()).unwrap_or(d);
    let seed = num(1, 1);
    let n = num(2, 5);
    let sleep_us = num(3, 0);
    let threads = num(4, 3) as usize;
    let ops = num(5, 4) as usize;
    sched::install(seed, sleep_us);
    let mut lin = 0u64;
    let mut capped = 0u64;
    let mut overlap = 0u64;
    let mut steps = 0u64;
    let mut pos: BTreeSet<u64> = BTreeSet::new();
    let mut wits: BTreeSet<u64> = BTreeSet::new();
    for h in 0..n {
        let mut rng = Rng::derive(seed, 1_000 + h);
        let p = gen_program(&mut rng, threads, ops);
        let hist = run_program(&p, Some(sleep_us));
        if hist.overlapping_pairs() > 0 {
            overlap += 1;
        }
        pos.insert(hist.partial_order_hash());
        match judge(&hist, p.n_ops(), &mut steps) {
            HVerdict::Linearizable { witness } => {
                lin += 1;
                wits.insert(witness);
            }
            HVerdict::Inconclusive => capped += 1,
            HVerdict::Violation { cause, detail } => {
                println!(
                    "C15-VIOLATION {}",
                    serde_json::json!({"cause": cause, "program": p.to_json(), "history": hist.to_json(), "detail": detail})
                );
                std::process::exit(1);
            }
        }
    }
    let (reached, perturbed) = sched::counters();
    let hs = |s: &BTreeSet<u64>| s.iter().take(64).map(|x| format!("{:x}", x)).collect::<Vec<_>>().join(",");
    println!(
        "C15-SUMMARY seed={} histories={} linearizable={} inconclusive={} with_overlap={} wgl_steps={} sched_points={} perturbations={} po={} wit={}",
        seed, n, lin, capped, overlap, steps, reached, perturbed, hs(&pos), hs(&wits)
    );
}
