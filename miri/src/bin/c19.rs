//! C19 workload for Miri (`-Zmiri-many-seeds`) and for the ThreadSanitizer build: the same
//! generator and differential monitor as the native check (`/verif/harness/src/c19_model.rs`).
//!
//! usage: c19 <seed> <cases> <max_sleep_us> <small|full>
//!   small: 2..=6 rules, max_threads 1..=4, shallow conditions, no GRL text, 1 schedule per case
//!          (Miri-sized; Miri's own scheduler seed provides the schedule diversity)
//!   full : 1..=24 rules, max_threads 1..=16, GRL text in a third of the cases, 4 schedules
//! stdout: `C19-SUMMARY k=v …`, or `C19-VIOLATION <json>` and exit 1.

#[allow(dead_code)]
#[path = "../../../harness/src/rng.rs"]
mod rng;
#[allow(dead_code)]
#[path = "../../../harness/src/sched.rs"]
mod sched;
#[path = "../../../harness/src/c19_model.rs"]
mod c19_model;

use c19_model::*;
use rng::Rng;
use std::collections::BTreeSet;

fn main() {
    let a: Vec<String> = std::env::args().collect();
    let num = |i: usize, d: u64| a.get(i).and_then(|s| s.parse::<u64>().ok()).unwrap_or(d);
    let seed = num(1, 1);
    let n = num(2, 4);
    let sleep_us = num(3, 0);
    let small = a.get(4).map(|s| s != "full").unwrap_or(true);
    sched::install(seed, sleep_us);
    let mut runs = 0u64;
    let mut reordered = 0u64;
    let mut skipped = 0u64;
    let mut orders: BTreeSet<u64> = BTreeSet::new();
    for k in 0..n {
        let mut rng = Rng::derive(seed, 2_000 + k);
        let c = if small {
            let (nr, mt, mr) = (2 + rng.below(5), 1 + rng.below(4), 1 + rng.below(2));
            gen_case(&mut rng, nr, mt, mr, 1, false, true)
        } else {
            let (nr, mt, mr) = (1 + rng.below(24), 1 + rng.below(16), 1 + rng.below(4));
            gen_case(&mut rng, nr, mt, mr, 4, true, false)
        };
        let (f, o) = run_case(&c, &mut || {});
        if o.skipped_parser {
            skipped += 1;
        }
        runs += o.parallel_runs;
        reordered += o.runs_reordered;
        orders.extend(o.completion_orders.iter().copied());
        if let Some((clause, cause, detail)) = f {
            println!("C19-VIOLATION {}", serde_json::json!({"clause": clause, "cause": cause, "detail": detail, "case": c.to_json()}));
            std::process::exit(1);
        }
    }
    let (reached, perturbed) = sched::counters();
    println!(
        "C19-SUMMARY seed={} cases={} skipped_parser={} parallel_runs={} reordered={} sched_points={} perturbations={} orders={}",
        seed,
        n,
        skipped,
        runs,
        reordered,
        reached,
        perturbed,
        orders.iter().take(64).map(|x| format!("{:x}", x)).collect::<Vec<_>>().join(",")
    );
}
