/* LD_PRELOAD interposer of clock_gettime(CLOCK_REALTIME) (and gettimeofday/time for
 * completeness). A process-wide atomic "fake milliseconds since the epoch" variable; -1 means
 * pass through to the real clock. CLOCK_MONOTONIC and friends are never touched, so
 * std::time::Instant keeps working. Driven from Rust through dlsym("verif_clock_set_ms").
 * Build: gcc -O2 -shared -fPIC -o libverifclock.so clock.c -ldl
 */
#define _GNU_SOURCE
#include <dlfcn.h>
#include <stdatomic.h>
#include <stdint.h>
#include <stddef.h>
#include <sys/time.h>
#include <time.h>

static _Atomic int64_t fake_ms = -1;
static _Atomic uint64_t reads = 0;
static int (*real_clock_gettime)(clockid_t, struct timespec *) = NULL;

void verif_clock_set_ms(int64_t ms) { atomic_store(&fake_ms, ms); }
int64_t verif_clock_get_ms(void) { return atomic_load(&fake_ms); }
int64_t verif_clock_advance_ms(int64_t d) { return atomic_fetch_add(&fake_ms, d) + d; }
uint64_t verif_clock_reads(void) { return atomic_load(&reads); }

static int real_cg(clockid_t id, struct timespec *ts) {
  if (!real_clock_gettime)
    real_clock_gettime = (int (*)(clockid_t, struct timespec *))dlsym(RTLD_NEXT, "clock_gettime");
  return real_clock_gettime(id, ts);
}

int clock_gettime(clockid_t id, struct timespec *ts) {
  int64_t f = atomic_load(&fake_ms);
  if (id == CLOCK_REALTIME && f >= 0 && ts) {
    atomic_fetch_add(&reads, 1);
    ts->tv_sec = f / 1000;
    ts->tv_nsec = (f % 1000) * 1000000L;
    return 0;
  }
  return real_cg(id, ts);
}

int gettimeofday(struct timeval *tv, void *tz) {
  (void)tz;
  struct timespec ts;
  int r = clock_gettime(CLOCK_REALTIME, &ts);
  if (r == 0 && tv) {
    tv->tv_sec = ts.tv_sec;
    tv->tv_usec = ts.tv_nsec / 1000;
  }
  return r;
}

time_t time(time_t *t) {
  struct timespec ts;
  clock_gettime(CLOCK_REALTIME, &ts);
  if (t) *t = ts.tv_sec;
  return ts.tv_sec;
}
