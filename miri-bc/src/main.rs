//! BFS strategy under Miri. Rules and goals are built through the library's constructors (the
//! GRL parser's regex engine is far too slow under Miri and is not what is being watched here).
//!
//! Three kinds of workload, all driven by a seeded PRNG (argv: <seed> <workloads>):
//!  1. `BackwardEngine::query` with `SearchStrategy::BreadthFirst` on small Horn KBs,
//!  2. `BreadthFirstSearch::search_with_execution` called directly on a Goal TREE (root with
//!     sub-goals with sub-goals): this is the path on which the raw-pointer queue really holds
//!     pointers into `goal.sub_goals` of goals visited earlier,
//!  3. the non-executing `BreadthFirstSearch::search` on the same trees (second `unsafe` deref).
//! After every search the whole tree is read again through the safe reference, so a dangling
//! or aliasing write would be observed by Miri's borrow tracker.

use rust_rule_engine::backward::goal::{Goal, GoalStatus};
use rust_rule_engine::backward::search::{BreadthFirstSearch, SearchStrategy};
use rust_rule_engine::backward::{BackwardConfig, BackwardEngine};
use rust_rule_engine::engine::rule::{Condition, ConditionGroup, Rule};
use rust_rule_engine::types::{ActionType, Operator, Value};
use rust_rule_engine::{Facts, KnowledgeBase};

struct Rng(u64);
impl Rng {
    fn next(&mut self) -> u64 {
        self.0 = self.0.wrapping_add(0x9E37_79B9_7F4A_7C15);
        let mut z = self.0;
        z = (z ^ (z >> 30)).wrapping_mul(0xBF58_476D_1CE4_E5B9);
        z = (z ^ (z >> 27)).wrapping_mul(0x94D0_49BB_1331_11EB);
        z ^ (z >> 31)
    }
    fn below(&mut self, n: usize) -> usize {
        (self.next() % n as u64) as usize
    }
}

const FIELDS: [&str; 4] = ["A", "B", "T.b", "T.c"];

fn atom(f: &str, v: bool) -> ConditionGroup {
    ConditionGroup::Single(Condition::new(f.to_string(), Operator::Equal, Value::Boolean(v)))
}

fn make_kb(rng: &mut Rng) -> KnowledgeBase {
    let kb = KnowledgeBase::new("miri");
    let n = 1 + rng.below(4);
    for i in 0..n {
        let p = FIELDS[rng.below(4)];
        let c = FIELDS[rng.below(4)];
        let cond = if rng.below(3) == 0 {
            ConditionGroup::and(atom(p, true), atom(FIELDS[rng.below(4)], true))
        } else {
            atom(p, true)
        };
        let rule = Rule::new(
            format!("R{}", i),
            cond,
            vec![ActionType::Set { field: c.to_string(), value: Value::Boolean(rng.below(4) != 0) }],
        );
        kb.add_rule(rule).unwrap();
    }
    kb
}

fn make_tree(rng: &mut Rng, depth: usize, kb: &KnowledgeBase, nodes: &mut usize) -> Goal {
    let f = FIELDS[rng.below(4)];
    let mut g = Goal::new(format!("{} == {}", f, rng.below(2) == 0));
    *nodes += 1;
    for r in kb.get_rules() {
        if rng.below(2) == 0 {
            g.add_candidate_rule(r.name.clone());
        }
    }
    if depth > 0 {
        let kids = rng.below(3);
        for _ in 0..kids {
            let k = make_tree(rng, depth - 1, kb, nodes);
            g.add_subgoal(k);
        }
    }
    g
}

fn read_tree(g: &Goal, proven: &mut usize, seen: &mut usize) {
    *seen += 1;
    if g.status == GoalStatus::Proven {
        *proven += 1;
    }
    let _ = g.pattern.len() + g.candidate_rules.len() + g.depth;
    for s in &g.sub_goals {
        read_tree(s, proven, seen);
    }
}

fn main() {
    let args: Vec<String> = std::env::args().collect();
    let seed: u64 = args.get(1).and_then(|s| s.parse().ok()).unwrap_or(1);
    let n: usize = args.get(2).and_then(|s| s.parse().ok()).unwrap_or(12);
    let mut rng = Rng(seed ^ 0xC09);
    let (mut queries, mut provable, mut trees, mut nodes, mut visited, mut proven) = (0usize, 0usize, 0usize, 0usize, 0usize, 0usize);
    // a search is not supposed to add or drop goals; counted, not asserted, so that Miri keeps
    // watching the rest of the run
    let mut shape_changes = 0usize;
    for w in 0..n {
        let kb = make_kb(&mut rng);
        let mut facts = Facts::new();
        facts.set("A", Value::Boolean(true));
        if rng.below(2) == 0 {
            facts.set("T.b", Value::Boolean(true));
        }
        match w % 3 {
            0 => {
                let cfg = BackwardConfig {
                    max_depth: rng.below(4),
                    strategy: SearchStrategy::BreadthFirst,
                    enable_memoization: false,
                    max_solutions: 1,
                };
                let mut e = BackwardEngine::with_config(kb, cfg);
                for f in FIELDS {
                    let r = e.query(&format!("{} == true", f), &mut facts).unwrap();
                    queries += 1;
                    if r.provable {
                        provable += 1;
                    }
                }
            }
            1 => {
                let mut count = 0;
                let mut root = make_tree(&mut rng, 3, &kb, &mut count);
                let mut bfs = BreadthFirstSearch::new(rng.below(4), kb.clone());
                let r = bfs.search_with_execution(&mut root, &mut facts, &kb);
                trees += 1;
                nodes += count;
                visited += r.goals_explored;
                let mut seen = 0;
                read_tree(&root, &mut proven, &mut seen);
                if seen != count {
                    shape_changes += 1;
                }
                // a second search over the same (already mutated) tree
                let r2 = bfs.search_with_execution(&mut root, &mut facts, &kb);
                visited += r2.goals_explored;
                read_tree(&root, &mut proven, &mut seen);
            }
            _ => {
                let mut count = 0;
                let mut root = make_tree(&mut rng, 3, &kb, &mut count);
                let mut bfs = BreadthFirstSearch::new(1 + rng.below(4), kb.clone());
                let r = bfs.search(&mut root, &facts);
                trees += 1;
                nodes += count;
                visited += r.goals_explored;
                let mut seen = 0;
                read_tree(&root, &mut proven, &mut seen);
                if seen != count {
                    shape_changes += 1;
                }
                // move the tree (Vec reallocation of the parent) and search again
                let mut holder = vec![root];
                holder.reserve(64);
                let r2 = bfs.search(&mut holder[0], &facts);
                visited += r2.goals_explored;
            }
        }
    }
    println!(
        "MIRI-BC ok workloads={} bfs_queries={} bfs_queries_provable={} goal_trees={} goal_tree_nodes={} goals_visited_through_raw_pointers={} goals_proven={} goal_tree_shape_changes={}",
        n, queries, provable, trees, nodes, visited, proven, shape_changes
    );
}
