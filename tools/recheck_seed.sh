#!/bin/bash
# tools/recheck_seed.sh <ID>-<variant> [check-id]  : re-run only the check against an already confirmed seeded change
set -u
N="$1"; OUT=/verif/seeded/$N; ID="${2:-${N%%-*}}"
cd /verif
SLOT=r$N tools/mut_test.sh "$ID" "$OUT/patch.diff" --tier quick > "$OUT/check-$ID.out" 2>&1
RC=$?
SLOT=r$N tools/mut_test.sh --clean
python3 - "$OUT" "$ID" "$RC" <<'PY'
import json,sys,re
out,cid,rc=sys.argv[1],sys.argv[2],int(sys.argv[3])
m=json.load(open(out+'/meta.json'))
txt=open('%s/check-%s.out'%(out,cid)).read()
sigs=[l.strip()[5:] for l in txt.splitlines() if l.startswith('  sig: ')][:8]
m.setdefault('checks',{})[cid]={'quick_exit':rc,'new_signatures':sigs,'summary':[l for l in txt.splitlines() if l.startswith('SUMMARY')][:1]}
json.dump(m,open(out+'/meta.json','w'),indent=1)
print(out.split('/')[-1], cid, 'exit',rc, sigs[:3])
PY
