#!/bin/bash
# tools/mut_test.sh <ID> <patch.diff|-> [--tier quick|thorough] [extra args]
# Runs check <ID> against a scratch copy of /repo with <patch.diff> applied ("-" = no patch),
# without touching /repo or /verif/evidence. Scratch lives under /var/tmp/mt-$SLOT (SLOT env,
# default 0); remove it with tools/mut_test.sh --clean.
set -u
SLOT="${SLOT:-0}"
MT=/var/tmp/mt-$SLOT
if [ "${1:-}" = "--clean" ]; then rm -rf "$MT"; exit 0; fi
ID="$1"; PATCH="$2"; shift 2
BIN="$(echo "$ID" | tr 'A-Z' 'a-z')"
mkdir -p "$MT/root" "$MT/repo"
rsync -a --delete --exclude target --exclude .git /repo/ "$MT/repo/"
if [ "$PATCH" != "-" ]; then
  (cd "$MT/repo" && patch -p1 --no-backup-if-mismatch < "$PATCH" >/dev/null) || { echo "PATCH-FAILED"; exit 2; }
fi
# rsync preserves mtimes: make every source newer than any artifact left in this slot by an earlier
# (differently patched) run, or cargo would link the stale build
find "$MT/repo/src" -type f -exec touch {} +
rsync -a --delete --exclude target /verif/harness/ "$MT/h/"
sed -i "s#path = \"/repo\"#path = \"$MT/repo\"#" "$MT/h/Cargo.toml"
sed -i "s#target-dir = \"/verif/target\"#target-dir = \"$MT/target\"#" "$MT/h/.cargo/config.toml"
rsync -a --delete /verif/known/ "$MT/root/known/"
cp /verif/KNOWN_FINDINGS.txt /verif/properties.jsonl "$MT/root/"
mkdir -p "$MT/root/harness" "$MT/root/evidence"
(cd "$MT/h" && CARGO_TARGET_DIR="$MT/target" cargo build --offline --release --bin "$BIN" 2>&1 | grep -E "^error" -A 8 | head -30)
[ -x "$MT/target/release/$BIN" ] || { echo "BUILD-FAILED"; exit 2; }
case "$ID" in C01|C02|C03|C05|C06|C07|C09|C10|C11|C13|C16)
  (cd "$MT/h" && CARGO_TARGET_DIR="$MT/target" cargo build --offline --profile devopt --bin "$BIN" 2>&1 | grep -E "^error" -A 8 | head -30)
  [ -x "$MT/target/devopt/$BIN" ] && export VERIF_DEVOPT_BIN="$MT/target/devopt/$BIN";;
esac
export VERIF_ROOT="$MT/root"
case "$ID" in C12|C20) export VERIF_CLOCK_SHIM=/verif/shim/libverifclock.so;; esac
cd "$MT/root" && "$MT/target/release/$BIN" "$@"
