#!/bin/bash
# tools/verify_seed.sh <ID> <variant> [extra check args]
# Confirms a seeded change from /tmp/seed/<ID>/out/<variant>/ (patch.diff, demo.rs, meta.txt):
#  (1) demo passes on the unchanged tree, (2) with the patch the repository's whole suite still passes,
#  (3) with the patch the demo fails; then runs ./check <ID> (quick) against the patched scratch copy.
# Writes /verif/seeded/<ID>-<variant>/{patch.diff,demo.rs,meta.json,check.out}.
set -u
ID="$1"; V="$2"; shift 2
SRC=/tmp/seed/$ID/out/$V
OUT=/verif/seeded/$ID-$V
S=/var/tmp/sv-$ID-$V
export CARGO_TARGET_DIR=${SV_TARGET:-/var/tmp/sv-target} CARGO_NET_OFFLINE=true
[ -f "$SRC/patch.diff" ] && [ -f "$SRC/demo.rs" ] || { echo "missing patch.diff/demo.rs in $SRC"; exit 2; }
mkdir -p "$OUT"; cp "$SRC/patch.diff" "$SRC/demo.rs" "$OUT/"; [ -f "$SRC/meta.txt" ] && cp "$SRC/meta.txt" "$OUT/agent-meta.txt"
rm -rf "$S"; mkdir -p "$S"; rsync -a --exclude target --exclude .git --exclude out /repo/ "$S/"
# rsync preserves mtimes and the target dir is shared between runs: make every source newer than any
# artifact so that cargo never reuses a build of a differently patched tree
find "$S/src" "$S/tests" "$S/examples" "$S/benches" -type f -exec touch {} + 2>/dev/null
FEAT=$(head -1 "$SRC/demo.rs" | sed -n 's#^// *features: *##p' | tr -d ' ')
FARG=""; [ -n "$FEAT" ] && [ "$FEAT" != "none" ] && FARG="--features $FEAT"
cd "$S"
cp "$SRC/demo.rs" tests/seed_demo.rs
D0=$(cargo test --offline --test seed_demo $FARG 2>&1 | grep -E "^test result" | head -1)
rm tests/seed_demo.rs
git apply --whitespace=nowarn "$SRC/patch.diff" 2>/dev/null || patch -p1 --no-backup-if-mismatch < "$SRC/patch.diff" >/dev/null || { echo "PATCH DOES NOT APPLY"; echo '{"status":"patch-does-not-apply"}' > "$OUT/meta.json"; exit 1; }
find "$S/src" -type f -exec touch {} +
T=$(cargo test --workspace --no-fail-fast --offline 2>&1)
PASS=$(echo "$T" | grep "^test result" | sed -E 's/.* ([0-9]+) passed.*/\1/' | paste -sd+ | bc)
FAIL=$(echo "$T" | grep "^test result" | sed -E 's/.* ([0-9]+) failed.*/\1/' | paste -sd+ | bc)
TF=$(cargo test --offline --features streaming,backward-chaining --lib 2>&1 | grep "^test result" | head -1)
cp "$SRC/demo.rs" tests/seed_demo.rs
D1=$(cargo test --offline --test seed_demo $FARG 2>&1 | grep -E "^test result" | head -1)
cd /verif
SLOT=s$ID$V tools/mut_test.sh "$ID" "$SRC/patch.diff" --tier quick "$@" > "$OUT/check.out" 2>&1
RC=$?
SLOT=s$ID$V tools/mut_test.sh --clean
SIGS=$(grep "^  sig:" "$OUT/check.out" | sed 's/^  sig: //' | head -8 | python3 -c 'import sys,json; print(json.dumps([l.strip() for l in sys.stdin]))')
python3 - "$OUT/meta.json" <<PY
import json,sys
json.dump({
 "property": "$ID", "variant": "$V",
 "demo_on_unchanged_tree": """$D0""",
 "suite_with_patch": {"passed": int("${PASS:-0}"), "failed": int("${FAIL:-0}"), "feature_lib_tests": """$TF"""},
 "demo_with_patch": """$D1""",
 "confirmed": ("ok" in """$D0""" and "FAILED" in """$D1""" and int("${FAIL:-1}")==0 and int("${PASS:-0}")>=205),
 "check_quick_exit": $RC,
 "check_new_signatures": $SIGS,
 "ran": ["cargo test --offline --test seed_demo $FARG (unchanged tree)", "git apply patch.diff; cargo test --workspace --no-fail-fast --offline", "cargo test --offline --test seed_demo $FARG (patched)", "tools/mut_test.sh $ID patch.diff --tier quick"],
}, open(sys.argv[1],"w"), indent=1)
PY
rm -rf "$S"
echo "$ID-$V: demo0=[$D0] suite=$PASS/$FAIL demo1=[$D1] check_exit=$RC"; grep -E "^SUMMARY" "$OUT/check.out" | cut -c1-200
