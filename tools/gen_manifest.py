#!/usr/bin/env python3
"""Regenerates /verif/MANIFEST.json from the table below + which harness/src/bin/cNN.rs exist."""
import json, os, subprocess
ROOT = os.path.dirname(os.path.dirname(os.path.abspath(__file__)))

CHECKS = {
 # id: (level, technique, text, note, design_ref)
 "C01": ("exploration",
         "differential monitor: real parser+engine vs an independent three-valued reference evaluator, judged locally at every observed firing, non-firing and assignment",
         "GRL text is generated from the grammar of the typed core, parsed and executed by the real engine through execute_with_callback; every firing, every rule passed over between two firings and every stored value is judged against the reference evaluator on the fact snapshots the engine really was in (pre-state = snapshot after the previous firing). Held = no judged firing/non-firing/assignment of any explored run disagreed; operand combinations the documentation leaves open are skipped and counted, not judged.",
         "Trusts the reference semantics of DESIGN.md §4.2 and the harness's GRL printer; assumes rank-order consideration within passes (checked by C02/C03; a contradicting run is not judged and makes the check inconclusive). Says nothing about plugins, functions, pattern CEs, method calls.",
         "DESIGN.md §5 C01"),
 "C02": ("exploration",
         "online trace monitors (one per clause: order, enable/date/focus, no-loop, activation group, lock-on-active) over call histories on one engine; pass heads and the engine's own agenda focus come from guarded hook events (ForwardPass, AgendaFocus)",
         "Histories of execute_at_time / execute / focus / activation / reset / enable calls run on one real engine; firings are observed through a custom action handler that every generated rule calls last (with a fact snapshot), pass boundaries through hook H2, focus through get_active_agenda_group at every call boundary. Each clause of the statement is an upper-bound or ordering monitor over that trace; the activation-group 'highest' clause is judged with the reference evaluator on the snapshot at the higher-ranked member's turn. Held = no event of any explored history broke a clause.",
         "Attributes are set on parsed Rule objects, not via GRL attribute syntax (C04 owns that). Readings the statement leaves open are accepted (activation taking effect immediately or at the next pass; firing exactly at the expiry instant). Upper-bound clauses cannot see a rule that wrongly never fires (C01/C03 do).",
         "DESIGN.md §5 C02"),
 "C03": ("exploration",
         "trace monitor over result counters, callback count, per-pass firing counts (hook H2) and a reference fixpoint check; logical step bounds decide termination",
         "Self-triggering, mutually triggering and quiescing programs are run with every max_cycles in 0..=64 (a fixed family exhaustively over that grid, random programs beyond); the monitor checks cycle_count and passes against the bound, fired count against callbacks, that only the last pass may fire nothing and that an early stop happened exactly after an empty pass, and re-evaluates every still-eligible rule on the final facts with the reference evaluator. A run that makes more than max_cycles+1 passes or more than max_cycles x #rules firings is stopped by the monitor (logical bound); shards run in child processes with a CPU limit as back-stop.",
         "Trusts hook H2 for pass boundaries (no markers => inconclusive), the reference evaluator for the fixpoint clause, and a fresh engine per run (no-loop tracking starts empty).",
         "DESIGN.md §5 C03"),
 "C04": ("exploration",
         "grammar-based generation with the generator's own AST + structural comparison of all three parser entry points, under independent layout/comment/hostile-string features; shrinking to the surviving cause",
         "Rule files are generated from the documented grammar together with their AST, rendered under independently switchable whitespace features, comment placements and hostile string contents, parsed by parse_rules, parse_with_modules and (rule by rule) parse_rule, and compared piece by piece (count, order, name, salience, each attribute, flattened condition tree with every leaf, action list). Failing files are shrunk over rules, layout features, comments, attributes, condition, actions and string contents; the signature is the set of hostile features that survived (or, on plain grammar, the clause and remaining structure). Held = every explored file parsed equal to what was written, apart from the listed known findings.",
         "The expected AST encodings (bare path = Value::Expression, arithmetic leaf = one Test leaf with the same tokens, flattened And/Or) are the harness's reading of the parser's contract; Rule.description is not compared. A failing file that still contains a feature listed as a known finding is attributed to that finding (a tainted file proves nothing new); files without such features are always reported in full.",
         "DESIGN.md §5 C04"),
 "C05": ("exploration",
         "crash/hang monitor: seeded hostile text generators drive the 13 public text entry points (14 calls) inside batched worker child processes of a release and a debug-assertions/overflow-checks build (8 MiB main-thread stack, kernel RLIMIT_CPU armed per call, SIGXCPU handler reporting the call site); panics caught with message class + innermost crate frame; a dead child is attributed to the announced call and the culprit re-run alone; witnesses delta-debugged",
         "Every generated UTF-8 input <= 4 KiB (raw bytes, token soup, slot templates, mutation of the repository's GRL corpus, expression and stream-pattern grammars, multi-byte insertion at every token boundary, every truncation, bracket nesting <= 32, full-length prefix chains) must return a value or an error from all 14 calls in both builds within 120 CPU-seconds and without killing the process. Held = that was so for every explored input apart from the listed open findings; the grid of full-length prefix chains and the multi-byte / truncation sweeps over the embedded seeds are enumerated completely in the thorough tier, everything else is sampled.",
         "CPU time is the kernel's (RLIMIT_CPU per call, child rusage), never wall clock. Slow pairs whose observed call site is that of an open cpu finding are not re-judged. In the quick tier the pinned witnesses of open cpu findings are re-confirmed with a 20 CPU-second budget (still hanging at the same call site); the full 120 s re-run happens in the thorough tier and for every new hang. The devopt sub-check is inconclusive without VERIF_DEVOPT_BIN (./check builds it).",
         "DESIGN.md §5 C05"),
 "C06": ("exploration",
         "recorder-wrapped action closures, three-valued reference evaluator and shadow working memory (history monitor) over exhaustive and random insert/update/retract/fire_all/reset histories of GRL-loaded single-type rules",
         "Generates single-type typed-core rules as GRL text and loads them through the real parser and loader (hook H3); every action is wrapped with a recorder and histories are run on IncrementalEngine. Exhaustive for two 2-rule programs over a 12-operation alphabet to the stated length, random up to 12 ops, 6 facts, 3 types and 4 rules, including actions that modify or retract the matched fact. Every firing is judged on the matched fact's contents in the copy handed to the action; the first fire_all of Log-only no-loop histories must fire exactly the satisfied rules once; the four working-memory views are compared with a shadow for every handle ever issued after every op; handles are pairwise distinct. Held = no explored history broke a clause apart from the pinned findings.",
         "The matched fact is what the engine injects for the rule's type. 'Satisfies' is typed; absent fields and kind mismatches are Undefined and skipped (counted). HashMap order is uncontrolled, so replays repeat 32 times. Join rules, accumulate/exists/forall and stream nodes are not generated.",
         "DESIGN.md §5 C06"),
 "C07": ("exploration",
         "API-level trace monitor of AdvancedAgenda against a shadow multiset with limbo (exhaustive and random), logical-step termination monitor in child processes for five fire_all entry points, engine-level no-loop / salience-order / bound monitors on IncrementalEngine histories, exact firing-order monitor for the closure-driven engines",
         "Part A drives AdvancedAgenda with every sequence of a 21-operation alphabet to the stated length plus random sequences and checks each pop against a shadow multiset (no eligible pending activation of the focused group with a larger (salience, earlier-created) key; no-loop and activation-group exclusivity between resets). Part B runs rule programs incl. always-true rules without no-loop on IncrementalEngine, TypedReteUlEngine, ReteUlEngine and the free fire_rete_ul_rules* functions in child processes; action closures count executions and unwind beyond 100 x 1000 x #rules (logical 'does not return'); documented iteration bounds are checked. Part C checks no-loop, salience order and the bound on IncrementalEngine histories. Held = no explored sequence or program broke a clause apart from the pinned findings.",
         "'Earlier-created' is the order of Activation::new calls with forced distinct instants (equal-instant ties are not exercised). Lock-on-active, auto_focus activations and one ruleflow group are exercised at API level (queued members of a ruleflow group switched off later are not judged); non-Salience strategies are outside the statement. Action-free spinning can only be inconclusive under the CPU back-stop (none occurred).",
         "DESIGN.md §5 C07"),
 "C08": ("exploration",
         "state-invariant monitor with an independent reference support model over exhaustive and random insert/justify/retract histories",
         "Runs IncrementalEngine + TruthMaintenanceSystem on every history of 7 ops over <=4 facts and 6 ops over <=7 facts (thorough: 7 ops over <=7 facts, 8 ops over <=4 facts) plus random histories up to 10 ops / 7 facts (explicit inserts, logical inserts with every premise set of <=3 live facts, extra justifications incl. self- and mutual support, retraction of any live fact). After every operation it compares presence of every handle, the TMS view and the retract result with a model of the statement. Held = no operation of any explored history broke the invariant.",
         "Premises are live when recorded. Justifications are only added to live logical facts. Both readings of cyclic support are accepted (the engine follows the literal one). Retraction and logical insertion driven by rule actions go through the same functions and are not varied separately.",
         "DESIGN.md §5 C08"),
 "C09": ("exploration",
         "differential monitor: real GRL parser + BackwardEngine vs independent references (three-valued goal evaluator on returned facts; multi-valued Horn closure and definite derivation heights on initial facts); exhaustive small family + seeded random KBs; Miri on the BFS raw-pointer queue (thorough)",
         "Horn KBs generated as GRL text (parsed rules must equal the generator's AST), one query per fresh engine, memoisation off; provable => goal true on the facts handed back (S1) and satisfiable in an over-approximating forward closure (S2); a DFS 'not provable' is a violation when a derivation of height <= max_depth through conjunctive rules over single-valued fields exists (K); cases with several top-level candidates are repeated (HashSet candidate order). Held = no judged answer disagreed apart from the open findings; thorough also needs a clean Miri run (Stacked+Tree Borrows) of BFS over goal trees.",
         "Trusts DESIGN §4.2 semantics (cross-type / ambiguous nested-vs-flat = Undefined, skipped+counted) and the height convention initial=0, rule=+1; K silent on multi-valued fields; completeness only DFS/max_solutions 1; Miri covers the hand-built tree workloads only (a Miri build/run failure is inconclusive).",
         "DESIGN.md §5 C09"),
 "C10": ("exploration",
         "model-based step monitor (stack of snapshots) over exhaustive and random op sequences of the Facts undo API + before/after fact comparison of every failed backward query (plain, negated, and over rules with Append/Retract/Set side effects)",
         "All sequences of length 5/6 over a 20-op alphabet (begin/commit/rollback/set/set_nested/remove x 3 keys x 2 values, plus set/remove of a flat key whose name extends another key) from 2 initial stores, random to length 10, whole store compared with the model after every op; every C09-style query answered 'not provable' must leave get_all_facts() unchanged. Held = no step or failed query broke a clause apart from the open findings.",
         "Only values/absence are compared (not Facts' type tags); set_nested on an absent or non-object root is Err with no change; open undo frames after a query (hook H4) are reported, not judged.",
         "DESIGN.md §5 C10"),
 "C11": ("exploration",
         "differential history monitor: reused engine vs freshly built engine (with the configuration in force at that moment) on a deep copy of the facts at every query step; steps include set_config, GRLQueryExecutor queries, aggregate queries and caller-side undo frames",
         "Histories of <= 6 steps (queries from a small pool, caller-side set/remove, RETE retractions when attached) on one engine; every query step compared with a fresh engine; exhaustive 5^4 histories over 2 queries x 3 edits for 10/50 KBs, random beyond. Held = every judged answer equalled the fresh engine's apart from the text-keyed memo finding.",
         "answer = QueryResult.provable; a mismatch that does not reproduce in every confirmation run (candidate order is HashSet-dependent) is counted, not judged.",
         "DESIGN.md §5 C11"),
 "C12": ("exploration",
         "online step monitors (before/after contents, no carried model) + reference folds over exhaustive short and seeded random event sequences; wall clock injected through an LD_PRELOAD shim for the clock-driven node",
         "Drives TimeWindow (add_event, record), WindowManager and WindowedStream in tumbling mode, and StreamAlphaNode under a virtual clock with every event sequence up to a stated length over a small timestamp alphabet around the window boundaries (x durations 1-10 ms x caps 1, 2, 100) and seeded random sequences up to length 12, one in 8 of 21-64 events (in order, reversed, shuffled, late, duplicate, boundary instants; numeric, string, bool, missing, NaN and infinite payloads; durations and instants up to the ends of the u64 range). After every call it checks acceptance / aligned placement / no stale retained event / no in-span event lost except oldest-first cap drops on the contents observed before and after, and count, sum, average, min, max through every aggregation API against a fold over exactly the window's events(). Held = no step of any explored sequence broke a clause, apart from the listed known findings.",
         "Exploration, not proof: exhaustive only to length 4-8 over 6-8 timestamps. Trusts metadata.sequence as identity. Cap drops accepted under arrival- or timestamp-order readings and either order of cap and eviction. Future timestamps within d of now are not judged for the sliding node. Min/max are judged under the reading that a NaN is no candidate while any reading is a number (IEEE minNum/maxNum). Session windows, WindowedStream sliding mode and sub-ms durations are outside the statement and not driven. Needs the clock shim, else the node part is INCONCLUSIVE.",
         "DESIGN.md §5 C12"),
 "C13": ("exploration",
         "online step monitor (invariant + conservation) over exhaustive and random event sequences",
         "Runs WatermarkedStream on every timestamp sequence of a small dense domain (exhaustively up to a stated length, randomly beyond) under every watermark/late-data configuration and checks, after every add_event, monotonicity, the watermark value, the late/on-time decision, routing by unique event id and the counter identities. Held = no step of any explored sequence broke a clause.",
         "Trusts the harness's shadow bookkeeping (ids, max timestamp) and that lateness <= bound is 'allowed'. Says nothing about Periodic/Custom strategies (wall-clock driven, not in the statement).",
         "DESIGN.md §5 C13"),
 "C14": ("exploration",
         "reference-model trace monitor over ALL merges of two arrival orders (exhaustive small scope + seeded random pairs), driving StreamJoinNode directly and through StreamJoinManager, with and without watermark updates; set-equality monitor over the pairs handed out when two producer threads feed one manager",
         "Every JoinedEvent returned by process_left/process_right/update_watermark (or delivered to the manager's handler) is tagged with harness-assigned unique ids and compared with the reference inner join of the events that have arrived: nothing outside the reference, nothing twice, and a reference pair may be missing only if its first-arrived side was eligible for eviction (watermark - ts > window) at a watermark update before the partner arrived; without watermark updates the emitted multiset must equal the reference exactly and emitted sets are also compared directly between merges. For every generated pair (<=4+4 events, 1-3 keys, keyless events, ts 0..6, windows 0/1/2/5 s, condition true or l.v<=r.v) all <=70 merges are run; all pairs of <=2+2 events over a stated small domain are enumerated with every placement and value of one watermark update. Held = no listed run broke a clause.",
         "Window and timestamps in whole seconds (the node's as_secs() convention; the millisecond wording is not judged). Event ids are unique or (1/5 of the random pairs) per-entity ids reused across timestamps; two events of one stream sharing id AND timestamp are not judged. Which eligible events are evicted is not prescribed. Only Inner + TimeWindow; outer joins, count/session windows, self-joins and watermark regress are outside the statement.",
         "DESIGN.md §5 C14"),
 "C15": ("exploration",
         "model-based step monitor over exhaustive and random operation sequences (ordered list + version model); linearizability checking (WGL search, memoised) of recorded 3-thread histories under seeded schedule perturbation (hook H5); exact single-writer / many-readers history checker on rule bases of 65-520 rules; the step monitor also over a knowledge base and its clones; Miri many-seeds and a ThreadSanitizer build of the same generator in the thorough tier; deadlock watchdog",
         "Sequentially, every sequence of the 25 mutating operations (4 names x 3 saliences) up to length 5 (thorough 6) and random sequences up to length 8 (some to 16, plus long 48-name sequences) are run on a real KnowledgeBase; return value and version are checked after every operation and every read view (get_rule for all names, get_rules, get_rule_names, rule_count, get_rules_by_salience+get_rule_by_index, get_statistics, version) is compared with an ordered-list+version model of the statement. Concurrently, random programs of 3 threads x 4 operations (all ten operation kinds, 2-3 names) run on one Arc<KnowledgeBase> with seeded yields/sleeps at the library's schedule points; every recorded history (client-side call/return stamps from one atomic clock) must have a linearisation that the model accepts. Thorough repeats the generator under Miri's seeded scheduler (data races, deadlocks, UB are violations) and in a ThreadSanitizer build. Held = no explored sequence, history or sanitizer run broke a clause.",
         "Exhaustive only to length 5/6 of the stated 8 (25^8 = 1.5·10^11 is out of reach by execution); lengths 6..8 are sampled. Schedules are those reached by perturbed native runs, Miri's 64 seeds and TSan stress, not all schedules. The version need only grow, not by one; on missing-name operations it may stay or grow. get_rules_by_salience + get_rule_by_index is two calls and is judged sequentially only. A schedule-dependent violation is replayed by re-executing its program up to 30 000 times. Miri/TSan build failures or timeouts are inconclusive.",
         "DESIGN.md §5 C15"),
 "C16": ("exploration",
         "five differential monitors over generated op histories and a hostile value domain: indexed vs never-indexed alpha memory, beta lookup vs scan of live facts, memoised vs direct node evaluation, conclusion index vs scan of enabled rules' Set actions, BackwardEngine kept across knowledge-base edits + rebuild_index() vs an engine built from scratch; exhaustive over all value pairs of the domain",
         "After every operation of every generated history (<=10 ops) the optimised answer is compared with the plain one: AlphaMemoryIndex::filter for every field x every domain value against a shadow instance that never creates an index; BetaMemoryIndex::lookup for every printed key against the harness's list of live facts; every MemoizedEvaluator::evaluate against evaluate_typed on fact sets that print alike but differ in type; ConclusionIndex::find_candidates >= enabled present rules with a Set on the goal's field, for goals with every documented operator, spacing, string literals holding operator text, and negation. All (stored, probe) value pairs and all print-alike pairs x operators x literals are enumerated. Held = no comparison broke, apart from the listed known findings.",
         "alpha 'without index' is the library's own linear path. beta keys are Debug renderings (its own test's convention). The memo closure is evaluate_typed itself. conclusion: unique rule names while present, only Set counts as 'assigns', single-field goals only; inside BackwardEngine an empty index answer falls back to a linear scan, which masks the two conclusion findings at engine level.",
         "DESIGN.md §5 C16"),
 "C17": ("exploration",
         "state monitor with a reference support model (sticky invalidation) over exhaustive and random insert_proof/invalidate_handle histories",
         "Runs ProofGraph on every proviso-respecting sequence up to length 4 over 5 handles and length 6 over 3 handles (thorough: length 5 over 4 and 5 handles) and on random histories up to 9 ops / 5 handles (thorough also 14 / 7), every insertion order including dependents before premises, re-proof under the same and a fresh handle. It compares get_node.valid, is_proven and lookup_by_key with the model at the end of every prefix and after every op. Held = no prefix of any explored history disagreed apart from the pinned finding.",
         "Invalidation is read as sticky. Invalidated handles are never reused as premises. Each handle keeps one key. Premises without a node count as base facts.",
         "DESIGN.md §5 C17"),
 "C18": ("exploration",
         "online step monitor with an independent reference model (strict/liberal bounds) over exhaustive and random operation sequences on ModuleManager; full public snapshot after every operation",
         "Runs the real ModuleManager on every operation sequence of a stated length over a reduced 36-operation alphabet (create/delete/export/add-rule/imports incl. self-imports, other types and patterns, MAIN, re-exports) from three start prefixes, and on random sequences of up to 7 operations over the full alphabet, with deletions and re-creations of imported modules. After every operation it checks that declarations and import_graph among existing modules are acyclic, that a refused import changed nothing, that every visibility query on an existing module answers, and that is_rule_visible / get_visible_rules lie between a strict and a liberal reading of the statement (identical when no re-export or outlived declaration is involved) and agree with each other. Held = no step of any explored sequence broke a clause other than the pinned known findings.",
         "The model follows the Ok/Err of create/delete/add operations instead of prescribing them; acceptance of acyclic imports and template-visibility values are not demanded; Module::add_import and the GRL parser front-end are not driven; a defect whose only symptom carries one of the open signatures would be masked.",
         "DESIGN.md §5 C18"),
 "C19": ("exploration",
         "differential monitor: execute_parallel with parallelism on (repeated under seeded schedule perturbation, hook H5) vs parallelism off vs an independent three-valued reference evaluation, plus structural clauses on execution_contexts; exhaustive chunking grid + random rule sets + rule sets with long/deep conditions judged one per child process (an abnormal death of the child is a violation); deadlock watchdog; Miri many-seeds and a ThreadSanitizer build of the same generator in the thorough tier",
         "Rule sets of 1-24 rules in the typed core (int/string/bool field vs literal under && / || / !, salience ties, disabled rules; one third written as GRL text and parsed by the real parser) are executed by ParallelRuleEngine once with parallelism off and 4 (thorough 8) times with parallelism on for max_threads 1-16 and min_rules_per_thread 1-4 — the whole (rules per level x max_threads x min_rules_per_thread) grid once, random configurations beyond — while seeded yields/sleeps at the worker-loop schedule points vary the interleaving. Every result must be Ok, list every enabled rule exactly once and nothing else, report evaluated = #enabled and fired = #fired contexts, agree with the reference verdict where defined, keep higher salience first; parallel and one-by-one results must have the same fired set and counts. A watchdog decides 'does not return' on a no-thread-runnable/no-CPU/no-progress criterion. Thorough repeats small cases under Miri's seeded scheduler and the full generator in a ThreadSanitizer build (reports = violations). Held = no explored run broke a clause.",
         'Schedules are those reached by perturbed native runs, 48 Miri seeds and TSan stress, not all schedules. Generated actions write only Out.* keys no condition reads (Facts is shared between workers, so other rule sets have legitimately schedule-dependent verdicts and are outside the statement). A leaf on a missing field is Undefined for the reference (the parallel evaluator answers false there, also for !=; differential comparison still applies). Order inside a salience level is unconstrained. Exists/forall/accumulate/function-call conditions and custom functions in conditions are not generated. Miri/TSan build failures or timeouts are inconclusive.',
         "DESIGN.md §5 C19"),
 "C20": ("fault_enumeration",
         "reference-model history monitor under an LD_PRELOAD virtual clock (exhaustive small scope + seeded random, also real clock) + strace fault enumeration of a real checkpoint() call (SIGKILL before every syscall, ENOSPC/EIO on every syscall, every byte-prefix / zero-filled tail of the state file) with a fresh-store restore oracle, plus runs in which the process survives the injected error and carries on (follow-up checkpoints, every checkpoint retention still owes restored)",
         "Runs the real StateStore (file backend) on every op sequence of a stated 22-letter alphabet (incl. cleanup_expired) up to length 5/6 and on random histories of up to 10 ops over 3 keys, comparing every public view with an independent model after each op and the store with the recorded snapshot after each restore; then kills a child on entry to each syscall its checkpoint() issues (observed with strace), fails each of those syscalls with ENOSPC/EIO and cuts the state file at every byte, each time requiring that fresh stores restore all earlier checkpoints exactly and the interrupted one completely or not at all. Held = none of the executions listed in the evidence broke a clause.",
         "Crash = process death between syscalls; torn writes and lost page cache approximated by byte prefixes and zero tails (no block reordering, no fsync/power-loss model). TTL boundary instant, TTL restart on update, TTL after restore and upsert are treated as open. Real-clock collisions are timing dependent, frozen-clock ones deterministic. Needs strace and the clock shim, otherwise inconclusive (exit 3).",
         "DESIGN.md §5 C20"),
}


# workload extensions made after the seeded rounds, appended to the level text (DESIGN.md §5 "Extended ..." paragraphs)
EXTRA = {
 "C02": " Also driven: whole-knowledge-base replacement, timeouts expiring inside a slow action, date windows given as RFC 3339 text at a UTC offset, calls that return Err in mid-pass on an injected action failure, 21-32 rule cases.",
 "C03": " Also driven: an undo frame held open on the fact store by the caller, knowledge-base edits between calls, agenda groups handing the focus around (bound clauses only), remainder / quotient by a fact that is or becomes 0, extreme saliences, empty stores.",
 "C06": " Also driven: histories of 40-200 operations over up to 150 facts, working_memory_mut().clear(), integers at and beyond the ends of i64.",
 "C07": " Also driven: matched fact handles on agenda activations, auto_focus and ruleflow groups, and the firing order of the closure-driven engines with 1-80 no-loop rules and tied saliences (exact order).",
 "C09": " A query that panics where bounded completeness demands \"provable\" is a violation of that clause, elsewhere no verdict. Also driven: goal spellings (spacing, exponent forms), field names beginning with NOT, string values wrapped in quote characters or ending in an operator token.",
 "C10": " Also driven: frame sequences of 12-40 operations over 10 keys, set_nested with a one-segment path, actions that fail half-way, negated queries.",
 "C11": " Also driven: set_config / GRL-query steps, aggregate queries, caller-side undo frames, literals differing only in inner white space, fact bases of 30-45 additional facts.",
 "C13": " Also driven: the generator and the late-data handler by hand with clear_side_output(), instants and delays up to the ends of u64, 1500-6000 late events, delays / bounds that are not round numbers with events exactly at the separating instants.",
 "C14": " Also driven: sibling joins registered and unregistered, re-used event ids, sub-second and unbounded windows, instants in the upper half of u64, pairs of 20-150 events a side (5 merges each), and two producer threads on one StreamJoinManager (pairs handed to the handler = reference pairs, each once).",
 "C15": " Also driven: batches loaded from GRL text, histories over a knowledge base and its clones (every instance against its own model), and a wide concurrent part (1 scripted writer, 3 readers, 65-520 rules; exact single-writer oracle over the states between the writer operations finished before the call and started before the return).",
 "C16": " Also driven: histories of 40-300 operations (hundreds of indexed facts, 120 rule names), and the conclusion index as a BackwardEngine keeps it across knowledge-base edits and rebuild_index() (queries compared with an engine built from scratch).",
 "C18": " Also driven: transitive-dependency views, empty and ?ALL patterns, and wide cases of 6-9 modules with 10-30 imports.",
 "C19": " Also driven: reused engines (a decoy call first, possibly ending in a panicking worker), condition chains of 12-96 leaves in child processes, flat facts named like a dotted path, 65-200 rules with max_threads 32-256.",
}

def main():
    props = [json.loads(l) for l in open(os.path.join(ROOT, "properties.jsonl"))]
    hooks_commits = subprocess.run(["git", "-C", "/repo", "log", "--format=%h %s", "--grep=^verif-hooks"],
                                   capture_output=True, text=True).stdout.strip().splitlines()
    checks, na = [], []
    for p in props:
        pid = p["id"]
        has_bin = os.path.exists(os.path.join(ROOT, "harness/src/bin/%s.rs" % pid.lower()))
        if pid in CHECKS and has_bin:
            level, tech, text, note, ref = CHECKS[pid]
            text = text + EXTRA.get(pid, "")
            checks.append({
                "property_id": pid,
                "quick_cmd": "./check %s --tier quick" % pid,
                "thorough_cmd": "./check %s --tier thorough" % pid,
                "evidence_file": "/verif/evidence/%s.json" % pid,
                "replay_cmd_template": "./check %s --replay {path}" % pid,
                "engine": "rre-verif",
                "level_claimed": {"category": level, "text": text, "design_ref": ref},
                "level_note": note,
                "technique": tech,
            })
        else:
            na.append({"property_id": pid, "reason": "check not built yet in this commit (planned: DESIGN.md §5 %s); not claimed until its binary exists and is silent on the unchanged tree" % pid})
    m = {
        "version": 1,
        "setup_cmd": "./setup.sh",
        "hooks": {
            "guard": "cargo feature verif-hooks",
            "enable": "harness/Cargo.toml depends on /repo by path with features [verif-hooks, streaming, backward-chaining]; ./check rebuilds the property binary (and with it /repo's working tree) on every invocation",
            "baseline_off_cmd": "cd /repo && cargo test --workspace --no-fail-fast --offline",
            "source_commits": hooks_commits,
            "add_only": True,
        },
        "engines": [{
            "name": "rre-verif-miri",
            "path": "/verif/miri",
            "serves_properties": ["C15", "C19"],
            "kind_free_text": "second tiny crate (path-dep on /repo with verif-hooks only) holding the Miri / ThreadSanitizer workloads of C15 and C19; shares generator and oracle with the native binaries via #[path]; thorough tier only, built on demand into /verif/target/miri and /verif/target/tsan",
        }, {
            "name": "rre-verif-miri-bc",
            "path": "/verif/miri-bc",
            "serves_properties": ["C09"],
            "kind_free_text": "Miri workloads for the raw-pointer queue of the BFS backward search (thorough tier of C09)",
        }, {
            "name": "rre-verif",
            "path": "/verif/harness",
            "serves_properties": [c["property_id"] for c in checks],
            "kind_free_text": "Rust harness crate: one workload+monitor binary per property (generators, reference models, step/trace monitors, history checkers, child-process and fault-injection runners); see DESIGN.md §2",
        }],
        "checks": checks,
        "not_applicable": na,
        "notes": "Runtime monitoring only: every verdict is 'held on the executions listed in the evidence file'. Exit codes: 0 held, 1 violation (VIOLATION line + replay file), 2 harness/build error, 3 inconclusive. Known findings: KNOWN_FINDINGS.txt (see DESIGN.md §4.4).",
    }
    json.dump(m, open(os.path.join(ROOT, "MANIFEST.json"), "w"), indent=1)
    print("checks:", [c["property_id"] for c in checks], "not_applicable:", len(na))

if __name__ == "__main__":
    main()
