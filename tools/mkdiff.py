#!/usr/bin/env python3
"""tools/mkdiff.py <repo-relative-file> <old> <new> [count]  -> unified diff on stdout (against /repo)"""
import sys, difflib
f, old, new = sys.argv[1], sys.argv[2], sys.argv[3]
n = int(sys.argv[4]) if len(sys.argv) > 4 else 1
s = open('/repo/' + f).read()
assert s.count(old) >= 1, "pattern not found"
t = s.replace(old, new, n)
sys.stdout.writelines(difflib.unified_diff(s.splitlines(True), t.splitlines(True), 'a/' + f, 'b/' + f))
