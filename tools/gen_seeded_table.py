#!/usr/bin/env python3
"""tools/gen_seeded_table.py: (1) folds each seeded/<id>/agent-meta.txt (the author's description:
what the change is, what it needs in order to manifest) into seeded/<id>/meta.json, and
(2) regenerates DESIGN.md section 8.3 (between the SEEDED-TABLE markers) from seeded/*/meta.json and
seeded/NOTES.json."""
import json, os, re, sys, glob

ROOT = os.path.dirname(os.path.dirname(os.path.abspath(__file__)))
notes = json.load(open(os.path.join(ROOT, 'seeded', 'NOTES.json')))
rows = []
for d in sorted(glob.glob(os.path.join(ROOT, 'seeded', 'C??-?'))):
    name = os.path.basename(d)
    mp = os.path.join(d, 'meta.json')
    if not os.path.exists(mp):
        continue
    m = json.load(open(mp))
    ap = os.path.join(d, 'agent-meta.txt')
    if os.path.exists(ap):
        txt = open(ap).read().strip()
        m['what_it_is_and_what_it_needs_to_manifest'] = txt
    m['breaks_property'] = m.get('property', name[:3])
    files = []
    pp = os.path.join(d, 'patch.diff')
    if os.path.exists(pp):
        for l in open(pp):
            mm = re.match(r'^\+\+\+ b/(.*)$', l)
            if mm:
                files.append(mm.group(1).strip())
    m['files_touched'] = files
    # final verdict of the property's own check: the latest recheck if there is one
    pid = m.get('property', name[:3])
    chk = (m.get('checks') or {}).get(pid)
    if chk:
        rc, sigs = chk.get('quick_exit'), chk.get('new_signatures', [])
    else:
        rc, sigs = m.get('check_quick_exit'), m.get('check_new_signatures', [])
    m['final_check_exit'] = rc
    m['final_check_signatures'] = sigs
    json.dump(m, open(mp, 'w'), indent=1)
    first = m.get('check_quick_exit')
    note = notes.get(name, '')
    if rc == 1 and not note:
        status = 'caught'
    elif rc == 1 and 'missed' in note:
        status = 'caught after strengthening'
    elif rc == 1:
        status = 'caught'
    elif rc == 0:
        others = [k for k, v in (m.get('checks') or {}).items() if k != pid and v.get('quick_exit') == 1]
        if others:
            status = 'caught by ' + ', '.join(sorted(others)) + ' (not by ' + pid + ')'
            sigs = (m['checks'][sorted(others)[0]].get('new_signatures') or [])
        else:
            status = 'NOT caught'
    else:
        status = 'exit %s' % rc
    rows.append((name, files, status, sigs, note, m.get('confirmed'), first))

out = []
out.append('| change | file(s) | confirmed | result (quick tier, seed 1) | first signature(s) | note |')
out.append('|---|---|---|---|---|---|')
def esc(s):
    return s.replace('|', '\\|')
for name, files, status, sigs, note, conf, first in rows:
    fs = ', '.join('`%s`' % f.replace('src/', '') for f in files[:3])
    sg = '; '.join('`%s`' % esc(s) for s in sigs[:2])
    if len(sigs) > 2:
        sg += ' …(+%d)' % (len(sigs) - 2)
    out.append('| %s | %s | %s | %s | %s | %s |' % (name, fs, 'yes' if conf else 'NO', status, sg, esc(note)))
n = len(rows)
caught = sum(1 for r in rows if r[2].startswith('caught'))
by_other = sum(1 for r in rows if r[2].startswith('caught by'))
after = sum(1 for r in rows if r[2] == 'caught after strengthening')
summary = '%d changes kept; %d caught by the quick tier (%d of them only after a check was strengthened, see the note column; %d by the check of a neighbouring property only); %d not caught.' % (n, caught, after, by_other, n - caught)
table = summary + '\n\n' + '\n'.join(out) + '\n'

dp = os.path.join(ROOT, 'DESIGN.md')
s = open(dp).read()
B, E = '<!-- SEEDED-TABLE-BEGIN -->', '<!-- SEEDED-TABLE-END -->'
if B in s and E in s:
    s = s[:s.index(B) + len(B)] + '\n' + table + s[s.index(E):]
    open(dp, 'w').write(s)
    print('DESIGN.md 8.3 regenerated:', summary)
else:
    print('markers not found in DESIGN.md; table follows\n')
    print(table)
