#!/bin/bash
# tools/apply_fix.sh <diff-file> <commit message starting with "fix:">
# Applies the diff to /repo, runs the baseline suite (hooks off), commits as one unguarded fix commit.
set -u
D="$1"; MSG="$2"
cd /repo || exit 1
[ -z "$(git status --porcelain)" ] || { echo "repo not clean"; exit 1; }
patch -p1 --no-backup-if-mismatch < "$D" || { echo "PATCH FAILED"; git checkout -- .; exit 1; }
OUT=$(cargo test --workspace --no-fail-fast --offline 2>&1)
PASS=$(echo "$OUT" | grep "^test result" | sed -E 's/.* ([0-9]+) passed.*/\1/' | paste -sd+ | bc)
FAIL=$(echo "$OUT" | grep "^test result" | sed -E 's/.* ([0-9]+) failed.*/\1/' | paste -sd+ | bc)
echo "passed=$PASS failed=$FAIL"
if [ "${FAIL:-1}" != "0" ] || [ "${PASS:-0}" -lt 205 ]; then echo "TESTS NOT OK"; echo "$OUT" | grep -E "FAILED|panicked|error" | head; git checkout -- .; exit 1; fi
OUT2=$(cargo test --offline --features streaming,backward-chaining --lib 2>&1 | grep "^test result")
echo "features: $OUT2"
echo "$OUT2" | grep -q " 0 failed" || { echo "FEATURE TESTS NOT OK"; git checkout -- .; exit 1; }
git commit -qam "$MSG" && git log --oneline | head -1
