//! C17 — cached proofs are valid exactly while a justification survives.
//!
//! State monitor over `ProofGraph`: a history of `insert_proof` / `invalidate_handle` calls is run
//! against the real graph and against an independent reference support model with *sticky*
//! invalidation (the statement says "has been invalidated"); `get_node(h).valid` for every handle
//! and `is_proven(key)` / `lookup_by_key(key)` for every key are compared with the model after
//! every operation (or, in the exhaustive sweep, at the end of every enumerated prefix).
//!
//! Reference model (written from the statement, not from the code):
//!   * a justification dies when one of its premises is invalidated directly, or is a cached proof
//!     that loses its last live justification afterwards; dead justifications never revive;
//!   * a cached proof (node) is proven  <=>  it has not been invalidated directly since its last
//!     (re)proof  AND  it has at least one live justification;
//!   * a key is proven  <=>  some node stored under that key is proven.
//! Proviso of the statement, enforced on every generated / shrunk history: a handle that has been
//! invalidated (directly or by losing all its justifications) is never used as a premise of a
//! later insertion. Histories that break the proviso are ill-formed and never judged.

use rre_verif::*;
use rust_rule_engine::backward::proof_graph::{FactKey, ProofGraph};
use rust_rule_engine::rete::FactHandle;

// ------------------------------------------------------------------------------------------
// case
// ------------------------------------------------------------------------------------------

#[derive(Clone, Debug, PartialEq, Eq, Hash)]
enum Op {
    Insert { h: u8, premises: Vec<u8> },
    Invalidate { h: u8 },
}

#[derive(Clone, Debug, PartialEq, Eq, Hash)]
struct Case {
    /// key id of every handle (handles are 0..keys.len()); two handles may share a key
    keys: Vec<u8>,
    ops: Vec<Op>,
    /// true: compare with the model after every op; false: only after the last op
    observe_every_op: bool,
}

impl Case {
    fn to_json(&self) -> Json {
        json!({
            "keys_of_handles": self.keys,
            "observe": if self.observe_every_op { "every-op" } else { "end-only" },
            "ops": self.ops.iter().map(|o| match o {
                Op::Insert { h, premises } => json!({"op": "insert_proof", "handle": h, "premises": premises}),
                Op::Invalidate { h } => json!({"op": "invalidate_handle", "handle": h}),
            }).collect::<Vec<_>>(),
        })
    }
    fn from_json(j: &Json) -> Option<Case> {
        let keys: Vec<u8> = j["keys_of_handles"]
            .as_array()?
            .iter()
            .map(|v| v.as_u64().map(|x| x as u8))
            .collect::<Option<Vec<_>>>()?;
        let mut ops = Vec::new();
        for o in j["ops"].as_array()? {
            let h = o["handle"].as_u64()? as u8;
            match o["op"].as_str()? {
                "insert_proof" => {
                    let premises = o["premises"]
                        .as_array()?
                        .iter()
                        .map(|v| v.as_u64().map(|x| x as u8))
                        .collect::<Option<Vec<_>>>()?;
                    ops.push(Op::Insert { h, premises });
                }
                "invalidate_handle" => ops.push(Op::Invalidate { h }),
                _ => return None,
            }
        }
        if keys.is_empty() || keys.len() > 32 {
            return None;
        }
        let n = keys.len() as u8;
        for o in &ops {
            match o {
                Op::Insert { h, premises } => {
                    if *h >= n || premises.iter().any(|p| *p >= n) {
                        return None;
                    }
                }
                Op::Invalidate { h } => {
                    if *h >= n {
                        return None;
                    }
                }
            }
        }
        Some(Case {
            keys,
            ops,
            observe_every_op: j["observe"].as_str() != Some("end-only"),
        })
    }
}

fn op_text(o: &Op) -> String {
    match o {
        Op::Insert { h, premises } => format!("insert_proof(h{}, premises {:?})", h, premises),
        Op::Invalidate { h } => format!("invalidate_handle(h{})", h),
    }
}

// ------------------------------------------------------------------------------------------
// reference support model
// ------------------------------------------------------------------------------------------

#[derive(Clone, Debug)]
struct MJust {
    premises: Vec<u8>,
    alive: bool,
    /// for each premise: did a cached proof (node) of that handle exist when this justification
    /// was recorded?  (only used by the cause predicate)
    premise_had_node: Vec<bool>,
    /// (premise that killed it, was that premise invalidated directly?)
    killed_by: Option<(u8, bool)>,
}

#[derive(Clone, Debug, Default)]
struct MNode {
    exists: bool,
    direct_invalid: bool,
    justs: Vec<MJust>,
    /// some insert_proof found this node not proven (re-proof after invalidation)
    reproved: bool,
}

impl MNode {
    fn proven(&self) -> bool {
        self.exists && !self.direct_invalid && self.justs.iter().any(|j| j.alive)
    }
}

#[derive(Clone, Debug)]
struct Model {
    nodes: Vec<MNode>,
    /// handle has been invalidated, directly or by losing all its justifications (proviso)
    ever_invalidated: Vec<bool>,
    // observation counters
    justs_killed: u64,
    lost_all: u64,
    reproofs: u64,
    edges_before_premise: u64,
}

impl Model {
    fn new(n: usize) -> Self {
        Model {
            nodes: vec![MNode::default(); n],
            ever_invalidated: vec![false; n],
            justs_killed: 0,
            lost_all: 0,
            reproofs: 0,
            edges_before_premise: 0,
        }
    }
    /// Err = the op breaks the statement's proviso (ill-formed history)
    fn apply(&mut self, op: &Op) -> Result<(), String> {
        match op {
            Op::Insert { h, premises } => {
                for p in premises {
                    if self.ever_invalidated[*p as usize] {
                        return Err(format!(
                            "premise h{} of insert_proof(h{}) has been invalidated before",
                            p, h
                        ));
                    }
                }
                let had: Vec<bool> = premises.iter().map(|p| self.nodes[*p as usize].exists).collect();
                self.edges_before_premise += had.iter().filter(|x| !**x).count() as u64;
                let n = &mut self.nodes[*h as usize];
                if n.exists && !n.proven() {
                    n.reproved = true;
                    self.reproofs += 1;
                }
                n.exists = true;
                n.direct_invalid = false;
                n.justs.push(MJust {
                    premises: premises.clone(),
                    alive: true,
                    premise_had_node: had,
                    killed_by: None,
                });
                Ok(())
            }
            Op::Invalidate { h } => {
                self.ever_invalidated[*h as usize] = true;
                if self.nodes[*h as usize].exists {
                    self.nodes[*h as usize].direct_invalid = true;
                }
                let mut work: Vec<(u8, bool)> = vec![(*h, true)];
                while let Some((p, direct)) = work.pop() {
                    for i in 0..self.nodes.len() {
                        let n = &mut self.nodes[i];
                        let had_alive = n.justs.iter().any(|j| j.alive);
                        let mut killed = 0;
                        for j in n.justs.iter_mut() {
                            if j.alive && j.premises.contains(&p) {
                                j.alive = false;
                                j.killed_by = Some((p, direct));
                                killed += 1;
                            }
                        }
                        self.justs_killed += killed;
                        if had_alive && !n.justs.iter().any(|j| j.alive) {
                            // this cached proof lost all its justifications
                            self.lost_all += 1;
                            self.ever_invalidated[i] = true;
                            work.push((i as u8, false));
                        }
                    }
                }
                Ok(())
            }
        }
    }
}

// ------------------------------------------------------------------------------------------
// running one case against the real ProofGraph
// ------------------------------------------------------------------------------------------

fn fh(h: u8) -> FactHandle {
    FactHandle::new(h as u64 + 1)
}
fn key_of(k: u8) -> FactKey {
    FactKey::from_pattern(&format!("K{}.ok == true", k))
}

const MAX_HANDLES: usize = 8;

thread_local! {
    /// per-thread constants (keys, premise-key strings) so that the hot loop does not format them
    static FKEYS: Vec<FactKey> = (0..MAX_HANDLES as u8).map(key_of).collect();
    static PKEYS: Vec<String> = (0..MAX_HANDLES).map(|h| format!("h{}", h)).collect();
    /// per-shard observation tally, flushed into Stats by `flush_tally`
    static TALLY: std::cell::RefCell<Tally> = std::cell::RefCell::new(Tally::default());
}

#[derive(Default, Clone)]
struct Tally {
    obs: Obs,
    illformed: u64,
    nontrivial: u64,
    violating: u64,
}

fn flush_tally(st: &mut Stats) {
    let t = TALLY.with(|t| std::mem::take(&mut *t.borrow_mut()));
    st.add("insert_proof_calls", t.obs.insertions);
    st.add("invalidate_handle_calls", t.obs.invalidations);
    st.add("state_comparisons", t.obs.comparisons);
    st.add("justifications_killed_by_invalidation", t.obs.justs_killed);
    st.add("proofs_that_lost_all_justifications", t.obs.lost_all);
    st.add("reproofs_after_invalidation", t.obs.reproofs);
    st.add("premise_edges_recorded_before_premise_node_existed", t.obs.edges_before_premise);
    st.add("illformed_cases_not_judged", t.illformed);
    st.add("nontrivial_cases", t.nontrivial);
    st.add("cases_with_a_violation", t.violating);
}

#[derive(Default, Clone)]
struct Obs {
    justs_killed: u64,
    lost_all: u64,
    reproofs: u64,
    edges_before_premise: u64,
    invalidations: u64,
    insertions: u64,
    comparisons: u64,
}

#[derive(Debug, Clone)]
struct Fail {
    step: usize,
    clause: String,
    cause: String,
    detail: String,
}

enum Outcome {
    Held,
    IllFormed(String),
    Violated(Fail),
}

/// Cause predicate for "reported proven although no justification survives".
/// True iff every stale handle is explained by: (root) one of its dead justifications was killed
/// by a premise that lost all its justifications *indirectly* and that premise had no cached proof
/// yet when the justification was recorded (dependent inserted before its premise); or
/// (downstream) it was killed through a premise that is itself stale and explained.
fn stale_explained_by_insertion_order(m: &Model, stale: u32) -> bool {
    let mut explained: u32 = 0;
    loop {
        let mut grew = false;
        for d in 0..m.nodes.len() {
            if stale & (1 << d) == 0 || explained & (1 << d) != 0 {
                continue;
            }
            let n = &m.nodes[d];
            if n.direct_invalid {
                return false;
            }
            let ok = n.justs.iter().any(|j| {
                !j.alive
                    && match j.killed_by {
                        Some((p, false)) => {
                            let idx = j.premises.iter().position(|x| *x == p);
                            let before = idx.map(|i| !j.premise_had_node[i]).unwrap_or(false);
                            before || explained & (1 << p) != 0
                        }
                        _ => false,
                    }
            });
            if ok {
                explained |= 1 << d;
                grew = true;
            }
        }
        if !grew {
            break;
        }
    }
    explained == stale
}

fn mask_text(mask: u32) -> String {
    format!("{:?}", (0..32).filter(|i| mask & (1 << i) != 0).collect::<Vec<_>>())
}

fn compare(g: &mut ProofGraph, m: &Model, keys: &[u8], fkeys: &[FactKey]) -> Option<(String, String, String)> {
    let n = keys.len();
    let mut stale: u32 = 0;
    let mut lost: u32 = 0;
    let mut model_proven: u32 = 0;
    for h in 0..n {
        let node = g.get_node(&fh(h as u8));
        let mn = &m.nodes[h];
        let mp = mn.proven();
        if mp {
            model_proven |= 1 << h;
        }
        match node {
            None => {
                if mn.exists {
                    return Some((
                        "node-recorded".into(),
                        "inserted-proof-has-no-node".into(),
                        format!("get_node(h{}) is None although a proof was inserted for it", h),
                    ));
                }
            }
            Some(nd) => {
                if !mn.exists {
                    return Some((
                        "node-recorded".into(),
                        "node-without-insertion".into(),
                        format!("get_node(h{}) exists although no proof was ever inserted for it", h),
                    ));
                }
                if nd.valid && !mp {
                    stale |= 1 << h;
                }
                if !nd.valid && mp {
                    lost |= 1 << h;
                }
            }
        }
    }
    if stale != 0 {
        let cause = if stale_explained_by_insertion_order(m, stale) {
            "dependent-inserted-before-premise"
        } else if (0..n).filter(|d| stale & (1 << d) != 0).all(|d| m.nodes[d].direct_invalid) {
            "directly-invalidated-handle"
        } else {
            "unexplained"
        };
        let d = stale.trailing_zeros() as usize;
        let mn = &m.nodes[d];
        return Some((
            "stale-proven".into(),
            cause.into(),
            format!(
                "get_node(h{}).valid is true, but the handle {} and its justifications are {:?} (all stale handles: {})",
                d,
                if mn.direct_invalid { "was invalidated directly since its last proof" } else { "was not invalidated directly" },
                mn.justs.iter().map(|j| format!("premises {:?} {}", j.premises, match (j.alive, j.killed_by) {
                    (true, _) => "live".to_string(),
                    (false, Some((p, true))) => format!("dead: h{} was invalidated", p),
                    (false, Some((p, false))) => format!("dead: h{} lost all its justifications", p),
                    (false, None) => "dead".to_string(),
                })).collect::<Vec<_>>(),
                mask_text(stale)
            ),
        ));
    }
    if lost != 0 {
        let d = lost.trailing_zeros() as usize;
        let mn = &m.nodes[d];
        let cause = if mn.reproved {
            "reproved-after-invalidation"
        } else if mn.justs.iter().any(|j| !j.alive) {
            "another-justification-survives"
        } else {
            "never-touched-by-an-invalidation"
        };
        return Some((
            "lost-proof".into(),
            cause.into(),
            format!(
                "get_node(h{}).valid is false, but the handle was not invalidated since its last proof and has a live justification: {:?}",
                d,
                mn.justs.iter().map(|j| (j.premises.clone(), j.alive)).collect::<Vec<_>>()
            ),
        ));
    }
    // key level: is_proven / lookup_by_key against the (agreeing) node flags and the model
    for (k, fk) in fkeys.iter().enumerate() {
        let mut want: u32 = 0;
        for h in 0..n {
            if keys[h] as usize == k && model_proven & (1 << h) != 0 {
                want |= 1 << h;
            }
        }
        let proven = g.is_proven(fk);
        if proven != (want != 0) {
            return Some((
                "key-report".into(),
                if proven { "is_proven-true-without-valid-node" } else { "is_proven-false-with-valid-node" }.into(),
                format!(
                    "is_proven(key K{}) = {} but the proven handles stored under that key are {}",
                    k, proven, mask_text(want)
                ),
            ));
        }
        let got = g.lookup_by_key(fk);
        let mut got_mask: u32 = 0;
        let mut bad_member = false;
        if let Some(v) = &got {
            for nd in v {
                if !nd.valid || nd.key != *fk {
                    bad_member = true;
                }
                match nd.handle {
                    Some(h) if h.id() >= 1 && h.id() <= 32 => got_mask |= 1 << (h.id() - 1),
                    _ => bad_member = true,
                }
            }
        }
        if got.is_some() != (want != 0) || got_mask != want || bad_member {
            return Some((
                "key-report".into(),
                "lookup_by_key-set-differs".into(),
                format!(
                    "lookup_by_key(K{}) returned {} handles {} (invalid or foreign member: {}), expected {}",
                    k,
                    if got.is_some() { "Some with" } else { "None;" },
                    mask_text(got_mask),
                    bad_member,
                    mask_text(want)
                ),
            ));
        }
    }
    None
}

fn run_case(c: &Case, mut trace: Option<&mut Vec<String>>) -> (Outcome, Obs) {
    let n = c.keys.len();
    let nkeys = c.keys.iter().map(|k| *k as usize + 1).max().unwrap_or(0);
    let fkeys: Vec<FactKey> = if nkeys <= MAX_HANDLES {
        FKEYS.with(|f| f[..nkeys].to_vec())
    } else {
        (0..nkeys).map(|k| key_of(k as u8)).collect()
    };
    let mut g = ProofGraph::new();
    let mut m = Model::new(n);
    let mut obs = Obs::default();
    let last = c.ops.len().saturating_sub(1);
    for (i, op) in c.ops.iter().enumerate() {
        if let Err(e) = m.apply(op) {
            return (Outcome::IllFormed(format!("op #{}: {}", i, e)), obs);
        }
        match op {
            Op::Insert { h, premises } => {
                obs.insertions += 1;
                g.insert_proof(
                    fh(*h),
                    fkeys[c.keys[*h as usize] as usize].clone(),
                    String::from("rule"),
                    premises.iter().map(|p| fh(*p)).collect(),
                    PKEYS.with(|k| premises.iter().map(|p| k.get(*p as usize).cloned().unwrap_or_default()).collect()),
                );
            }
            Op::Invalidate { h } => {
                obs.invalidations += 1;
                g.invalidate_handle(&fh(*h));
            }
        }
        if c.observe_every_op || i == last {
            obs.comparisons += 1;
            let r = compare(&mut g, &m, &c.keys, &fkeys);
            if let Some(t) = trace.as_deref_mut() {
                t.push(format!(
                    "  #{} {:<40} model proven {:?} | code valid {:?}",
                    i,
                    op_text(op),
                    (0..n).filter(|h| m.nodes[*h].proven()).collect::<Vec<_>>(),
                    (0..n)
                        .filter(|h| g.get_node(&fh(*h as u8)).map(|x| x.valid).unwrap_or(false))
                        .collect::<Vec<_>>()
                ));
            }
            if let Some((clause, cause, detail)) = r {
                obs.justs_killed = m.justs_killed;
                obs.lost_all = m.lost_all;
                obs.reproofs = m.reproofs;
                obs.edges_before_premise = m.edges_before_premise;
                return (
                    Outcome::Violated(Fail {
                        step: i,
                        clause,
                        cause,
                        detail: format!("after op #{} {}: {}", i, op_text(op), detail),
                    }),
                    obs,
                );
            }
        }
    }
    obs.justs_killed = m.justs_killed;
    obs.lost_all = m.lost_all;
    obs.reproofs = m.reproofs;
    obs.edges_before_premise = m.edges_before_premise;
    (Outcome::Held, obs)
}

fn to_violation(c: &Case, clause: &str, cause: &str, detail: &str) -> Violation {
    Violation {
        clause: clause.to_string(),
        sig: format!("C17|{}|{}", clause, cause),
        detail: detail.to_string(),
        case: c.to_json(),
    }
}

fn fails_clause(c: &Case, clause: &str) -> bool {
    match pan::catch(|| run_case(c, None)) {
        Ok((Outcome::Violated(f), _)) => f.clause == clause,
        Ok(_) => false,
        Err(_) => clause == "no-panic",
    }
}

/// Delta-debug the history: drop ops, then drop single premises, then drop unused handles' keys
/// down to distinct keys where possible — always keeping the SAME clause failing and the history
/// well-formed (run_case rejects ill-formed candidates).
fn shrink(c: &Case, clause: &str) -> Case {
    let mut cur = c.clone();
    cur.observe_every_op = true;
    if !fails_clause(&cur, clause) {
        cur.observe_every_op = c.observe_every_op;
    }
    loop {
        let before = cur.clone();
        let ops = {
            let base = cur.clone();
            let mut f = |ops: &[Op]| {
                let cc = Case { ops: ops.to_vec(), ..base.clone() };
                fails_clause(&cc, clause)
            };
            shrink_list(&cur.ops, &mut f)
        };
        cur.ops = ops;
        // drop single premises
        let mut i = 0;
        while i < cur.ops.len() {
            if let Op::Insert { h, premises } = cur.ops[i].clone() {
                let mut k = 0;
                let mut prem = premises.clone();
                while k < prem.len() {
                    let mut cand = prem.clone();
                    cand.remove(k);
                    let mut cc = cur.clone();
                    cc.ops[i] = Op::Insert { h, premises: cand.clone() };
                    if fails_clause(&cc, clause) {
                        prem = cand;
                        cur = cc;
                    } else {
                        k += 1;
                    }
                }
            }
            i += 1;
        }
        // give every handle its own key if the failure does not need shared keys
        let distinct: Vec<u8> = (0..cur.keys.len() as u8).collect();
        if cur.keys != distinct {
            let cc = Case { keys: distinct, ..cur.clone() };
            if fails_clause(&cc, clause) {
                cur = cc;
            }
        }
        if cur == before {
            break;
        }
    }
    cur
}

fn nontrivial(obs: &Obs) -> bool {
    // at least one invalidation reached a dependent (killed a justification of a cached proof)
    obs.justs_killed > 0
}

const SHARD_DISTINCT_CAP: usize = 250_000;

/// Runs one case; returns true when it violated (after shrinking and recording the violation).
fn check_case(c: &Case, st: &mut Stats) -> bool {
    st.eval();
    let (out, obs) = match pan::catch_frames(|| run_case(c, None)) {
        Ok(r) => r,
        Err(p) => {
            let cc = shrink(c, "no-panic");
            st.violation(to_violation(
                &cc,
                "no-panic",
                &format!("{}|{}", p.class(), p.frame),
                &format!("panic: {} at {}:{}", p.msg, p.file, p.line),
            ));
            return true;
        }
    };
    let mut violated = None;
    TALLY.with(|t| {
        let mut t = t.borrow_mut();
        t.obs.insertions += obs.insertions;
        t.obs.invalidations += obs.invalidations;
        t.obs.comparisons += obs.comparisons;
        t.obs.justs_killed += obs.justs_killed;
        t.obs.lost_all += obs.lost_all;
        t.obs.reproofs += obs.reproofs;
        t.obs.edges_before_premise += obs.edges_before_premise;
        match &out {
            Outcome::IllFormed(_) => t.illformed += 1,
            Outcome::Held => {
                if nontrivial(&obs) {
                    t.nontrivial += 1;
                }
            }
            Outcome::Violated(_) => t.violating += 1,
        }
    });
    match out {
        Outcome::IllFormed(_) => {}
        Outcome::Held => {
            if nontrivial(&obs) {
                if st.distinct.len() < SHARD_DISTINCT_CAP {
                    st.nontrivial(hash_of(c));
                    st.sample(|| c.to_json());
                } else {
                    st.distinct_saturated = true;
                }
            }
        }
        Outcome::Violated(f) => violated = Some(f),
    }
    if let Some(f) = violated {
        let cc = shrink(c, &f.clause);
        match pan::catch(|| run_case(&cc, None)) {
            Ok((Outcome::Violated(f2), _)) => st.violation(to_violation(&cc, &f2.clause, &f2.cause, &f2.detail)),
            _ => st.violation(to_violation(c, &f.clause, &f.cause, &f.detail)),
        }
        return true;
    }
    false
}

// ------------------------------------------------------------------------------------------
// generators
// ------------------------------------------------------------------------------------------

/// The exhaustive alphabet over `n` handles: insert_proof(h, P) for every h and every premise set
/// P of size <= 2 drawn from the other handles, and invalidate_handle(h) for every h.
fn alphabet(n: u8) -> Vec<Op> {
    let mut v = Vec::new();
    for h in 0..n {
        v.push(Op::Insert { h, premises: vec![] });
        let others: Vec<u8> = (0..n).filter(|x| *x != h).collect();
        for a in 0..others.len() {
            v.push(Op::Insert { h, premises: vec![others[a]] });
        }
        for a in 0..others.len() {
            for b in a + 1..others.len() {
                v.push(Op::Insert { h, premises: vec![others[a], others[b]] });
            }
        }
    }
    for h in 0..n {
        v.push(Op::Invalidate { h });
    }
    v
}

fn dfs(
    alpha: &[Op],
    keys: &[u8],
    prefix: &mut Vec<Op>,
    model: &Model,
    depth_left: usize,
    cli: &Cli,
    st: &mut Stats,
) {
    for op in alpha {
        let mut m = model.clone();
        if m.apply(op).is_err() {
            st.count("exhaustive_prefixes_pruned_by_proviso");
            continue;
        }
        prefix.push(op.clone());
        // every prefix is a case of its own, observed at its end only (no is_proven calls in
        // between); prefixes one shorter than the bound are also run with observation after
        // every op, so both observation regimes are enumerated
        let mut bad = check_case(&Case { keys: keys.to_vec(), ops: prefix.clone(), observe_every_op: false }, st);
        if depth_left == 2 {
            bad |= check_case(&Case { keys: keys.to_vec(), ops: prefix.clone(), observe_every_op: true }, st);
        }
        // a prefix that already violates is not extended: everything after the first violation
        // of a history is unjudged anyway
        if bad {
            st.count("exhaustive_prefixes_not_extended_after_violation");
        } else if depth_left > 1 {
            dfs(alpha, keys, prefix, &m, depth_left - 1, cli, st);
        }
        prefix.pop();
    }
}

fn gen_random(rng: &mut Rng, max_ops: usize, max_handles: usize) -> Case {
    let n = if rng.chance(2, 3) { max_handles.min(5) } else { 2 + rng.below(max_handles - 1) };
    let nkeys = 1 + rng.below(n);
    let mut keys: Vec<u8> = (0..n).map(|h| if h < nkeys { h as u8 } else { rng.below(nkeys) as u8 }).collect();
    if rng.chance(1, 3) {
        rng.shuffle(&mut keys);
    }
    let len = 1 + rng.below(max_ops);
    // "clean" histories never record an edge to a premise before that premise's own proof exists,
    // unless the premise is a base handle that never gets a proof at all
    let clean = rng.chance(1, 2);
    let n_base = if clean { rng.below(3).min(n - 1) } else { 0 };
    let mut m = Model::new(n);
    let mut ops: Vec<Op> = Vec::new();
    let mut tries = 0;
    while ops.len() < len && tries < 200 {
        tries += 1;
        let op = if rng.chance(3, 5) || ops.is_empty() {
            // insertion; bias towards re-proving something that is not proven
            let unproven: Vec<u8> = (n_base..n).filter(|h| m.nodes[*h].exists && !m.nodes[*h].proven()).map(|h| h as u8).collect();
            let h = if !unproven.is_empty() && rng.chance(1, 3) {
                *rng.pick(&unproven)
            } else {
                (n_base + rng.below(n - n_base)) as u8
            };
            let cand: Vec<u8> = (0..n)
                .filter(|p| !m.ever_invalidated[*p])
                .filter(|p| *p != h as usize || rng.chance(1, 20))
                .filter(|p| !clean || *p < n_base || m.nodes[*p].exists)
                .map(|p| p as u8)
                .collect();
            let want = match rng.below(10) {
                0..=2 => 0,
                3..=6 => 1,
                7..=8 => 2,
                _ => 3,
            };
            let mut premises: Vec<u8> = Vec::new();
            let mut pool = cand.clone();
            rng.shuffle(&mut pool);
            for p in pool.into_iter().take(want) {
                premises.push(p);
            }
            if !premises.is_empty() && rng.chance(1, 25) {
                // duplicate premise inside one justification
                premises.push(premises[0]);
            }
            Op::Insert { h, premises }
        } else {
            // invalidation; bias towards handles something depends on
            let used: Vec<u8> = (0..n)
                .filter(|p| m.nodes.iter().any(|nd| nd.justs.iter().any(|j| j.alive && j.premises.contains(&(*p as u8)))))
                .map(|p| p as u8)
                .collect();
            let h = if !used.is_empty() && rng.chance(2, 3) { *rng.pick(&used) } else { rng.below(n) as u8 };
            Op::Invalidate { h }
        };
        let mut m2 = m.clone();
        if m2.apply(&op).is_ok() {
            m = m2;
            ops.push(op);
        }
    }
    Case { keys, ops, observe_every_op: !rng.chance(1, 8) }
}

// ------------------------------------------------------------------------------------------
// long dependency paths (beyond the model's handful of handles)
// ------------------------------------------------------------------------------------------

/// A chain p(i+1) <- {p(i)} of `n` cached proofs, inserted premise-first or dependents-first; then
/// p(cut) is invalidated: exactly the proofs below index `cut` stay proven.
fn run_long_chain(n: usize, cut: usize, dependents_first: bool) -> Option<(String, String)> {
    let mut g = ProofGraph::new();
    let h = |i: usize| FactHandle::new(i as u64 + 1);
    let key = |i: usize| FactKey::from_pattern(&format!("L{}.ok == true", i));
    let order: Vec<usize> = if dependents_first { (0..n).rev().collect() } else { (0..n).collect() };
    for i in order {
        let (prem, pk) = if i == 0 { (vec![], vec![]) } else { (vec![h(i - 1)], vec![format!("L{}.ok == true", i - 1)]) };
        g.insert_proof(h(i), key(i), "rule".to_string(), prem, pk);
    }
    let unproven_before: Vec<usize> = (0..n).filter(|i| !g.is_proven(&key(*i))).collect();
    if !unproven_before.is_empty() {
        return Some(("is-proven".into(), format!("chain of {} proofs ({}): {} proofs are not reported proven although nothing was invalidated (first L{})", n, if dependents_first { "dependents inserted first" } else { "premises inserted first" }, unproven_before.len(), unproven_before[0])));
    }
    g.invalidate_handle(&h(cut));
    let still: Vec<usize> = (cut..n).filter(|i| g.is_proven(&key(*i))).collect();
    let lost: Vec<usize> = (0..cut).filter(|i| !g.is_proven(&key(*i))).collect();
    if !still.is_empty() {
        return Some((
            "proven-without-surviving-justification".into(),
            format!("chain of {} proofs ({}), L{} invalidated: {} proofs resting on it are still reported proven (first L{}, last L{}): the invalidation stopped short", n, if dependents_first { "dependents inserted first" } else { "premises inserted first" }, cut, still.len(), still[0], still[still.len() - 1]),
        ));
    }
    if !lost.is_empty() {
        return Some(("unproven-with-surviving-justification".into(), format!("chain of {} proofs, L{} invalidated: {} proofs ABOVE it are reported unproven (first L{})", n, cut, lost.len(), lost[0])));
    }
    None
}

fn long_json(n: usize, cut: usize, df: bool) -> Json {
    json!({"kind": "long-chain", "proofs": n, "invalidate": cut, "dependents_inserted_first": df})
}

fn run_long_guarded(n: usize, cut: usize, df: bool) -> Vec<Violation> {
    let r = std::thread::Builder::new().stack_size(256 << 20).spawn(move || pan::catch(|| run_long_chain(n, cut, df))).ok().and_then(|h| h.join().ok());
    match r {
        Some(Ok(Some((clause, detail)))) => vec![Violation { clause: clause.clone(), sig: format!("C17|{}|long-chain", clause), detail, case: long_json(n, cut, df) }],
        Some(Err(p)) => vec![Violation { clause: "no-panic".into(), sig: format!("C17|no-panic|{}|{}", p.class(), p.frame), detail: format!("panic: {} at {}:{}", p.msg, p.file, p.line), case: long_json(n, cut, df) }],
        _ => vec![],
    }
}

fn explore_long(cli: &Cli, st: &mut Stats) {
    let sizes: &[usize] = match cli.tier {
        Tier::Quick => &[5, 70, 300, 1100, 2500],
        Tier::Thorough => &[5, 70, 300, 1100, 2500, 10_000],
    };
    for &n in sizes {
        for df in [false, true] {
            for cut in [0, 1, n / 3, n - 2, n - 1] {
                if cut >= n {
                    continue;
                }
                st.eval();
                st.count("long_chains_of_cached_proofs");
                st.max("max::proofs_in_one_long_chain", n as u64);
                let vs = run_long_guarded(n, cut, df);
                if vs.is_empty() {
                    st.nontrivial(hash_of(&(n, cut, df)));
                }
                for v in vs {
                    st.violation(v);
                }
            }
        }
    }
}

struct C17;

impl Check for C17 {
    fn id(&self) -> &'static str {
        "C17"
    }
    fn rule(&self) -> String {
        "LONG chains (beyond the statement's 5 handles): chains p(i+1)<-{p(i)} of 5..2500 (thorough 10000) cached proofs, inserted premise-first and dependents-first, one proof invalidated at the root, near it, a third of the way, near the end; exactly the proofs above it stay proven. exhaustive families (handles / keys of the handles / depth L): quick 5 / K0,K1,K2,K0,K1 / 4 and 3 / K0,K1,K0 / 6; thorough additionally 4 / K0,K1,K2,K0 / 5 and 5 / K0,K1,K2,K0,K1 / 5. A family enumerates every sequence of length 1..=L over its alphabet {insert_proof(h, P): h any handle, P any set of <= 2 other handles} + {invalidate_handle(h)} (60 ops for 5 handles, 32 for 4, 15 for 3) that respects the statement's proviso (no handle that has been invalidated, directly or by losing all justifications, is used as a premise later); shared keys put re-proof under a fresh handle into the families. Each sequence is compared with the reference support model at its end (so every prefix is judged, without observer calls in between; a prefix that already violates is not extended), and every sequence of length L-1 is also run with comparison after every op. random: histories of 1..=9 ops over 2..=5 handles (thorough: every fourth one 1..=14 ops over up to 7 handles), 0-3 premises, random key sharing, occasional self-premise and duplicate premise, half of them 'clean' (premises inserted before dependents or never inserted), 7/8 compared after every op. A case is non-trivial when at least one invalidation killed a justification of a cached proof; distinct by (key assignment, op sequence, observation mode).".into()
    }
    fn assumptions(&self) -> Vec<String> {
        vec![
            "'has been invalidated' is sticky: a justification whose premise was invalidated stays dead even if that premise is re-proved later (the proviso keeps such a premise from being used again, so the only reading needed is for justifications recorded before)".into(),
            "a premise handle that has no cached proof and was never invalidated counts as not invalidated (base fact)".into(),
            "a direct invalidation of a handle does not kill that handle's own justifications; re-proof makes it valid again and earlier still-live justifications count".into(),
            "every handle is always inserted under the same key (handles are never reused for another fact)".into(),
            "get_node(h).valid is the per-proof report; is_proven/lookup_by_key are the per-key reports".into(),
        ]
    }
    fn explore(&self, cli: &Cli, st: &mut Stats) {
        let nthreads = cli.threads;
        explore_long(cli, st);
        // one exhaustive family = (key of every handle, depth)
        let sweep = |keys: Vec<u8>, depth: usize, st: &mut Stats| {
            let n = keys.len();
            let alpha = alphabet(n as u8);
            // jobs = first two ops
            let mut jobs: Vec<(usize, usize)> = Vec::new();
            for a in 0..alpha.len() {
                for b in 0..alpha.len() {
                    jobs.push((a, b));
                }
            }
            let alpha_ref = &alpha;
            let keys_ref = &keys;
            let jobs_ref = &jobs;
            let stopped = std::sync::atomic::AtomicBool::new(false);
            let stopped_ref = &stopped;
            shards(cli, nthreads, st, |shard, _rng, st| {
                // length-1 prefixes once
                if shard == 0 {
                    for op in alpha_ref.iter() {
                        let mut m = Model::new(n);
                        if m.apply(op).is_ok() {
                            check_case(&Case { keys: keys_ref.clone(), ops: vec![op.clone()], observe_every_op: false }, st);
                        }
                    }
                }
                for (ji, (a, b)) in jobs_ref.iter().enumerate() {
                    if ji % nthreads != shard {
                        continue;
                    }
                    if cli.expired() {
                        stopped_ref.store(true, std::sync::atomic::Ordering::SeqCst);
                        st.count("stopped_by_time_budget");
                        break;
                    }
                    let mut m = Model::new(n);
                    if m.apply(&alpha_ref[*a]).is_err() {
                        continue;
                    }
                    if m.apply(&alpha_ref[*b]).is_err() {
                        st.count("exhaustive_prefixes_pruned_by_proviso");
                        continue;
                    }
                    let mut prefix = vec![alpha_ref[*a].clone(), alpha_ref[*b].clone()];
                    let mut bad = check_case(&Case { keys: keys_ref.clone(), ops: prefix.clone(), observe_every_op: false }, st);
                    if depth == 3 {
                        bad |= check_case(&Case { keys: keys_ref.clone(), ops: prefix.clone(), observe_every_op: true }, st);
                    }
                    if depth > 2 && !bad {
                        dfs(alpha_ref, keys_ref, &mut prefix, &m, depth - 2, cli, st);
                    }
                }
                flush_tally(st);
            });
            if !stopped.load(std::sync::atomic::Ordering::SeqCst) {
                st.exhaustive.push(format!(
                    "all proviso-respecting sequences of length 1..={} over the {}-op alphabet of {} handles (insert_proof with <=2 premises / invalidate_handle; keys of the handles {:?}), judged at the end of every prefix (a prefix that already violates is not extended); all of length {} also judged after every op",
                    depth,
                    alpha.len(),
                    n,
                    keys,
                    depth - 1
                ));
            }
        };
        // 1. exhaustive sweeps of the quick tier (also run by thorough)
        sweep(vec![0, 1, 2, 0, 1], 4, st);
        sweep(vec![0, 1, 0], 6, st);
        // 2. random part
        let per = cli.n(60_000, 3_000_000);
        shards(cli, nthreads, st, |_shard, rng, st| {
            for i in 0..per {
                if cli.expired() {
                    st.count("stopped_by_time_budget");
                    break;
                }
                let beyond = cli.tier == Tier::Thorough && i % 4 == 3;
                let c = if beyond { gen_random(rng, 14, 7) } else { gen_random(rng, 9, 5) };
                if beyond {
                    st.add("random_cases_beyond_stated_bound", 1);
                } else {
                    st.add("random_cases_within_stated_bound", 1);
                }
                check_case(&c, st);
            }
            flush_tally(st);
        });
        // 3. thorough: deeper sweeps last (they re-run the shorter prefixes, a small part of their
        //    work), so that a time-budget stop only costs the deepest one
        if cli.tier == Tier::Thorough {
            sweep(vec![0, 1, 2, 0], 5, st);
            sweep(vec![0, 1, 2, 0, 1], 5, st);
        }
    }
    fn replay(&self, cli: &Cli, case: &Json) -> Vec<Violation> {
        if case["kind"].as_str() == Some("long-chain") {
            return run_long_guarded(case["proofs"].as_u64().unwrap_or(5) as usize, case["invalidate"].as_u64().unwrap_or(0) as usize, case["dependents_inserted_first"].as_bool().unwrap_or(false));
        }
        let Some(c) = Case::from_json(case) else {
            return vec![Violation {
                clause: "harness".into(),
                sig: "C17|harness|bad-case".into(),
                detail: "cannot decode case".into(),
                case: case.clone(),
            }];
        };
        let mut trace: Vec<String> = Vec::new();
        let r = pan::catch_frames(|| run_case(&c, Some(&mut trace)));
        if cli.verbose || cli.replay.is_some() {
            for l in &trace {
                out!("{}", l);
            }
        }
        match r {
            Ok((Outcome::Violated(f), _)) => {
                let _ = f.step;
                vec![to_violation(&c, &f.clause, &f.cause, &f.detail)]
            }
            Ok((Outcome::Held, _)) => vec![],
            Ok((Outcome::IllFormed(why), _)) => {
                out!("NOTE property=C17 the history breaks the statement's proviso and is not judged: {}", why);
                vec![]
            }
            Err(p) => vec![to_violation(
                &c,
                "no-panic",
                &format!("{}|{}", p.class(), p.frame),
                &format!("panic: {} at {}:{}", p.msg, p.file, p.line),
            )],
        }
    }
}

fn main() {
    run_main(C17)
}
