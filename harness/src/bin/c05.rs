//! C05 — no text makes a parser or the expression evaluator panic, overflow the stack or hang.
//!
//! Every generated input is handed to each of the 13 public text entry points (the arithmetic
//! evaluator against two fact stores, so 14 calls) inside `--worker` child processes of this
//! binary (main thread, 8 MiB stack), once in the release build and once in the `devopt` build
//! (opt-level 1 + debug assertions + overflow checks). The oracle is the statement itself: the
//! call returns (a value or an error) — no panic, no abnormal child death, at most 120 CPU-seconds
//! (kernel RLIMIT_CPU / rusage of the child; never wall clock).

use rre_verif::child::{self, ChildOutcome, Limits};
use rre_verif::*;
use rust_rule_engine::backward::nested::NestedQueryParser;
use rust_rule_engine::backward::query::QueryParser;
use rust_rule_engine::backward::{
    parse_aggregate_query, DisjunctionParser, ExpressionParser, GRLQueryParser,
};
use rust_rule_engine::expression::evaluate_expression;
use rust_rule_engine::parser::grl::stream_syntax::{
    parse_stream_join_pattern, parse_stream_pattern,
};
use rust_rule_engine::{Facts, GRLParser, Value};
use std::collections::{BTreeMap, BTreeSet, HashMap};
use std::path::PathBuf;
use std::process::Command;
use std::sync::atomic::{AtomicUsize, Ordering};
use std::sync::{Arc, Condvar, Mutex, OnceLock};

// ------------------------------------------------------------------------------------------
// entry points
// ------------------------------------------------------------------------------------------

const NE: usize = 14;
/// Names used in case files and evidence.
const ENTRIES: [&str; NE] = [
    "GRLParser::parse_rules",
    "GRLParser::parse_rule",
    "GRLParser::parse_with_modules",
    "QueryParser::parse",
    "ExpressionParser::parse",
    "GRLQueryParser::parse",
    "GRLQueryParser::parse_queries",
    "parse_aggregate_query",
    "DisjunctionParser::parse",
    "NestedQueryParser::parse",
    "parse_stream_pattern",
    "parse_stream_join_pattern",
    "evaluate_expression[empty-facts]",
    "evaluate_expression[small-facts]",
];
const ALL_MASK: u16 = (1 << NE) - 1;
/// The property's own watchdog, CPU seconds per (input, entry point).
const WATCHDOG_S: u64 = 120;
/// Quick tier only: the pinned witnesses of OPEN cpu findings are re-confirmed with this reduced
/// budget (still hanging at the same call site after 20 CPU-seconds counts as "the finding is
/// still there"); the thorough tier and every judgement of a NEW hang use the full 120 s.
const QUICK_CONFIRM_S: u64 = 20;
static QUICK_CONFIRM_INPUTS: std::sync::Mutex<Vec<u64>> = std::sync::Mutex::new(Vec::new());

fn budget_for(input: &str) -> u64 {
    let h = hash_of(input);
    let quick = QUICK_CONFIRM_INPUTS.lock().map(|v| v.contains(&h)).unwrap_or(false);
    if quick {
        QUICK_CONFIRM_S
    } else {
        WATCHDOG_S
    }
}
/// First-pass budget per (input, entry point) inside a batch; anything slower is re-run alone
/// with the full watchdog before it is judged.
const FIRST_PASS_S: u64 = 5;
const MAX_LEN: usize = 4096;
const STACK_BYTES: u64 = 8 << 20;

/// Entry-point name used in signatures (the evaluator is one API, whatever the store). Paths are
/// written with '.' because KNOWN_FINDINGS.txt uses "::" as its own separator.
fn sig_entry(e: usize) -> String {
    if e >= 12 {
        "evaluate_expression".to_string()
    } else {
        ENTRIES[e].replace("::", ".")
    }
}

fn entry_index(name: &str) -> Option<usize> {
    ENTRIES.iter().position(|n| *n == name)
}

fn small_facts() -> Facts {
    let f = Facts::new();
    f.set("a", Value::Integer(10));
    f.set("b", Value::Integer(3));
    f.set("c", Value::Integer(0));
    f.set("x", Value::Number(2.5));
    f.set("s", Value::String("text".into()));
    f.set("n", Value::String("42".into()));
    f.set("t", Value::Boolean(true));
    f.set("z", Value::Null);
    f.set("big", Value::Integer(i64::MAX));
    f.set("User.Age", Value::Integer(30));
    f.set("User.Name", Value::String("Alice".into()));
    f.set("Order.quantity", Value::Integer(10));
    f.set("Order.price", Value::Number(99.5));
    f.set("arr", Value::Array(vec![Value::Integer(1), Value::Integer(2)]));
    let mut o = HashMap::new();
    o.insert("firstName".to_string(), Value::String("Bob".into()));
    o.insert("age".to_string(), Value::Integer(41));
    f.set("Customer", Value::Object(o));
    f
}

/// Call one entry point. Returns b'O' (a value that shows the parser engaged with the text),
/// b'o' (a value, but the trivial one: empty list / None / no goals) or b'e' (an error).
/// Everything the call produced is dropped inside this function (a deep drop is part of the call).
fn call_entry(e: usize, s: &str, empty: &Facts, small: &Facts) -> u8 {
    fn ne(b: bool) -> u8 {
        if b {
            b'O'
        } else {
            b'o'
        }
    }
    match e {
        0 => match GRLParser::parse_rules(s) {
            Ok(v) => ne(!v.is_empty()),
            Err(_) => b'e',
        },
        1 => match GRLParser::parse_rule(s) {
            Ok(_) => b'O',
            Err(_) => b'e',
        },
        2 => match GRLParser::parse_with_modules(s) {
            Ok(p) => ne(!p.rules.is_empty() || p.module_manager.list_modules().len() > 1),
            Err(_) => b'e',
        },
        3 => match QueryParser::parse(s) {
            Ok(_) => b'O',
            Err(_) => b'e',
        },
        4 => match ExpressionParser::parse(s) {
            Ok(_) => b'O',
            Err(_) => b'e',
        },
        5 => match GRLQueryParser::parse(s) {
            Ok(_) => b'O',
            Err(_) => b'e',
        },
        6 => match GRLQueryParser::parse_queries(s) {
            Ok(v) => ne(!v.is_empty()),
            Err(_) => b'e',
        },
        7 => match parse_aggregate_query(s) {
            Ok(_) => b'O',
            Err(_) => b'e',
        },
        8 => ne(DisjunctionParser::parse(s).is_some()),
        9 => {
            let q = NestedQueryParser::parse(s);
            ne(!q.goals.is_empty() || q.has_nested())
        }
        10 => match parse_stream_pattern(s) {
            Ok(_) => b'O',
            Err(_) => b'e',
        },
        11 => match parse_stream_join_pattern(s) {
            Ok(_) => b'O',
            Err(_) => b'e',
        },
        12 => match evaluate_expression(s, empty) {
            Ok(_) => b'O',
            Err(_) => b'e',
        },
        13 => match evaluate_expression(s, small) {
            Ok(_) => b'O',
            Err(_) => b'e',
        },
        _ => b'e',
    }
}

// ------------------------------------------------------------------------------------------
// small helpers
// ------------------------------------------------------------------------------------------

fn hex(b: &[u8]) -> String {
    const H: &[u8; 16] = b"0123456789abcdef";
    let mut s = String::with_capacity(b.len() * 2);
    for x in b {
        s.push(H[(x >> 4) as usize] as char);
        s.push(H[(x & 15) as usize] as char);
    }
    s
}

fn unhex(s: &str) -> Option<Vec<u8>> {
    let b = s.as_bytes();
    if b.len() % 2 != 0 {
        return None;
    }
    let v = |c: u8| match c {
        b'0'..=b'9' => Some(c - b'0'),
        b'a'..=b'f' => Some(c - b'a' + 10),
        _ => None,
    };
    let mut out = Vec::with_capacity(b.len() / 2);
    for p in b.chunks(2) {
        out.push(v(p[0])? << 4 | v(p[1])?);
    }
    Some(out)
}

fn clip(s: &str, max: usize) -> String {
    if s.len() <= max {
        return s.to_string();
    }
    let mut end = max;
    while !s.is_char_boundary(end) {
        end -= 1;
    }
    s[..end].to_string()
}

fn one_line(s: &str, max: usize) -> String {
    s.chars()
        .take(max)
        .map(|c| if c.is_control() { ' ' } else { c })
        .collect()
}

fn cpu_now_s() -> f64 {
    let mut ts = libc::timespec {
        tv_sec: 0,
        tv_nsec: 0,
    };
    unsafe {
        libc::clock_gettime(libc::CLOCK_PROCESS_CPUTIME_ID, &mut ts);
    }
    ts.tv_sec as f64 + ts.tv_nsec as f64 / 1e9
}

fn set_soft_cpu_limit(secs: u64) {
    unsafe {
        let mut r = libc::rlimit {
            rlim_cur: 0,
            rlim_max: 0,
        };
        if libc::getrlimit(libc::RLIMIT_CPU, &mut r) == 0 {
            r.rlim_cur = if r.rlim_max == libc::RLIM_INFINITY {
                secs
            } else {
                secs.min(r.rlim_max)
            };
            libc::setrlimit(libc::RLIMIT_CPU, &r);
        }
    }
}

// ------------------------------------------------------------------------------------------
// worker side
// ------------------------------------------------------------------------------------------

/// Where was the worker when the kernel CPU limit fired? A SIGXCPU handler reports the innermost
/// crate frame of the interrupted call and whether the time was being spent inside the `rexile`
/// regex engine below it (`X <frame>\t<0|1>`), then lets the signal kill the process as usual.
/// Capturing a backtrace allocates, so the handler must not run inside the allocator: the global
/// allocator of this binary flags "inside malloc/free"; in that case the report is made on the way
/// out of the allocator. `alarm(30)` is the back-stop should anything in here block.
mod xcpu {
    use std::alloc::{GlobalAlloc, Layout, System};
    use std::sync::atomic::{AtomicBool, AtomicI32, Ordering};

    static IN_ALLOC: AtomicBool = AtomicBool::new(false);
    static PENDING: AtomicBool = AtomicBool::new(false);
    static ARMED: AtomicBool = AtomicBool::new(false);
    static OUT_FD: AtomicI32 = AtomicI32::new(-1);
    /// allocations since the current call started (see `call_begins`): one search that never ends
    /// allocates next to nothing, a parser that re-parses for ever allocates all the time
    pub static ALLOCS: std::sync::atomic::AtomicU64 = std::sync::atomic::AtomicU64::new(0);

    pub fn call_begins() {
        ALLOCS.store(0, Ordering::Relaxed);
    }

    pub struct TrackAlloc;

    #[inline(always)]
    fn leave() {
        IN_ALLOC.store(false, Ordering::Relaxed);
        if PENDING.load(Ordering::Relaxed) {
            report_and_die();
        }
    }

    unsafe impl GlobalAlloc for TrackAlloc {
        unsafe fn alloc(&self, l: Layout) -> *mut u8 {
            IN_ALLOC.store(true, Ordering::Relaxed);
            ALLOCS.fetch_add(1, Ordering::Relaxed);
            let p = System.alloc(l);
            leave();
            p
        }
        unsafe fn dealloc(&self, p: *mut u8, l: Layout) {
            IN_ALLOC.store(true, Ordering::Relaxed);
            System.dealloc(p, l);
            leave();
        }
        unsafe fn alloc_zeroed(&self, l: Layout) -> *mut u8 {
            IN_ALLOC.store(true, Ordering::Relaxed);
            let p = System.alloc_zeroed(l);
            leave();
            p
        }
        unsafe fn realloc(&self, p: *mut u8, l: Layout, n: usize) -> *mut u8 {
            IN_ALLOC.store(true, Ordering::Relaxed);
            let q = System.realloc(p, l, n);
            leave();
            q
        }
    }

    fn report_and_die() {
        if !ARMED.swap(false, Ordering::SeqCst) {
            return;
        }
        PENDING.store(false, Ordering::SeqCst);
        let bt = std::backtrace::Backtrace::force_capture().to_string();
        let mut in_rexile = false;
        let mut frame = String::new();
        for line in bt.lines() {
            let l = line.trim();
            if l.starts_with("at ") {
                continue;
            }
            if let Some(pos) = l.find("rust_rule_engine::") {
                let mut f = l[pos..].to_string();
                if let Some(h) = f.rfind("::h") {
                    if f.len() - h == 19 && f[h + 3..].chars().all(|c| c.is_ascii_hexdigit()) {
                        f.truncate(h);
                    }
                }
                while f.ends_with("::{{closure}}") {
                    let n = f.len() - "::{{closure}}".len();
                    f.truncate(n);
                }
                if let Some(lt) = f.find('<') {
                    f.truncate(lt);
                    while f.ends_with(':') {
                        f.pop();
                    }
                }
                frame = f;
                break;
            }
            if l.contains("rexile::") {
                in_rexile = true;
            }
        }
        let msg = format!("\nX {}\t{}\t{}\n", frame, if in_rexile { 1 } else { 0 }, ALLOCS.load(Ordering::Relaxed));
        unsafe {
            let fd = OUT_FD.load(Ordering::SeqCst);
            libc::write(fd, msg.as_ptr() as *const libc::c_void, msg.len());
            libc::signal(libc::SIGXCPU, libc::SIG_DFL);
            let mut set: libc::sigset_t = std::mem::zeroed();
            libc::sigemptyset(&mut set);
            libc::sigaddset(&mut set, libc::SIGXCPU);
            libc::sigprocmask(libc::SIG_UNBLOCK, &set, std::ptr::null_mut());
            libc::raise(libc::SIGXCPU);
            libc::_exit(98);
        }
    }

    extern "C" fn on_xcpu(_sig: libc::c_int) {
        unsafe {
            libc::alarm(30);
        }
        if IN_ALLOC.load(Ordering::Relaxed) {
            PENDING.store(true, Ordering::SeqCst);
            return;
        }
        report_and_die();
    }

    /// Install the handler (worker processes only; they are single-threaded).
    pub fn arm(out_fd: i32) {
        OUT_FD.store(out_fd, Ordering::SeqCst);
        ARMED.store(true, Ordering::SeqCst);
        unsafe {
            libc::signal(libc::SIGXCPU, on_xcpu as extern "C" fn(libc::c_int) as libc::sighandler_t);
        }
    }
}

#[global_allocator]
static GLOBAL: xcpu::TrackAlloc = xcpu::TrackAlloc;

fn read_stdin() -> String {
    use std::io::Read;
    let mut s = String::new();
    let _ = std::io::stdin().read_to_string(&mut s);
    s
}

/// `--worker run <first_pass_s>`: stdin has one `<mask-hex> <input-hex>` line per input.
/// Protocol on stdout: `S i e` before a call, `E i e <code> <cpu_us>` or
/// `P i e <cpu_us> <class>\t<frame>\t<file:line>\t<msg>` after it, `Z` at the end. Whatever the
/// Rust runtime prints on fd 2 when it aborts (stack overflow, allocation failure) is sent down
/// the same pipe so that the parent can tell these deaths apart.
fn worker_run(first_pass_s: u64) -> i32 {
    unsafe {
        libc::dup2(quiet::real_stdout_fd(), 2);
    }
    xcpu::arm(quiet::real_stdout_fd());
    if first_pass_s > 0 && first_pass_s < WATCHDOG_S {
        // batch workers yield to the single-pair children that run under the full watchdog
        unsafe {
            libc::nice(5);
        }
    }
    let text = read_stdin();
    let empty = Facts::new();
    let small = small_facts();
    let mut pending = String::new();
    for (i, line) in text.lines().enumerate() {
        let Some((m, h)) = line.split_once(' ') else {
            continue;
        };
        let mask = u16::from_str_radix(m, 16).unwrap_or(0);
        let Some(bytes) = unhex(h.trim()) else {
            continue;
        };
        let Ok(input) = String::from_utf8(bytes) else {
            continue;
        };
        for e in 0..NE {
            if mask >> e & 1 == 0 {
                continue;
            }
            if first_pass_s > 0 {
                set_soft_cpu_limit(cpu_now_s().ceil() as u64 + first_pass_s);
            }
            pending.push_str(&format!("S {} {}", i, e));
            xcpu::call_begins();
            quiet::out(&pending);
            pending.clear();
            let t0 = cpu_now_s();
            let r = pan::catch_frames(|| call_entry(e, &input, &empty, &small));
            let us = ((cpu_now_s() - t0) * 1e6) as u64;
            match r {
                Ok(code) => pending.push_str(&format!("E {} {} {} {}\n", i, e, code as char, us)),
                Err(p) => pending.push_str(&format!(
                    "P {} {} {} {}\t{}\t{}:{}\t{}\n",
                    i,
                    e,
                    us,
                    p.class(),
                    p.frame,
                    p.file,
                    p.line,
                    one_line(&p.msg, 240)
                )),
            }
        }
    }
    pending.push('Z');
    quiet::out(&pending);
    0
}

/// `--worker shrink <entry> <class-hex> <frame-hex>`: stdin = hex of the input. Character-level
/// delta debugging that keeps the SAME (class, frame) panic; prints `M <hex>` after every
/// improvement so that a partial result survives if a candidate kills this process.
fn worker_shrink(e: usize, class: &str, frame: &str) -> i32 {
    let text = read_stdin();
    let Some(bytes) = unhex(text.trim()) else {
        return 2;
    };
    let Ok(input) = String::from_utf8(bytes) else {
        return 2;
    };
    let empty = Facts::new();
    let small = small_facts();
    let mut tests = 0usize;
    let mut fails = |cs: &[char]| -> bool {
        tests += 1;
        let s: String = cs.iter().collect();
        match pan::catch_frames(|| call_entry(e, &s, &empty, &small)) {
            Err(p) => p.class() == class && p.frame == frame,
            Ok(_) => false,
        }
    };
    let mut cur: Vec<char> = input.chars().collect();
    if !fails(&cur) {
        quiet::out("N");
        return 0;
    }
    let budget = 6000usize;
    let mut used = 0usize;
    let mut chunk = (cur.len() / 2).max(1);
    loop {
        let mut i = 0;
        let mut progressed = false;
        while i < cur.len() && used < budget {
            let end = (i + chunk).min(cur.len());
            let mut cand = cur.clone();
            cand.drain(i..end);
            used += 1;
            if fails(&cand) {
                cur = cand;
                progressed = true;
                quiet::out(&format!("M {}", hex(cur.iter().collect::<String>().as_bytes())));
            } else {
                i += chunk;
            }
        }
        if used >= budget {
            break;
        }
        if chunk == 1 {
            if !progressed {
                break;
            }
        } else {
            chunk = (chunk / 2).max(1);
        }
    }
    // make the witness easier to read: turn characters that do not matter into plain ones
    for i in 0..cur.len() {
        if used >= budget {
            break;
        }
        let c = cur[i];
        if c.is_ascii_alphanumeric() || c == ' ' {
            continue;
        }
        for repl in [' ', 'a'] {
            let mut cand = cur.clone();
            cand[i] = repl;
            used += 1;
            if fails(&cand) {
                cur = cand;
                break;
            }
        }
    }
    quiet::out(&format!("M {}", hex(cur.iter().collect::<String>().as_bytes())));
    quiet::out("Z");
    0
}

// ------------------------------------------------------------------------------------------
// parent side: running batches in worker children
// ------------------------------------------------------------------------------------------

#[derive(Clone, Debug)]
struct Bin {
    name: &'static str,
    path: PathBuf,
}

fn release_bin() -> Option<Bin> {
    std::env::current_exe().ok().map(|p| Bin {
        name: "release",
        path: p,
    })
}

fn devopt_bin() -> Result<Bin, String> {
    match std::env::var("VERIF_DEVOPT_BIN") {
        Ok(p) if !p.is_empty() => {
            let pb = PathBuf::from(&p);
            if pb.is_file() {
                Ok(Bin {
                    name: "devopt",
                    path: pb,
                })
            } else {
                Err(format!("VERIF_DEVOPT_BIN={} does not exist", p))
            }
        }
        _ => Err("VERIF_DEVOPT_BIN is not set".into()),
    }
}

#[derive(Clone, Debug)]
struct PanicRec {
    class: String,
    frame: String,
    loc: String,
    msg: String,
}

#[derive(Clone, Debug)]
struct DeathRec {
    signal: Option<i32>,
    exit: Option<i32>,
    child_cpu_s: f64,
    overflow_msg: bool,
    alloc_msg: bool,
    wall_killed: bool,
    /// reported by the worker's SIGXCPU handler: (innermost crate frame, time was inside rexile)
    site: Option<(String, bool)>,
    /// allocations the call had made when the CPU limit fired
    allocs: Option<u64>,
}

impl DeathRec {
    fn cpu_limit_hit(&self) -> bool {
        self.signal == Some(libc::SIGXCPU)
            || self.signal == Some(libc::SIGALRM)
            || self.exit == Some(98)
    }
    /// killed from outside (wall-clock back-stop, OOM killer, operator): never a verdict
    fn external_kill(&self) -> bool {
        self.wall_killed || self.signal == Some(libc::SIGKILL)
    }
    fn describe(&self) -> String {
        format!(
            "signal={:?} exit={:?} child_cpu_s={:.1} allocations-during-the-call={:?} stack-overflow-message={} allocation-failure-message={} at-kill={}",
            self.signal,
            self.exit,
            self.child_cpu_s,
            self.allocs,
            self.overflow_msg,
            self.alloc_msg,
            match &self.site {
                Some((f, r)) => format!("{}{}", f, if *r { " (inside the rexile regex engine)" } else { "" }),
                None => "?".to_string(),
            }
        )
    }
}

#[derive(Clone, Debug)]
enum Pr {
    /// returned: b'O' engaged value, b'o' trivial value, b'e' error
    Val(u8),
    Panic(PanicRec),
    /// the child died while this pair was running
    Died(DeathRec),
}

#[derive(Clone, Debug)]
struct PairOut {
    entry: usize,
    pr: Pr,
    cpu_us: u64,
}

#[derive(Default)]
struct BatchStats {
    children: u64,
    died: u64,
    harness_errors: Vec<String>,
}

fn spawn_worker(bin: &Bin, args: &[String], stdin: &[u8], lim: &Limits) -> std::io::Result<ChildOutcome> {
    let mut cmd = Command::new(&bin.path);
    cmd.arg("--worker").args(args);
    child::run_cmd(cmd, stdin, lim)
}

/// Run `(mask, input)` items in worker children of `bin`. A child that dies is attributed to the
/// pair it had announced (`S` line) and the rest of the batch is resumed in a fresh child, so
/// every requested pair gets exactly one result.
fn run_batch(
    bin: &Bin,
    items: &[(u16, Arc<String>)],
    first_pass_s: u64,
    child_cpu_s: u64,
    bs: &mut BatchStats,
) -> Vec<Vec<PairOut>> {
    let mut res: Vec<Vec<PairOut>> = items.iter().map(|_| Vec::new()).collect();
    let mut masks: Vec<u16> = items.iter().map(|(m, _)| *m & ALL_MASK).collect();
    let mut guard = 0usize;
    loop {
        let idx: Vec<usize> = (0..items.len()).filter(|&i| masks[i] != 0).collect();
        if idx.is_empty() {
            break;
        }
        guard += 1;
        if guard > items.len() * NE + 4 {
            bs.harness_errors.push("batch runner made no progress".into());
            break;
        }
        let mut stdin = String::new();
        for &i in &idx {
            stdin.push_str(&format!("{:x} {}\n", masks[i], hex(items[i].1.as_bytes())));
        }
        let lim = Limits {
            cpu_s: child_cpu_s,
            as_bytes: Some(4 << 30),
            wall_s: 7200.0,
            stack_bytes: Some(STACK_BYTES),
        };
        let out = match spawn_worker(bin, &["run".into(), first_pass_s.to_string()], stdin.as_bytes(), &lim) {
            Ok(o) => o,
            Err(e) => {
                bs.harness_errors.push(format!("cannot spawn worker {}: {}", bin.path.display(), e));
                break;
            }
        };
        bs.children += 1;
        let text = String::from_utf8_lossy(&out.stdout);
        let mut open: Option<(usize, usize)> = None;
        let mut finished = false;
        let mut tail = String::new(); // runtime messages after the last S line
        let mut site: Option<(String, bool)> = None;
        let mut site_allocs: Option<u64> = None;
        let mut progressed = false;
        for line in text.lines() {
            let mut it = line.splitn(4, ' ');
            match it.next() {
                Some("S") => {
                    let (Some(a), Some(b)) = (it.next(), it.next()) else { continue };
                    if let (Ok(a), Ok(b)) = (a.parse::<usize>(), b.parse::<usize>()) {
                        if a < idx.len() && b < NE {
                            open = Some((idx[a], b));
                            tail.clear();
                            site = None;
                        }
                    }
                }
                Some("E") => {
                    let (Some(a), Some(b), Some(rest)) = (it.next(), it.next(), it.next()) else { continue };
                    let (Ok(a), Ok(b)) = (a.parse::<usize>(), b.parse::<usize>()) else { continue };
                    if a >= idx.len() || b >= NE {
                        continue;
                    }
                    let mut r = rest.split(' ');
                    let code = r.next().and_then(|c| c.bytes().next()).unwrap_or(b'e');
                    let us = r.next().and_then(|u| u.parse().ok()).unwrap_or(0);
                    let i = idx[a];
                    if masks[i] >> b & 1 == 1 {
                        masks[i] &= !(1 << b);
                        res[i].push(PairOut { entry: b, pr: Pr::Val(code), cpu_us: us });
                        progressed = true;
                    }
                    open = None;
                }
                Some("P") => {
                    let (Some(a), Some(b), Some(rest)) = (it.next(), it.next(), it.next()) else { continue };
                    let (Ok(a), Ok(b)) = (a.parse::<usize>(), b.parse::<usize>()) else { continue };
                    if a >= idx.len() || b >= NE {
                        continue;
                    }
                    let (us, rest) = rest.split_once(' ').unwrap_or(("0", ""));
                    let mut f = rest.splitn(4, '\t');
                    let rec = PanicRec {
                        class: f.next().unwrap_or("").to_string(),
                        frame: f.next().unwrap_or("").to_string(),
                        loc: f.next().unwrap_or("").to_string(),
                        msg: f.next().unwrap_or("").to_string(),
                    };
                    let i = idx[a];
                    if masks[i] >> b & 1 == 1 {
                        masks[i] &= !(1 << b);
                        res[i].push(PairOut { entry: b, pr: Pr::Panic(rec), cpu_us: us.parse().unwrap_or(0) });
                        progressed = true;
                    }
                    open = None;
                }
                Some("Z") if line == "Z" => finished = true,
                Some("X") => {
                    let rest = line[1..].trim_start();
                    let (f, r) = rest.split_once('\t').unwrap_or((rest, "0"));
                    let (r, a) = r.split_once('\t').unwrap_or((r, ""));
                    site = Some((f.trim().to_string(), r.trim() == "1"));
                    site_allocs = a.trim().parse::<u64>().ok();
                }
                _ => {
                    if tail.len() < 2000 {
                        tail.push_str(line);
                        tail.push('\n');
                    }
                }
            }
        }
        if finished && out.ok() {
            // all pairs of this child answered; anything left in masks would be a protocol error
            if idx.iter().any(|&i| masks[i] != 0) {
                bs.harness_errors.push("worker finished but left pairs unanswered".into());
                break;
            }
            continue;
        }
        bs.died += 1;
        match open {
            Some((i, e)) if masks[i] >> e & 1 == 1 => {
                masks[i] &= !(1 << e);
                res[i].push(PairOut {
                    entry: e,
                    pr: Pr::Died(DeathRec {
                        signal: out.signal,
                        exit: out.exit,
                        child_cpu_s: out.cpu_s,
                        overflow_msg: tail.contains("overflowed its stack"),
                        alloc_msg: tail.contains("memory allocation of"),
                        wall_killed: out.wall_killed,
                        site: site.clone(),
                        allocs: site_allocs,
                    }),
                    cpu_us: 0,
                });
            }
            _ => {
                if !progressed {
                    bs.harness_errors.push(format!(
                        "worker died outside a monitored call: {} {}",
                        out.describe(),
                        one_line(&tail, 200)
                    ));
                    break;
                }
            }
        }
    }
    res
}

/// One (input, entry point) pair alone in a child with the full watchdog.
fn run_isolated(bin: &Bin, input: &Arc<String>, e: usize, bs: &mut BatchStats) -> Option<PairOut> {
    // the worker itself arms the kernel limit at (CPU used so far) + 120 s right before the call, so
    // that process start-up is not charged and the SIGXCPU handler has room to report the call site
    let mut last = None;
    for _attempt in 0..2 {
        let r = run_batch(bin, &[(1u16 << e, input.clone())], budget_for(input), 3600, bs);
        last = r.into_iter().next().and_then(|v| v.into_iter().next());
        match &last {
            // killed by the CPU limit but the handler could not say where (e.g. its own back-stop
            // fired on an overloaded box): the signature would be weaker than it can be — once more
            Some(PairOut { pr: Pr::Died(d), .. }) if d.cpu_limit_hit() && d.site.is_none() => continue,
            _ => break,
        }
    }
    last
}

// ------------------------------------------------------------------------------------------
// cases, chains, signatures
// ------------------------------------------------------------------------------------------

/// Longest run of a repeated unit of 1..=4 characters: (start, unit length, repetitions).
fn dominant_run(cs: &[char], min_cover: usize) -> Option<(usize, usize, usize)> {
    let mut best: Option<(usize, usize, usize)> = None;
    for u in 1..=4usize {
        let mut i = 0;
        while i + u <= cs.len() {
            let mut reps = 1;
            while i + (reps + 1) * u <= cs.len() && cs[i..i + u] == cs[i + reps * u..i + (reps + 1) * u] {
                reps += 1;
            }
            // a unit made of one repeated character is the u=1 case
            let uniform = u > 1 && cs[i..i + u].iter().all(|c| *c == cs[i]);
            if !uniform && reps * u >= min_cover && reps >= 2 {
                let better = match best {
                    None => true,
                    Some((_, bu, br)) => reps * u > bu * br,
                };
                if better {
                    best = Some((i, u, reps));
                }
            }
            i += if reps > 1 { (reps - 1) * u + 1 } else { 1 };
        }
    }
    best
}

/// Run-length view of an input for readable witnesses: [{"s": text, "n": repetitions}].
fn to_parts(input: &str) -> Json {
    let cs: Vec<char> = input.chars().collect();
    let mut parts: Vec<Json> = Vec::new();
    let mut pos = 0usize;
    let mut rest: &[char] = &cs;
    while let Some((st, u, reps)) = dominant_run(rest, 48) {
        // dominant_run gives the longest; split recursively left to right
        let _ = pos;
        if st > 0 {
            parts.push(json!({"s": rest[..st].iter().collect::<String>()}));
        }
        parts.push(json!({"s": rest[st..st + u].iter().collect::<String>(), "n": reps}));
        rest = &rest[st + u * reps..];
        pos += st + u * reps;
        if parts.len() > 40 {
            break;
        }
    }
    if !rest.is_empty() {
        parts.push(json!({"s": rest.iter().collect::<String>()}));
    }
    Json::Array(parts)
}

fn from_parts(j: &Json) -> Option<String> {
    let mut s = String::new();
    for p in j.as_array()? {
        let t = p.get("s")?.as_str()?;
        let n = p.get("n").and_then(|n| n.as_u64()).unwrap_or(1);
        for _ in 0..n {
            s.push_str(t);
        }
    }
    Some(s)
}

#[derive(Clone, Debug)]
struct Case {
    input: String,
    /// indices into ENTRIES; empty = all entry points
    entries: Vec<usize>,
    /// "release", "devopt" or "both"
    profile: String,
    gen: String,
}

impl Case {
    fn to_json(&self) -> Json {
        let mut m = serde_json::Map::new();
        // long repetitive inputs are written run-length encoded (left-to-right concatenation)
        let parts = to_parts(&self.input);
        let compact = parts.as_array().map(|a| a.iter().any(|p| p.get("n").is_some())).unwrap_or(false)
            && from_parts(&parts).as_deref() == Some(self.input.as_str());
        if compact {
            m.insert("input_parts".into(), parts);
        } else {
            m.insert("input".into(), json!(self.input));
        }
        m.insert("input_bytes".into(), json!(self.input.len()));
        m.insert(
            "entry".into(),
            match self.entries.as_slice() {
                [] => json!("*"),
                [e] => json!(ENTRIES[*e]),
                es => json!(es.iter().map(|e| ENTRIES[*e]).collect::<Vec<_>>()),
            },
        );
        m.insert("profile".into(), json!(self.profile));
        m.insert("generator".into(), json!(self.gen));
        Json::Object(m)
    }
    fn from_json(j: &Json) -> Option<Case> {
        let input = match j.get("input").and_then(|s| s.as_str()) {
            Some(s) => s.to_string(),
            None => from_parts(j.get("input_parts")?)?,
        };
        let entries = match j.get("entry") {
            None => vec![],
            Some(Json::String(n)) if n == "*" => vec![],
            Some(Json::String(n)) => vec![entry_index(n)?],
            Some(Json::Array(a)) => {
                let mut v = Vec::new();
                for x in a {
                    v.push(entry_index(x.as_str()?)?);
                }
                v
            }
            Some(_) => return None,
        };
        Some(Case {
            input,
            entries,
            profile: j.get("profile").and_then(|s| s.as_str()).unwrap_or("both").to_string(),
            gen: j.get("generator").and_then(|s| s.as_str()).unwrap_or("").to_string(),
        })
    }
}

/// Name of the chain that dominates an input (cause predicate of hangs and stack overflows),
/// together with the input in which that chain is cut down to 4 repetitions (the counterfactual).
fn chain_predicate(input: &str) -> Option<(String, String)> {
    let cs: Vec<char> = input.chars().collect();
    let (st, u, reps) = dominant_run(&cs, 64)?;
    let unit: String = cs[st..st + u].iter().collect();
    let opens = cs.iter().filter(|c| **c == '(').count();
    let closes = cs.iter().filter(|c| **c == ')').count();
    let name = match unit.as_str() {
        "(" if opens > closes => "unbalanced-open-paren-chain".to_string(),
        "(" => "open-paren-chain".to_string(),
        ")" => "close-paren-chain".to_string(),
        "!" => "bang-chain".to_string(),
        "[" => "open-bracket-chain".to_string(),
        "]" => "close-bracket-chain".to_string(),
        "{" => "open-brace-chain".to_string(),
        "}" => "close-brace-chain".to_string(),
        "\"" => "double-quote-chain".to_string(),
        "'" => "single-quote-chain".to_string(),
        "-" => "minus-chain".to_string(),
        " " | "\t" | "\n" => "whitespace-chain".to_string(),
        _ => {
            let t = unit.trim();
            if t.chars().count() >= 2
                && t.chars().any(|c| "+-*/%".contains(c))
                && t.chars().any(|c| c.is_alphanumeric())
            {
                "binary-operator-chain".to_string()
            } else if t.ends_with('.') && t.chars().any(|c| c.is_alphanumeric()) {
                "dotted-path-chain".to_string()
            } else if t.contains("&&") || t.contains("||") {
                "logical-operator-chain".to_string()
            } else if t.chars().all(|c| c.is_alphanumeric() || c == '_') {
                "word-character-chain".to_string()
            } else {
                let mut n = String::from("chain-of-");
                for c in unit.chars() {
                    if c.is_ascii_alphanumeric() {
                        n.push(c);
                    } else {
                        n.push_str(&format!("u{:x}", c as u32));
                    }
                }
                n
            }
        }
    };
    let mut cut: String = cs[..st].iter().collect();
    for _ in 0..4.min(reps) {
        cut.push_str(&unit);
    }
    cut.extend(cs[st + u * reps..].iter());
    Some((name, cut))
}

fn panic_sig(e: usize, p: &PanicRec) -> String {
    let frame = p.frame.strip_prefix("rust_rule_engine::").unwrap_or(&p.frame);
    let frame = frame.replace("::", ".").replace(' ', "");
    format!("C05|panic|{}|{}|{}", sig_entry(e), p.class, if frame.is_empty() { "no-frame" } else { &frame })
}

fn violation(case: &Case, clause: &str, sig: String, detail: String) -> Violation {
    Violation {
        clause: clause.to_string(),
        sig,
        detail,
        case: case.to_json(),
    }
}

/// Judge a death in an ISOLATED run (one pair, full watchdog, 8 MiB stack): clause + signature.
/// `cause` comes from `explain` (a cause predicate that holds of the input AND whose counterfactual
/// — the same input without that feature — returned quickly), or "unexplained".
fn death_violation(case: &Case, e: usize, d: &DeathRec, cause: &str) -> Violation {
    if d.cpu_limit_hit() {
        violation(
            case,
            "terminates-within-120-cpu-seconds",
            format!("C05|cpu>120s|{}|{}", sig_entry(e), cause),
            format!(
                "{} [{}] was killed by the kernel CPU limit of {} s while parsing a {}-byte input ({}); cause predicate: {}",
                ENTRIES[e], case.profile, WATCHDOG_S, case.input.len(), d.describe(), cause
            ),
        )
    } else if d.overflow_msg {
        violation(
            case,
            "no-stack-overflow",
            format!("C05|stack-overflow|{}|{}", sig_entry(e), cause),
            format!(
                "{} [{}] overflowed the 8 MiB main-thread stack on a {}-byte input ({})",
                ENTRIES[e], case.profile, case.input.len(), d.describe()
            ),
        )
    } else {
        let what = if d.alloc_msg {
            "memory-exhausted-4GiB".to_string()
        } else {
            format!("signal-{}", d.signal.unwrap_or(0))
        };
        violation(
            case,
            "no-abnormal-death",
            format!("C05|abnormal-death|{}|{}|{}", sig_entry(e), what, cause),
            format!(
                "{} [{}] killed its process on a {}-byte input ({})",
                ENTRIES[e], case.profile, case.input.len(), d.describe()
            ),
        )
    }
}

/// Does the call return within the first-pass budget on this (cut-down) input? (own child)
fn returns_quickly(bin: &Bin, cut: &str, e: usize, bs: &mut BatchStats) -> bool {
    returns_within(bin, cut, e, FIRST_PASS_S, bs)
}

fn returns_within(bin: &Bin, cut: &str, e: usize, cpu_s: u64, bs: &mut BatchStats) -> bool {
    let r = run_batch(bin, &[(1u16 << e, Arc::new(cut.to_string()))], cpu_s, 3600, bs);
    matches!(
        r.first().and_then(|v| v.first()).map(|p| &p.pr),
        Some(Pr::Val(_)) | Some(Pr::Panic(_))
    )
}

/// Cause predicate "long-single-condition": between the first `when` and the last `then` there is
/// a stretch of >= 200 characters without `&&` / `||` (the rule parser hands such a stretch as ONE
/// condition to an unanchored regex search whose cost grows like n^3.5). Returns the input with
/// that stretch cut down to its first and last 24 characters (the counterfactual).
fn long_condition_cut(input: &str) -> Option<String> {
    let w = input.find("when")?;
    let start = w + 4;
    let end = input.rfind("then").filter(|t| *t > start).unwrap_or(input.len());
    let region = input.get(start..end)?;
    let mut best: Option<(usize, usize, usize)> = None; // (chars, byte start, byte end) within region
    let mut piece_start = 0usize;
    let mut chars = 0usize;
    let mut prev: Option<char> = None;
    let consider = |chars: usize, a: usize, b: usize, best: &mut Option<(usize, usize, usize)>| {
        if best.map(|x| chars > x.0).unwrap_or(true) {
            *best = Some((chars, a, b));
        }
    };
    for (i, c) in region.char_indices() {
        if (c == '&' && prev == Some('&')) || (c == '|' && prev == Some('|')) {
            consider(chars.saturating_sub(1), piece_start, i - 1, &mut best);
            piece_start = i + 1;
            chars = 0;
            prev = None;
            continue;
        }
        chars += 1;
        prev = Some(c);
    }
    consider(chars, piece_start, region.len(), &mut best);
    let (n, a, b) = best?;
    if n < 200 {
        return None;
    }
    let piece: Vec<char> = region.get(a..b)?.chars().collect();
    let mut cut = String::new();
    cut.push_str(&input[..start + a]);
    cut.extend(piece[..24].iter());
    cut.extend(piece[piece.len() - 24..].iter());
    cut.push_str(&input[start + b..]);
    Some(cut)
}

/// Length (in characters) of the longest stretch without `&&` / `||` between the first `when` and
/// the last `then` (the whole text when there is no `when`).
fn longest_operator_free_stretch(input: &str) -> usize {
    let start = input.find("when").map(|w| w + 4).unwrap_or(0);
    let end = input.rfind("then").filter(|t| *t > start).unwrap_or(input.len());
    let region = input.get(start..end).unwrap_or(input);
    region.split("&&").flat_map(|p| p.split("||")).map(|p| p.chars().count()).max().unwrap_or(0)
}

const REXILE_CAUSE: &str = "stuck-in-rexile-regex-engine";
const REXILE_MIN_LEN: usize = 2_500;

/// Why is this pair slow / fatal? For CPU kills the worker says where it was: inside the rexile
/// regex engine (one root cause: its matcher is super-linear, ~n^3.5 measured, on the crate's
/// unanchored capture patterns) or in the crate's own code (`in:<innermost crate frame>`). Without
/// that report the input-shape predicates are tried; one of them explains the observation only if
/// it holds of the input AND the call returns quickly once the feature is taken out.
fn explain(bin: &Bin, input: &str, e: usize, d: &DeathRec, bs: &mut BatchStats) -> String {
    if d.cpu_limit_hit() {
        if let Some((frame, in_rexile)) = &d.site {
            if *in_rexile {
                // the known super-linear search (~n^3.5) needs the whole 4 KiB to pass 120 CPU-s
                // (a 2.5 KiB input stays below a fifth of that): a SHORT input that is stuck there
                // got there some other way (e.g. by calling the matcher exponentially often)
                if input.len() >= REXILE_MIN_LEN {
                    return REXILE_CAUSE.to_string();
                }
                // a short input can still hand the matcher one long unsplittable stretch again and
                // again: nested groups joined by the WORDS `AND` / `OR`, which the rule grammar does
                // not split at. Counterfactual: the same text with `&&` / `||` in their place
                if input.contains(" AND ") || input.contains(" OR ") {
                    let cf = input.replace(" AND ", " && ").replace(" OR ", " || ");
                    if returns_quickly(bin, &cf, e, bs) {
                        return format!("{}:nested-groups-joined-by-word-operators", REXILE_CAUSE);
                    }
                }
                // ... or nested parenthesised groups around a long stretch that holds no logical
                // operator (text that is no condition at all: statements, braces, a whole rule
                // header): nothing splits it, and every nesting level hands it to the matcher again.
                // Shape: a stretch of >= 120 characters without `&&` / `||` between the first `when`
                // and the last `then`. Counterfactual: the same text without any parenthesis
                // needs less than half the limit
                if longest_operator_free_stretch(input) >= 120 && (input.contains("((") || input.matches('(').count() >= 3) {
                    let cf: String = input.chars().filter(|c| *c != '(' && *c != ')').collect();
                    if returns_within(bin, &cf, e, 60, bs) {
                        return format!("{}:nested-groups-around-a-long-stretch-without-logical-operators", REXILE_CAUSE);
                    }
                }
                return format!("{}:on-an-input-below-{}-bytes", REXILE_CAUSE, REXILE_MIN_LEN);
            }
            if !frame.is_empty() {
                let f = frame.strip_prefix("rust_rule_engine::").unwrap_or(frame);
                return format!("in:{}", f.replace("::", ".").replace(' ', ""));
            }
        }
    }
    if e <= 2 {
        if let Some(cut) = long_condition_cut(input) {
            if returns_quickly(bin, &cut, e, bs) {
                return "long-single-condition".to_string();
            }
        }
    }
    if let Some((name, cut)) = chain_predicate(input) {
        if returns_quickly(bin, &cut, e, bs) {
            return name;
        }
    }
    "unexplained".to_string()
}

/// Re-execute ONE case: every requested (profile, entry point) pair alone in its own child with the
/// full watchdog, all in parallel. Used by --replay, by the pinned known-finding witnesses and to
/// confirm shrunk witnesses.
fn run_case(c: &Case, verbose: bool) -> (Vec<Violation>, Vec<String>) {
    let mut bins: Vec<Bin> = Vec::new();
    let mut notes = Vec::new();
    if c.profile != "devopt" {
        if let Some(b) = release_bin() {
            bins.push(b);
        }
    }
    if c.profile != "release" {
        match devopt_bin() {
            Ok(b) => bins.push(b),
            Err(why) => notes.push(format!("devopt profile not run: {}", why)),
        }
    }
    let entries: Vec<usize> = if c.entries.is_empty() {
        (0..NE).collect()
    } else {
        c.entries.clone()
    };
    let input = Arc::new(c.input.clone());
    let mut jobs: Vec<(Bin, usize)> = Vec::new();
    for b in &bins {
        for &e in &entries {
            jobs.push((b.clone(), e));
        }
    }
    let results: Vec<(Bin, usize, Option<PairOut>, Option<String>, Vec<String>)> = std::thread::scope(|s| {
        let hs: Vec<_> = jobs
            .iter()
            .map(|(b, e)| {
                let input = input.clone();
                s.spawn(move || {
                    let mut bs = BatchStats::default();
                    let r = run_isolated(b, &input, *e, &mut bs);
                    let mut cause = None;
                    if let Some(PairOut { pr: Pr::Died(d), .. }) = &r {
                        if !d.external_kill() {
                            cause = Some(explain(b, &input, *e, d, &mut bs));
                        }
                    }
                    (b.clone(), *e, r, cause, bs.harness_errors)
                })
            })
            .collect();
        hs.into_iter().filter_map(|h| h.join().ok()).collect()
    });
    let mut vs: Vec<Violation> = Vec::new();
    for (b, e, r, cause, errs) in results {
        for x in errs {
            notes.push(format!("harness: {}", x));
        }
        let mut cc = c.clone();
        cc.entries = vec![e];
        cc.profile = b.name.to_string();
        let line;
        match r {
            None => {
                line = format!("{} [{}]: no result", ENTRIES[e], b.name);
                notes.push(line.clone());
            }
            Some(PairOut { pr: Pr::Val(code), cpu_us, .. }) => {
                line = format!(
                    "{} [{}]: returned {} in {:.3} cpu-s",
                    ENTRIES[e],
                    b.name,
                    match code {
                        b'O' => "a value",
                        b'o' => "an empty value",
                        _ => "an error",
                    },
                    cpu_us as f64 / 1e6
                );
            }
            Some(PairOut { pr: Pr::Panic(p), .. }) => {
                line = format!("{} [{}]: PANIC {} at {} in {}: {}", ENTRIES[e], b.name, p.class, p.loc, p.frame, p.msg);
                let sig = panic_sig(e, &p);
                if !vs.iter().any(|v| v.sig == sig) {
                    vs.push(violation(
                        &cc,
                        "no-panic",
                        sig,
                        format!("{} [{}] panicked: {} at {} (innermost crate frame {})", ENTRIES[e], b.name, p.msg, p.loc, p.frame),
                    ));
                }
            }
            Some(PairOut { pr: Pr::Died(d), .. }) => {
                line = format!("{} [{}]: CHILD DIED {}", ENTRIES[e], b.name, d.describe());
                if d.external_kill() {
                    notes.push(format!("killed from outside, e.g. wall-clock back-stop (inconclusive): {}", line));
                } else {
                    let v = death_violation(&cc, e, &d, cause.as_deref().unwrap_or("unexplained"));
                    if !vs.iter().any(|x| x.sig == v.sig) {
                        vs.push(v);
                    }
                }
            }
        }
        if verbose {
            out!("  {}", line);
        }
    }
    (vs, notes)
}

// ------------------------------------------------------------------------------------------
// generators
// ------------------------------------------------------------------------------------------

/// Hand-written valid texts for every input language (always available, whatever /repo holds).
const SEED_RULES: &[&str] = &[
    "rule \"CheckAge\" salience 10 {\n    when\n        User.Age >= 18 && User.Country == \"US\"\n    then\n        User.IsAdult = true;\n        Retract(\"User\");\n}",
    "rule Simple { when x == 1 then y = 2; }",
    "rule \"Attrs\" \"a description\" salience 5 no-loop lock-on-active agenda-group \"g1\" activation-group \"a1\" date-effective \"2024-01-01\" date-expires \"2030-12-31T00:00:00Z\" {\n when (User.vip == true) || ((Order.total > 500.5) && !(Order.flag == false))\n then Order.discount = Order.total * 0.1; log(\"done\"); }",
    "rule \"Quant\" { when exists(Customer.tier == \"VIP\") && !exists(Alert.priority == \"high\") && forall(Order.status == \"processed\") then Alert.sent = true; }",
    "rule \"Acc\" { when accumulate(Order($amount: amount, status == \"completed\"), sum($amount)) then Total.value = 1; }",
    "rule \"TestCE\" { when test(is_valid_email(User.email)) && in_range(Product.price, 100, 1000) == true then User.ok = true; }",
    "rule \"Typed\" { when $TestCar : TestCarClass( speedUp == true && speed < maxSpeed ) then $TestCar.setSpeed($TestCar.Speed + $TestCar.SpeedIncrement); update($TestCar); }",
    "rule \"Multi\" { when Order.items $?all && Order.items count > 0 && Queue.tasks first $t && Queue.tasks last && Cart.items empty && Cart.tags not_empty then Order.n += 1; }",
    "rule \"Arr\" { when User.role in [\"admin\", 'ops', 3] && Product.tags contains \"new\" && User.name startsWith \"A\" && User.mail matches \"x\" then User.score = User.score + 10 % 3; }",
    "rule \"Flow\" { when Order.qty * Order.price > 100 then ActivateAgendaGroup(\"next\"); ScheduleRule(5000, \"later\"); CompleteWorkflow(\"wf\"); SetWorkflowData(\"k=v\"); set(user.status, \"approved\"); apply_discount(20000); }",
    "rule \"Stream\" salience 100 {\n    when\n        login: LoginEvent from stream(\"logins\") over window(10 min, sliding) &&\n        login.user_id == \"test123\"\n    then\n        Alert.Type = \"STREAM_TEST\";\n}",
    "defmodule SENSORS {\n  export: all\n}\ndefmodule CONTROL {\n  import: SENSORS (rules * (templates temperature))\n  export: none\n}\n;; MODULE: SENSORS - Temperature\nrule \"CheckTemp\" {\n  when temperature.value > 28\n  then println(\"Hot\");\n}",
    "// comment line\nrule \"Uni\" { when User.name == \"J\u{fc}rgen \u{2705}\" then User.greeting = 'h\u{e9}llo'; }",
];

const SEED_QUERIES: &[&str] = &[
    "query \"CheckVIPStatus\" {\n    goal: User.IsVIP == true\n    strategy: depth-first\n    max-depth: 10\n    max-solutions: 3\n    enable-memoization: true\n    enable-optimization: false\n    when: User.Active == true\n    on-success: {\n        User.DiscountRate = 0.2;\n        LogMessage(\"VIP confirmed\");\n    }\n    on-failure: {\n        LogMessage(\"Not a VIP user\");\n    }\n    on-missing: {\n        Request(\"need data\");\n    }\n}",
    "query \"Q\" { goal: (a == 1 && b != \"x)\") \n strategy: iterative }",
    "query \"A\" {\n goal: Order.AutoApproved == true\n on-success: { Order.Status = \"\u{2705} ok\"; }\n}\nquery \"B\" {\n goal: x > 1\n strategy: breadth-first\n}",
];

const SEED_EXPRS: &[&str] = &[
    "User.IsVIP == true && Order.Amount > 1000",
    "NOT User.IsBanned == true",
    "(a > 1 || b < 2) && !c",
    "?x == \"str\\\"esc\" || ?Customer != null",
    "-5.5 <= x && y >= 42 && z != false",
    "Order.quantity * Order.price",
    "a + b * c",
    "(a + b) % 3",
    "\"x\" + \"y\"",
    "10 / 0",
    "User.Age - 1",
    "s + n",
    "Customer.firstName",
    "a / b - x * 2 + 'q'",
];

const SEED_OTHER: &[&str] = &[
    "count(?x) WHERE employee(?x)",
    "sum(?amount) WHERE purchase(?item, ?amount) AND ?amount > 100",
    "avg(?salary) WHERE salary(?name, ?salary)",
    "first() WHERE p(?x)",
    "(manager(?p) OR senior(?p))",
    "(A OR (B AND C) OR \"x OR y\")",
    "grandparent(?x, ?z) WHERE parent(?x, ?y) AND (parent(?y, ?z) WHERE child(?z, ?y))",
    "eligible(?p) WHERE (manager(?p) WHERE senior(?p))",
    "event: LoginEvent from stream(\"logins\") over window(10 min, sliding)",
    "e: from stream(\"events\")",
    "reading: TempReading from stream(\"sensors\") over window(500 ms, tumbling)",
    "click: ClickEvent from stream(\"clicks\") over window(10 min, sliding) && purchase: PurchaseEvent from stream(\"purchases\") over window(1 hour, tumbling)",
];

const HOSTILE_CHARS: &[char] = &[
    '\u{e9}', '\u{df}', '\u{3c0}', '\u{4e2d}', '\u{20ac}', '\u{1f600}', '\u{301}', '\u{200b}', '\u{feff}',
    '\u{a0}', '\u{2028}', '\u{130}', '\u{fb01}', '\u{ff08}', '\u{201c}', '\0', '\r', '\u{b}', '\u{7f}',
];
/// 2-, 3-, 4-byte and combining: the four inserted "at every token boundary".
const BOUNDARY_CHARS: &[char] = &['\u{e9}', '\u{4e2d}', '\u{1f600}', '\u{301}'];

const TOKENS: &[&str] = &[
    "rule", "when", "then", "salience", "no-loop", "lock-on-active", "agenda-group", "activation-group",
    "date-effective", "date-expires", "defmodule", "export:", "import:", "all", "none", "rules", "templates",
    "exists(", "forall(", "accumulate(", "test(", "from stream(", "over window(", "sliding", "tumbling", "min",
    "sec", "ms", "hour", "query", "goal:", "strategy:", "depth-first", "max-depth:", "max-solutions:",
    "enable-memoization:", "on-success:", "on-failure:", "on-missing:", "when:", " WHERE ", " AND ", " OR ",
    "NOT ", "count(", "sum(", "avg(", "first", "last", "empty", "not_empty", "count", "?x", "$x", "$?x", "$T :",
    "true", "false", "null", "contains", "startsWith", "endsWith", "matches", "in", "==", "!=", ">=", "<=",
    ">", "<", "&&", "||", "!", "+", "-", "*", "/", "%", "=", "+=", "(", ")", "{", "}", "[", "]", ",", ";",
    ":", ".", "\"", "'", "\\", "//", "/*", "*/", ";;", ";; MODULE:", "\n", "\t", " ", "0", "1", "42", "3.14", "-5",
    "9223372036854775807", "-9223372036854775808", "99999999999999999999", "1e309", "0x10", "User.Age", "x", "a.b.c", "Order.items",
    "a", "b", "s", "n", "Customer.firstName", "retract(", "log(", "update(", "set(", "ScheduleRule(",
    "SetWorkflowData(", "ActivateAgendaGroup(", "LogMessage(", "\"str\"", "'str'", "\"a b\"", "\"2024-01-01\"",
    "MAIN", "SENSORS", "\u{e9}", "\u{4e2d}", "\u{1f600}", "\u{301}", "\u{a0}", "\u{130}",
    // escape sequences as they appear in JSON / Rust / C text (a reader that decodes them meets
    // surrogates, truncated and out-of-range forms)
    "\"\\uD83D\\uDE00\"", "\"\\uD800\"", "\"\\uDFFF x\"", "\"\\u00e9\"", "\"\\u12\"", "\"\\uZZZZ\"", "\"\\u{1F600}\"", "\"\\u{110000}\"",
    "\"\\x41\\x\"", "\"\\n\\t\\0\"", "\"a\\\"b\"", "'\\uD800'", "\\u", "\\uD800", "\"\\",
];

struct Corpus {
    /// valid texts, each <= 4 KiB: (kind, text); kind 0 rule file/block, 1 query, 2 expression, 3 other
    seeds: Vec<(u8, String)>,
    /// the short hand-written ones (systematic generators use these)
    embedded: Vec<(u8, String)>,
    files_read: usize,
}

fn walk_grl(dir: &std::path::Path, out: &mut Vec<PathBuf>, depth: usize) {
    if depth > 6 {
        return;
    }
    let Ok(rd) = std::fs::read_dir(dir) else { return };
    let mut ents: Vec<PathBuf> = rd.filter_map(|e| e.ok().map(|e| e.path())).collect();
    ents.sort();
    for p in ents {
        let name = p.file_name().and_then(|n| n.to_str()).unwrap_or("");
        if p.is_dir() {
            if name == "target" || name.starts_with('.') {
                continue;
            }
            walk_grl(&p, out, depth + 1);
        } else if name.ends_with(".grl") {
            out.push(p);
        }
    }
}

fn load_corpus() -> Corpus {
    let mut embedded: Vec<(u8, String)> = Vec::new();
    for s in SEED_RULES {
        embedded.push((0, s.to_string()));
    }
    for s in SEED_QUERIES {
        embedded.push((1, s.to_string()));
    }
    for s in SEED_EXPRS {
        embedded.push((2, s.to_string()));
    }
    for s in SEED_OTHER {
        embedded.push((3, s.to_string()));
    }
    let mut seeds = embedded.clone();
    let repo = std::env::var("VERIF_REPO").unwrap_or_else(|_| "/repo".to_string());
    let mut files = Vec::new();
    walk_grl(std::path::Path::new(&repo), &mut files, 0);
    let mut files_read = 0;
    for f in &files {
        let Ok(text) = std::fs::read_to_string(f) else { continue };
        files_read += 1;
        if text.len() <= MAX_LEN {
            let kind = if text.contains("query \"") && !text.contains("rule ") { 1 } else { 0 };
            seeds.push((kind, text.clone()));
        }
        // blocks: from a line that starts a rule/query/defmodule to the next such line
        let mut cur = String::new();
        let mut kind = 0u8;
        let flush = |cur: &mut String, kind: u8, seeds: &mut Vec<(u8, String)>| {
            let t = cur.trim();
            if t.len() > 10 && t.len() <= MAX_LEN && (t.contains('{')) {
                seeds.push((kind, t.to_string()));
                // the condition / goal text on its own feeds the expression parsers
                if let (Some(w), Some(th)) = (t.find("when"), t.find("then")) {
                    if w + 4 < th {
                        if let Some(x) = t.get(w + 4..th) {
                            let x = x.trim();
                            if !x.is_empty() && x.len() < 400 {
                                seeds.push((2, x.to_string()));
                            }
                        }
                    }
                }
                if let Some(g) = t.find("goal:") {
                    if let Some(x) = t.get(g + 5..) {
                        let x = x.lines().next().unwrap_or("").trim();
                        if !x.is_empty() {
                            seeds.push((2, x.to_string()));
                        }
                    }
                }
            }
            cur.clear();
        };
        for line in text.lines() {
            let t = line.trim_start();
            if t.starts_with("rule ") || t.starts_with("query ") || t.starts_with("defmodule ") {
                flush(&mut cur, kind, &mut seeds);
                kind = if t.starts_with("query ") { 1 } else { 0 };
            }
            cur.push_str(line);
            cur.push('\n');
        }
        flush(&mut cur, kind, &mut seeds);
    }
    // de-duplicate, keep order
    let mut seen = BTreeSet::new();
    seeds.retain(|(_, s)| seen.insert(hash_of(s.as_str())));
    Corpus {
        seeds,
        embedded,
        files_read,
    }
}

/// Token boundaries (char indices) of a text: between runs of word characters, runs of white
/// space and single punctuation characters; includes 0 and len.
fn token_boundaries(cs: &[char]) -> Vec<usize> {
    let class = |c: char| {
        if c.is_alphanumeric() || c == '_' {
            0
        } else if c.is_whitespace() {
            1
        } else {
            2
        }
    };
    let mut b = vec![0usize];
    for i in 1..cs.len() {
        let (p, q) = (class(cs[i - 1]), class(cs[i]));
        if p != q || q == 2 {
            b.push(i);
        }
    }
    if !cs.is_empty() {
        b.push(cs.len());
    }
    b
}

fn gen_raw(rng: &mut Rng) -> String {
    let max = *rng.pick(&[8usize, 32, 128, 512, 2048, MAX_LEN]);
    let n = rng.below(max + 1);
    let style = rng.below(4);
    let mut v = Vec::with_capacity(n);
    for _ in 0..n {
        let b = match style {
            0 => rng.below(256) as u8,
            1 => 0x20 + rng.below(0x5f) as u8,
            2 => {
                if rng.chance(1, 6) {
                    rng.below(256) as u8
                } else {
                    0x20 + rng.below(0x5f) as u8
                }
            }
            _ => *rng.pick(b"(){}[]\"'!&|=<>+-*/%.,;:?$\\ \n\tabx019_\xc3\xa9\xe4\xb8\xf0\x9f\x98\x80"),
        };
        v.push(b);
    }
    clip(&String::from_utf8_lossy(&v), MAX_LEN)
}

fn soup(rng: &mut Rng, max_tokens: usize) -> String {
    let n = 1 + rng.below(max_tokens);
    let sep = *rng.pick(&["", " ", " ", "\n"]);
    let mut s = String::new();
    for i in 0..n {
        if i > 0 {
            s.push_str(sep);
        }
        let t: &str = *rng.pick(TOKENS);
        s.push_str(t);
        if s.len() > MAX_LEN {
            break;
        }
    }
    s
}

fn gen_soup(rng: &mut Rng) -> String {
    let m = *rng.pick(&[4usize, 4, 12, 12, 12, 40, 40, 40, 100, 200, 900]);
    clip(&soup(rng, m), MAX_LEN)
}

/// Valid frames of every input language with token soup in the slots: reaches the value, action,
/// attribute and condition parsers far more often than plain soup.
fn gen_template(rng: &mut Rng) -> String {
    let a = soup(rng, 6);
    let b = soup(rng, 6);
    let c = soup(rng, 4);
    const UNITS: &[&str] = &["ms", "sec", "seconds", "min", "minutes", "hour", "hours", "days", "m", ""];
    let s = match rng.below(23) {
        // every numeric attribute of the query language filled from the hostile-number table
        19 => format!(
            "query \"Q\" {{\n goal: a == {}\n strategy: {}\n max-depth: {}\n max-solutions: {}\n enable-memoization: {}\n}}",
            rng.pick(NUMS),
            rng.pick(&["depth-first", "breadth-first", "iterative", &c]),
            rng.pick(NUMS),
            rng.pick(NUMS),
            rng.pick(&["true", "false", "1", &c])
        ),
        20 => format!("query \"Q\" {{ goal: a == 1 max-depth:{} max-solutions:{} }}\nquery \"P\" {{ goal: b == 2\n max-depth: {}\n}}", rng.pick(NUMS), rng.pick(NUMS), rng.pick(NUMS)),
        // module graphs in which many equal-length import paths lead to the same module
        // (layers of `width` modules, each importing every module of the layer below, declared
        // bottom-up so that every import is valid): plain text for a parser, a path explosion for
        // any graph walk that forgets what it has seen
        21 | 22 => {
            let width = 2 + rng.below(2);
            let layers = *rng.pick(&[3usize, 6, 12, 18, 24, 28, 32]);
            let kind = *rng.pick(&["(rules *)", "(rules *)", "(all)", "(templates *)"]);
            let mut t = String::new();
            for w in 0..width {
                t.push_str(&format!("defmodule M{}_{} {{\n export: all\n}}\n", layers, w));
            }
            'outer: for l in (1..layers).rev() {
                for w in 0..width {
                    let mut block = format!("defmodule M{}_{} {{\n", l, w);
                    for v in 0..width {
                        block.push_str(&format!(" import: M{}_{} {}\n", l + 1, v, kind));
                    }
                    block.push_str("}\n");
                    if t.len() + block.len() + 60 > MAX_LEN {
                        break 'outer;
                    }
                    t.push_str(&block);
                }
            }
            t.push_str("rule \"Top\" { when a.b > 1 then a.c = true; }\n");
            t
        }
        16 => format!(
            "e: T from stream(\"s\") over window({} {}, {})",
            rng.pick(NUMS),
            rng.pick(UNITS),
            rng.pick(&["sliding", "tumbling", "session", &c])
        ),
        17 => format!(
            "rule \"R\" {{ when e: T from stream(\"s\") over window({} {}, {}) && e.x == {} then y = 1; }}",
            rng.pick(NUMS),
            rng.pick(UNITS),
            rng.pick(&["sliding", "tumbling"]),
            a
        ),
        18 => format!(
            "rule \"R\" salience {} {{ when x == {} then ScheduleRule({}, \"n\"); y = {} {} {}; }}",
            rng.pick(NUMS),
            rng.pick(NUMS),
            rng.pick(NUMS),
            rng.pick(NUMS),
            rng.pick(&["+", "-", "*", "/", "%"]),
            rng.pick(NUMS)
        ),
        0 => format!("rule R {{ when {} then y = 1; }}", a),
        1 => format!("rule \"R\" {{ when x == {} then y = 1; }}", a),
        2 => format!("rule \"R\" {{ when x == 1 then {}; }}", a),
        3 => format!("rule \"R\" {{ when x == 1 then y = {}; }}", a),
        4 => format!("rule \"R\" {{ when x == 1 then f({}); }}", a),
        5 => format!("rule \"{}\" {} {{ when {} then {} }}", c, a, b, soup(rng, 6)),
        6 => format!("rule \"R\" salience {} {} {{ when a.b > 1 then a.b = 2; }}", c, a),
        7 => format!("defmodule {} {{ export: {} import: {} }}\nrule \"R\" {{ when x == 1 then y = 2; }}", c, a, b),
        8 => format!("query \"{}\" {{\n goal: {}\n {}\n}}", c, a, b),
        9 => format!("query \"Q\" {{\n goal: a == 1\n on-success: {{ {} }}\n when: {}\n}}", a, b),
        10 => format!("{}({}) WHERE {}", rng.pick(&["count", "sum", "avg", "min", "max", "first", "x"]), c, a),
        11 => format!("({} OR {})", a, b),
        12 => format!("{} WHERE {} AND ({} WHERE {})", c, a, b, soup(rng, 3)),
        13 => format!("e: T from stream(\"{}\") over window({}, {})", c, a, b),
        14 => format!("{}: {} from stream({}) {} && e: T from stream(\"s\")", c, a, b, soup(rng, 4)),
        _ => format!("rule \"R\" {{ when {}({}) {} then $o.m({}); }}", rng.pick(&["exists", "forall", "accumulate", "test", "!", "$x : T", "f"]), a, b, c),
    };
    clip(&s, MAX_LEN)
}

const NUMS: &[&str] = &[
    "0", "1", "5", "00", "307445734561825861", "999999999999999999", "5124095576030431", "18446744073709551615",
    "18446744073709551616", "9223372036854775807", "4294967296", "-1", "1.5", "99999999999999999999999",
    "-9223372036854775808", "2147483648", "1e308", "0.0", ".5", "3.",
    // decimal amounts whose value leaves u64 seconds / f64 once a unit factor is applied
    "18446744073709551616.0", "5124095576030432.5", "307445734561825861.25", "99999999999999999999999.9", "18446744073709551615.999",
    "1e400", "1.7976931348623157e308", "0.000000000000000000000000000001", "-0.5", "1.5.5",
    "99999999999999999999999999999999999999999999999999999999999999999999999999999999999999999999999999999999999999999999999999999999999999999999999999999999999999999999999999999999999999999999999999999999999999999999999999999999999999999999999999999999999999999999999999999999999999999999999999999999999999999999999999999999.5",
];

/// Arithmetic / logical expressions over the keys of the small fact store: well-formed trees of
/// depth <= 4 (so that the evaluator and the expression parsers actually compute something), one in
/// four with a hostile edit. Only the four expression calls are run on these.
fn gen_expression(rng: &mut Rng) -> String {
    fn atom(rng: &mut Rng) -> String {
        const KEYS: &[&str] = &[
            "a", "b", "c", "x", "s", "n", "t", "z", "big", "User.Age", "User.Name", "Order.quantity",
            "Order.price", "Customer.firstName", "Customer.age", "arr", "missing", "Missing.field", "?v",
        ];
        const STRS: &[&str] = &[
            "\"text\"", "'q'", "\"12\"", "\"\"", "\"a b\"", "\"1+2\"", "'\u{e9}'", "\"\u{1f600}\"", "true", "false", "null",
            "\"\\uD83D\\uDE00\"", "\"\\uD800\"", "\"\\u00e9 \\uDFFF\"", "\"\\u12\"", "\"a\\\"b\"", "\"\\n\"",
        ];
        match rng.below(10) {
            0..=4 => rng.pick(KEYS).to_string(),
            5..=7 => rng.pick(NUMS).to_string(),
            _ => rng.pick(STRS).to_string(),
        }
    }
    fn tree(rng: &mut Rng, depth: usize, logical: bool) -> String {
        if depth == 0 || rng.chance(1, 4) {
            return atom(rng);
        }
        let sp = if rng.chance(2, 3) { " " } else { "" };
        let ops: &[&str] = if logical {
            &["+", "-", "*", "/", "%", "==", "!=", ">=", "<=", ">", "<", "&&", "||"]
        } else {
            &["+", "-", "*", "/", "%"]
        };
        let l = tree(rng, depth - 1, logical);
        let r = tree(rng, depth - 1, logical);
        let e = format!("{}{}{}{}{}", l, sp, rng.pick(ops), sp, r);
        match rng.below(8) {
            0 | 1 => format!("({})", e),
            2 if logical => format!("!({})", e),
            3 => format!("-{}", e),
            _ => e,
        }
    }
    let logical = rng.chance(1, 3);
    let depth = 1 + rng.below(4);
    let mut s = tree(rng, depth, logical);
    if logical && rng.chance(1, 6) {
        s = format!("NOT {}", s);
    }
    if rng.chance(1, 4) {
        let mut cs: Vec<char> = s.chars().collect();
        let bs = token_boundaries(&cs);
        let p = if bs.is_empty() { 0 } else { *rng.pick(&bs) };
        match rng.below(4) {
            0 => cs.insert(p.min(cs.len()), *rng.pick(HOSTILE_CHARS)),
            1 => {
                if !cs.is_empty() {
                    let k = rng.below(cs.len());
                    cs.remove(k);
                }
            }
            2 => cs.insert(p.min(cs.len()), *rng.pick(&['(', ')', '"', '\'', '+', '-', '*', '/', '%', '.', ' '])),
            _ => cs.truncate(p),
        }
        s = cs.iter().collect();
    }
    clip(&s, MAX_LEN)
}

/// Stream patterns and joins from their grammar, with hostile numbers/units and small defects.
/// Only the two stream-pattern calls are run on these (the rule parsers see stream patterns
/// through the template generator).
fn gen_stream(rng: &mut Rng) -> String {
    const UNITS: &[&str] = &["ms", "milliseconds", "sec", "seconds", "min", "minutes", "hour", "hours", "min", "sec", "days", "m", ""];
    fn one(rng: &mut Rng) -> String {
        let var = *rng.pick(&["e", "login", "click_1", "ev2", "p", "purchase", "\u{e9}v", "_", "9x", ""]);
        let ty = *rng.pick(&["", "LoginEvent", "T", "ClickEvent", "Purchase_2", "from", "\u{4e2d}Type", "A.B"]);
        let name = *rng.pick(&["logins", "user-events", "clicks", "s", "sensors.temp", "", "a\"b", "\u{1f600}", "s p a c e"]);
        let ws = *rng.pick(&[" ", " ", "  ", "\n", "\t", ""]);
        let mut s = format!("{}:{}{}{}from{}stream(\"{}\")", var, ws, ty, if ty.is_empty() { "" } else { " " }, ws, name);
        if rng.chance(2, 3) {
            s.push_str(&format!(
                "{}over{}window({}{}{},{}{})",
                ws,
                ws,
                rng.pick(NUMS),
                rng.pick(&[" ", " ", "", "  "]),
                rng.pick(UNITS),
                ws,
                rng.pick(&["sliding", "tumbling", "sliding", "tumbling", "session", "Sliding", ""])
            ));
        }
        s
    }
    let mut s = one(rng);
    if rng.chance(1, 2) {
        s = format!("{}{}{}{}", s, rng.pick(&[" && ", "&&", " &&\n    ", " & ", " || "]), one(rng), if rng.chance(1, 4) { " && a.x == b.x" } else { "" });
    }
    if rng.chance(1, 6) {
        let mut cs: Vec<char> = s.chars().collect();
        let bs = token_boundaries(&cs);
        let p = if bs.is_empty() { 0 } else { *rng.pick(&bs) };
        if rng.bool() {
            cs.insert(p.min(cs.len()), *rng.pick(HOSTILE_CHARS));
        } else {
            cs.truncate(p);
        }
        s = cs.iter().collect();
    }
    clip(&s, MAX_LEN)
}

fn pick_seed<'a>(rng: &mut Rng, c: &'a Corpus) -> &'a str {
    // half of the time one of the short hand-written seeds (every language is represented there)
    if rng.chance(1, 3) {
        &rng.pick(&c.embedded).1
    } else {
        &rng.pick(&c.seeds).1
    }
}

fn mutate_once(rng: &mut Rng, cs: &mut Vec<char>, c: &Corpus) {
    let n = cs.len();
    let pos = |rng: &mut Rng, n: usize| if n == 0 { 0 } else { rng.below(n + 1) };
    match rng.below(12) {
        0 => {
            // splice a piece of another valid text
            let other: Vec<char> = pick_seed(rng, c).chars().collect();
            if !other.is_empty() {
                let a = rng.below(other.len());
                let b = (a + 1 + rng.below(other.len().min(200))).min(other.len());
                let p = pos(rng, n);
                cs.splice(p..p, other[a..b].iter().copied());
            }
        }
        1 => {
            // truncate
            let p = pos(rng, n);
            cs.truncate(p);
        }
        2 => {
            // cut the head
            let p = pos(rng, n);
            cs.drain(..p);
        }
        3 => {
            // duplicate a range
            if n > 0 {
                let a = rng.below(n);
                let b = (a + 1 + rng.below(n.min(300))).min(n);
                let piece: Vec<char> = cs[a..b].to_vec();
                let times = 1 + rng.below(3);
                for _ in 0..times {
                    cs.splice(b..b, piece.iter().copied());
                }
            }
        }
        4 => {
            // delete a range
            if n > 0 {
                let a = rng.below(n);
                let b = (a + 1 + rng.below(n.min(60))).min(n);
                cs.drain(a..b);
            }
        }
        5 => {
            // swap two ranges
            if n > 4 {
                let a = rng.below(n / 2);
                let la = 1 + rng.below((n / 2 - a).min(40).max(1));
                let b = n / 2 + rng.below(n - n / 2);
                let lb = (1 + rng.below(40)).min(n - b);
                let x: Vec<char> = cs[a..a + la].to_vec();
                let y: Vec<char> = cs[b..b + lb].to_vec();
                cs.splice(b..b + lb, x);
                cs.splice(a..a + la, y);
            }
        }
        6 | 7 => {
            // multi-byte / control character at a token boundary
            let bs = token_boundaries(cs);
            let p = if bs.is_empty() { 0 } else { *rng.pick(&bs) };
            let ch = *rng.pick(HOSTILE_CHARS);
            cs.insert(p.min(cs.len()), ch);
        }
        8 => {
            // replace one character
            if n > 0 {
                let p = rng.below(n);
                cs[p] = if rng.bool() {
                    *rng.pick(HOSTILE_CHARS)
                } else {
                    *rng.pick(&['(', ')', '{', '}', '[', ']', '"', '\'', '!', '&', '|', '=', '+', '-', ';', ',', '.', ':', ' ', '\n', '0', '9', 'a'])
                };
            }
        }
        9 => {
            // insert a token at a token boundary
            let bs = token_boundaries(cs);
            let p = if bs.is_empty() { 0 } else { *rng.pick(&bs) };
            let t: Vec<char> = rng.pick(TOKENS).chars().collect();
            cs.splice(p.min(cs.len())..p.min(cs.len()), t);
        }
        10 => {
            // delete one token
            let bs = token_boundaries(cs);
            if bs.len() >= 2 {
                let k = rng.below(bs.len() - 1);
                cs.drain(bs[k]..bs[k + 1]);
            }
        }
        _ => {
            // a short prefix chain in the middle of valid text
            let unit: Vec<char> = rng.pick(CHAIN_UNITS).chars().collect();
            let reps = 1 + rng.below(24);
            let bs = token_boundaries(cs);
            let p = if bs.is_empty() { 0 } else { *rng.pick(&bs) };
            let mut piece = Vec::new();
            for _ in 0..reps {
                piece.extend(unit.iter().copied());
            }
            cs.splice(p.min(cs.len())..p.min(cs.len()), piece);
        }
    }
}

fn gen_mutation(rng: &mut Rng, c: &Corpus) -> String {
    let mut cs: Vec<char> = pick_seed(rng, c).chars().collect();
    let k = 1 + rng.below(4);
    for _ in 0..k {
        mutate_once(rng, &mut cs, c);
    }
    clip(&cs.iter().collect::<String>(), MAX_LEN)
}

/// Balanced or deliberately unbalanced bracket nesting up to depth 32 around a random token span.
/// Well-formed logical expressions nested one level per term, an operator at EVERY level and
/// string / number / field leaves: `((((a == "x" || a == "y") || a == "z") ...`, left- or
/// right-leaning, 4..=40 levels, alone or as the condition of a rule / goal of a query. Plain text
/// for a recursive-descent reader; a reader that re-parses a sub-expression per level doubles its
/// work with every level.
fn gen_nested_logic(rng: &mut Rng) -> String {
    let depth = *rng.pick(&[4usize, 8, 12, 16, 20, 24, 28, 32, 40]);
    let op = *rng.pick(&["||", "&&", "||", " OR ", " AND "]);
    let mixed = rng.chance(1, 3);
    let leaf = |rng: &mut Rng, i: usize| -> String {
        let f = *rng.pick(&["a", "User.name", "Order.status", "x"]);
        match rng.below(4) {
            0 | 1 => format!("{} == \"v{}\"", f, i),
            2 => format!("{} != 'w{}'", f, i),
            _ => format!("{} > {}", f, i),
        }
    };
    let left = rng.bool();
    let mut e = leaf(rng, 0);
    for i in 1..depth {
        let o = if mixed && i % 2 == 0 { if op.contains('|') || op.contains("OR") { "&&" } else { "||" } } else { op };
        let l = leaf(rng, i);
        e = if left { format!("({} {} {})", e, o, l) } else { format!("({} {} {})", l, o, e) };
        if rng.chance(1, 10) {
            e = format!("!{}", e);
        }
    }
    let s = match rng.below(5) {
        0 => e,
        1 | 2 => format!("rule \"R\" {{ when {} then y = 1; }}", e),
        3 => format!("query \"Q\" {{\n goal: {}\n}}", e),
        _ => format!("rule \"R\" {{ when x == 1 && {} then Log(\"m\"); }}", e),
    };
    clip(&s, MAX_LEN)
}

fn gen_nesting(rng: &mut Rng, c: &Corpus) -> String {
    if rng.chance(1, 3) {
        return gen_nested_logic(rng);
    }
    let mut cs: Vec<char> = pick_seed(rng, c).chars().collect();
    let bs = token_boundaries(&cs);
    if bs.len() < 2 {
        return cs.iter().collect();
    }
    let rounds = 1 + rng.below(2);
    for _ in 0..rounds {
        let bs = token_boundaries(&cs);
        let i = rng.below(bs.len());
        let j = (i + rng.below(8)).min(bs.len() - 1);
        let depth = 1 + rng.below(32);
        let (o, cl) = *rng.pick(&[('(', ')'), ('(', ')'), ('[', ']'), ('{', '}')]);
        let close_depth = match rng.below(4) {
            0 => 0,
            1 => rng.below(depth + 1),
            _ => depth,
        };
        let a = bs[i];
        let b = bs[j];
        let closes: Vec<char> = std::iter::repeat(cl).take(close_depth).collect();
        let opens: Vec<char> = std::iter::repeat(o).take(depth).collect();
        cs.splice(b..b, closes);
        cs.splice(a..a, opens);
    }
    clip(&cs.iter().collect::<String>(), MAX_LEN)
}

const CHAIN_UNITS: &[&str] = &[
    "!", "(", "[", "\"", "1+", "a.", "{", "-", "NOT ", "!(", ")", "'", "a&&", "x||", "exists(", "\\", "$", "?", "a,", ";",
    "\u{e9}", "1 ", "a=", "//",
];

/// Contexts a chain is embedded in: `{}` is replaced by the chain.
const CHAIN_CONTEXTS: &[&str] = &[
    "{}",
    "{}x == 1",
    "{}1",
    "x == {}1",
    "rule R { when {}x == 1 then y = 1; }",
    "rule R { when x == {}1 then y = 1; }",
    "rule R { when x == 1 then y = {}1; }",
    "rule R { when x == 1 then f({}); }",
    "rule R { when x == 1 then {}y = 1; }",
    "rule \"{}\" { when x == 1 then y = 1; }",
    "rule R salience {}1 { when x == 1 then y = 1; }",
    "rule R {} { when x == 1 then y = 1; }",
    "defmodule M { export: {} }\nrule R { when x == 1 then y = 1; }",
    "query \"Q\" {\n goal: {}x == 1\n}",
    "query \"Q\" {\n goal: x == 1\n on-success: { {} }\n}",
    "query \"{}\" {\n goal: x == 1\n}",
    "count({}?x) WHERE p(?x)",
    "count(?x) WHERE {}p(?x)",
    "({} OR b)",
    "g(?x) WHERE {}p(?x) AND (q(?x) WHERE r(?x))",
    "e: T from stream(\"{}\")",
    "e: T from stream(\"s\") over window({}5 min, sliding)",
    "{}e: T from stream(\"s\")",
];

/// `reps == 0` means "as many as fit in 4 KiB".
fn chain_input(unit: &str, ctx: &str, reps: usize) -> String {
    let room = MAX_LEN.saturating_sub(ctx.len() - 2);
    let max_reps = room / unit.len();
    let r = if reps == 0 { max_reps } else { reps.min(max_reps) };
    ctx.replacen("{}", &unit.repeat(r), 1)
}

fn gen_chain_short(rng: &mut Rng) -> String {
    let unit = *rng.pick(CHAIN_UNITS);
    let ctx = *rng.pick(CHAIN_CONTEXTS);
    let reps = *rng.pick(&[2usize, 3, 5, 8, 16, 31, 32, 33, 48, 64]);
    chain_input(unit, ctx, reps)
}

// ------------------------------------------------------------------------------------------
// exploration
// ------------------------------------------------------------------------------------------

struct FoundPanic {
    entry: usize,
    rec: PanicRec,
    input: Arc<String>,
    profiles: BTreeSet<&'static str>,
    gens: BTreeSet<&'static str>,
    count: u64,
}

struct IsoResult {
    input: Arc<String>,
    entry: usize,
    gen: &'static str,
    /// (profile, result, cause of a death)
    outs: Vec<(&'static str, Option<PairOut>, Option<String>)>,
    /// the pair was slow in its batch, an OPEN finding's cause predicate explains it, and it was
    /// therefore not re-run under the full watchdog (verdict-neutral: see `schedule_isolated`)
    attributed: Option<String>,
    bs: BatchStats,
}

struct Shared {
    release: Bin,
    devopt: Option<Bin>,
    found: Mutex<BTreeMap<String, FoundPanic>>,
    iso: Mutex<Vec<std::thread::JoinHandle<IsoResult>>>,
    iso_count: AtomicUsize,
    iso_cap: usize,
    /// how many slow pairs explained by an open finding still get the full re-run
    attr_rerun_left: AtomicUsize,
    open_sigs: BTreeSet<String>,
    /// cpu signatures already established by an isolated re-run of THIS run: further slow pairs
    /// that the first pass attributes to the same (entry point, call site) add nothing to the verdict
    confirmed: Mutex<BTreeSet<String>>,
    sem: (Mutex<usize>, Condvar),
}

fn record_panic(sh: &Shared, e: usize, p: &PanicRec, input: &Arc<String>, profile: &'static str, gen: &'static str) {
    let sig = panic_sig(e, p);
    let mut f = sh.found.lock().unwrap_or_else(|x| x.into_inner());
    let ent = f.entry(sig).or_insert_with(|| FoundPanic {
        entry: e,
        rec: p.clone(),
        input: input.clone(),
        profiles: BTreeSet::new(),
        gens: BTreeSet::new(),
        count: 0,
    });
    ent.count += 1;
    ent.profiles.insert(profile);
    ent.gens.insert(gen);
    if (input.len(), input.as_str()) < (ent.input.len(), ent.input.as_str()) {
        ent.input = input.clone();
        ent.entry = e;
        ent.rec = p.clone();
    }
}

/// A pair exceeded the first pass (`slow`) or killed its batch child: judge it alone under the
/// full watchdog, in the background. A SLOW pair whose cause predicate (verified by its
/// counterfactual) is that of an OPEN cpu finding of the same entry point is not re-run beyond a
/// small quota: whether it ends below or above 120 s, the verdict of the run is the same (it is
/// either no violation or a hit of that open finding); the pinned witness of the finding itself is
/// always re-run in full.
fn schedule_isolated(sh: &Arc<Shared>, st: &mut Stats, input: Arc<String>, e: usize, gen: &'static str, first: &'static str, death: DeathRec) {
    let slow = death.cpu_limit_hit();
    let sh2 = sh.clone();
    let over_cap = sh.iso_count.load(Ordering::SeqCst) >= sh.iso_cap;
    if over_cap {
        st.inconclusive(format!(
            "more than {} (input, entry point) pairs needed a re-run under the full watchdog; the surplus was not judged",
            sh.iso_cap
        ));
        return;
    }
    let h = std::thread::spawn(move || {
        let mut bs = BatchStats::default();
        let mut outs = Vec::new();
        let mut bins: Vec<&Bin> = Vec::new();
        if first == "release" {
            bins.push(&sh2.release);
        }
        if let Some(d) = &sh2.devopt {
            bins.push(d);
        }
        if slow {
            if let Some(b) = bins.first() {
                let cause = explain(b, &input, e, &death, &mut bs);
                let sig = format!("C05|cpu>120s|{}|{}", sig_entry(e), cause);
                if cause != "unexplained" && sh2.confirmed.lock().map(|c| c.contains(&sig)).unwrap_or(false) {
                    return IsoResult { input, entry: e, gen, outs, attributed: Some(sig), bs };
                }
                if cause != "unexplained" && sh2.open_sigs.contains(&sig) {
                    let quota = sh2
                        .attr_rerun_left
                        .fetch_update(Ordering::SeqCst, Ordering::SeqCst, |x| x.checked_sub(1))
                        .is_ok();
                    if !quota {
                        return IsoResult { input, entry: e, gen, outs, attributed: Some(sig), bs };
                    }
                }
            }
        }
        if sh2.iso_count.fetch_add(1, Ordering::SeqCst) >= sh2.iso_cap {
            return IsoResult { input, entry: e, gen, outs, attributed: Some("over-cap".into()), bs };
        }
        {
            let (m, cv) = &sh2.sem;
            let mut free = m.lock().unwrap_or_else(|x| x.into_inner());
            while *free == 0 {
                free = cv.wait(free).unwrap_or_else(|x| x.into_inner());
            }
            *free -= 1;
        }
        for b in bins {
            let r = run_isolated(b, &input, e, &mut bs);
            let mut cause = None;
            let mut died = false;
            if let Some(PairOut { pr: Pr::Died(d), .. }) = &r {
                died = true;
                if !d.external_kill() {
                    cause = Some(explain(b, &input, e, d, &mut bs));
                }
            }
            if let (Some(c), Some(PairOut { pr: Pr::Died(d), .. })) = (&cause, &r) {
                if d.cpu_limit_hit() && c != "unexplained" {
                    if let Ok(mut set) = sh2.confirmed.lock() {
                        set.insert(format!("C05|cpu>120s|{}|{}", sig_entry(e), c));
                    }
                }
            }
            outs.push((b.name, r, cause));
            if died {
                // the signature carries no profile: the other build cannot add anything
                break;
            }
        }
        {
            let (m, cv) = &sh2.sem;
            *m.lock().unwrap_or_else(|x| x.into_inner()) += 1;
            cv.notify_one();
        }
        IsoResult { input, entry: e, gen, outs, attributed: None, bs }
    });
    sh.iso.lock().unwrap_or_else(|x| x.into_inner()).push(h);
}

fn note_batch_stats(st: &mut Stats, bs: BatchStats) {
    st.add("children_spawned", bs.children);
    st.add("children_died", bs.died);
    for e in bs.harness_errors {
        st.inconclusive(format!("harness: {}", e));
    }
}

/// Run one batch in both builds and digest the results.
fn process_batch(sh: &Arc<Shared>, st: &mut Stats, items: &[(u16, Arc<String>)], gens: &[&'static str]) {
    if items.is_empty() {
        return;
    }
    let mut bs = BatchStats::default();
    let rel = run_batch(&sh.release, items, FIRST_PASS_S, 3600, &mut bs);
    // pairs that were slow / fatal in release go to the isolated pipeline (which also covers devopt)
    let mut dev_items: Vec<(u16, Arc<String>)> = items.to_vec();
    for (i, outs) in rel.iter().enumerate() {
        for o in outs {
            if matches!(o.pr, Pr::Died(_)) {
                dev_items[i].0 &= !(1 << o.entry);
            }
        }
    }
    let dev = match &sh.devopt {
        Some(d) => Some(run_batch(d, &dev_items, FIRST_PASS_S, 3600, &mut bs)),
        None => None,
    };
    note_batch_stats(st, bs);
    for (i, (_, input)) in items.iter().enumerate() {
        st.eval();
        st.count(&format!("inputs::{}", gens[i]));
        st.add("input_bytes_total", input.len() as u64);
        let mut engaged = false;
        for (profile, res) in [("release", Some(&rel)), ("devopt", dev.as_ref())] {
            let Some(res) = res else { continue };
            for o in &res[i] {
                let en = ENTRIES[o.entry];
                st.count(&format!("pairs::{}", profile));
                st.max(&format!("max::cpu_ms::{}::{}", profile, en), o.cpu_us / 1000);
                st.add(&format!("cpu_ms_by_generator::{}", gens[i]), o.cpu_us / 1000);
                match &o.pr {
                    Pr::Val(code) => {
                        let k = match code {
                            b'O' => {
                                engaged = true;
                                "value"
                            }
                            b'o' => "empty-value",
                            _ => "error",
                        };
                        if profile == "release" {
                            st.count(&format!("result::{}::{}", en, k));
                        }
                    }
                    Pr::Panic(p) => {
                        engaged = true;
                        st.count(&format!("result::{}::panic[{}]", en, profile));
                        record_panic(sh, o.entry, p, input, profile, gens[i]);
                    }
                    Pr::Died(d) => {
                        engaged = true;
                        if d.cpu_limit_hit() {
                            st.count(&format!("first_pass_exceeded::{}::{}", profile, en));
                            st.add(&format!("cpu_ms_by_generator::{}", gens[i]), FIRST_PASS_S * 1000);
                            if let Some((f, r)) = &d.site {
                                st.count(&format!("slow_call_sites::{}{}", f, if *r { " -> rexile" } else { "" }));
                            }
                        } else {
                            st.count(&format!("batch_child_killed_by_input::{}::{}", profile, en));
                        }
                        schedule_isolated(sh, st, input.clone(), o.entry, gens[i], profile, d.clone());
                    }
                }
            }
        }
        if engaged {
            st.nontrivial(hash_of(input.as_str()));
            if gens[i] == "mutation" || gens[i] == "template-soup" {
                st.sample(|| json!({"generator": gens[i], "input": clip(input, 300)}));
            }
        }
    }
}

struct Batcher<'a> {
    sh: &'a Arc<Shared>,
    items: Vec<(u16, Arc<String>)>,
    gens: Vec<&'static str>,
    size: usize,
}

impl<'a> Batcher<'a> {
    fn push(&mut self, st: &mut Stats, mask: u16, s: String, gen: &'static str) {
        debug_assert!(s.len() <= MAX_LEN);
        self.items.push((mask, Arc::new(s)));
        self.gens.push(gen);
        if self.items.len() >= self.size {
            self.flush(st);
        }
    }
    fn flush(&mut self, st: &mut Stats) {
        process_batch(self.sh, st, &self.items, &self.gens);
        self.items.clear();
        self.gens.clear();
    }
}

fn gen_enabled(name: &str) -> bool {
    match std::env::var("VERIF_C05_GENS") {
        Ok(v) if !v.is_empty() => v.split(',').any(|g| g == name),
        _ => true,
    }
}

/// Shrink a panic witness in a child of the build that showed it; returns the (possibly partly)
/// shrunk input, or the original when the child could not reproduce.
fn shrink_panic(bin: &Bin, input: &str, e: usize, rec: &PanicRec, bs: &mut BatchStats) -> String {
    let lim = Limits {
        cpu_s: 40,
        as_bytes: Some(4 << 30),
        wall_s: 1200.0,
        stack_bytes: Some(STACK_BYTES),
    };
    let args = vec![
        "shrink".to_string(),
        e.to_string(),
        hex(rec.class.as_bytes()),
        hex(rec.frame.as_bytes()),
    ];
    let Ok(out) = spawn_worker(bin, &args, hex(input.as_bytes()).as_bytes(), &lim) else {
        return input.to_string();
    };
    bs.children += 1;
    if !out.ok() {
        bs.died += 1;
    }
    let text = String::from_utf8_lossy(&out.stdout);
    let mut best = input.to_string();
    for l in text.lines() {
        if let Some(h) = l.strip_prefix("M ") {
            if let Some(s) = unhex(h.trim()).and_then(|b| String::from_utf8(b).ok()) {
                best = s;
            }
        }
    }
    best
}

/// Delta-debug an input that kills its process quickly (stack overflow, abort): one child per
/// candidate, first-pass CPU budget; a candidate counts only if it dies the same way.
fn shrink_death(bin: &Bin, input: &str, e: usize, want_overflow: bool, bs: &mut BatchStats) -> String {
    let mut fails = |cs: &[char]| -> bool {
        let s: String = cs.iter().collect();
        let r = run_batch(bin, &[(1u16 << e, Arc::new(s))], FIRST_PASS_S, 3600, bs);
        match r.first().and_then(|v| v.first()).map(|p| &p.pr) {
            Some(Pr::Died(d)) => !d.cpu_limit_hit() && !d.external_kill() && d.overflow_msg == want_overflow,
            _ => false,
        }
    };
    let mut cur: Vec<char> = input.chars().collect();
    let mut budget = 260usize;
    let mut chunk = (cur.len() / 2).max(1);
    loop {
        let mut i = 0;
        let mut progressed = false;
        while i < cur.len() && budget > 0 {
            let end = (i + chunk).min(cur.len());
            let mut cand = cur.clone();
            cand.drain(i..end);
            budget -= 1;
            if fails(&cand) {
                cur = cand;
                progressed = true;
            } else {
                i += chunk;
            }
        }
        if budget == 0 || (chunk == 1 && !progressed) {
            break;
        }
        if chunk > 1 {
            chunk = (chunk / 2).max(1);
        }
    }
    cur.iter().collect()
}

fn explore_impl(cli: &Cli, st: &mut Stats) {
    let Some(release) = release_bin() else {
        st.inconclusive("cannot locate the running executable");
        return;
    };
    let devopt = match devopt_bin() {
        Ok(b) => Some(b),
        Err(why) => {
            st.inconclusive(format!(
                "devopt profile (debug assertions + overflow checks) not exercised: {}",
                why
            ));
            None
        }
    };
    let open_sigs: BTreeSet<String> = load_findings(&cli.root)
        .into_iter()
        .filter(|f| f.open && f.property == "C05")
        .map(|f| f.sig)
        .collect();
    let corpus = load_corpus();
    st.add("corpus_seeds", corpus.seeds.len() as u64);
    st.add("corpus_grl_files_read", corpus.files_read as u64);
    if corpus.files_read == 0 {
        st.notes.push("no .grl file could be read from the repository; mutation used the embedded seeds only".into());
    }
    let quick = cli.tier == Tier::Quick;
    let sh = Arc::new(Shared {
        release,
        devopt,
        found: Mutex::new(BTreeMap::new()),
        iso: Mutex::new(Vec::new()),
        iso_count: AtomicUsize::new(0),
        iso_cap: if quick { 24 } else { 160 },
        attr_rerun_left: AtomicUsize::new(if quick { 0 } else { 6 }),
        open_sigs: open_sigs.clone(),
        confirmed: Mutex::new(BTreeSet::new()),
        sem: (Mutex::new((cli.threads / 2).max(2)), Condvar::new()),
    });

    // ---- systematic work lists (deterministic, independent of the seed except where said) ----
    let mut systematic: Vec<(u16, String, &'static str)> = Vec::new();
    // (a) full-length prefix chains: every unit x every context
    if gen_enabled("chain-full-length") {
        for (ui, unit) in CHAIN_UNITS.iter().enumerate() {
            for (ci, ctx) in CHAIN_CONTEXTS.iter().enumerate() {
                // quick: a sixth of the (unit, context) grid per run, rotated by the seed;
                // the grid is covered completely in the thorough tier
                if quick && (ui * 5 + ci + cli.seed as usize) % 6 != 0 {
                    continue;
                }
                systematic.push((ALL_MASK, chain_input(unit, ctx, 0), "chain-full-length"));
            }
        }
    }
    // (b) a multi-byte character at every token boundary of the hand-written seeds
    //     (thorough: also of the shorter corpus texts)
    if gen_enabled("multibyte-at-token-boundary") {
        let mut texts: Vec<&str> = corpus.embedded.iter().map(|(_, s)| s.as_str()).collect();
        if !quick {
            for (_, s) in corpus.seeds.iter().filter(|(_, s)| s.len() <= 400).take(150) {
                texts.push(s);
            }
        }
        for (ti, t) in texts.iter().enumerate() {
            let cs: Vec<char> = t.chars().collect();
            for (bi, b) in token_boundaries(&cs).into_iter().enumerate() {
                for (ki, ch) in BOUNDARY_CHARS.iter().enumerate() {
                    // quick: one of the four characters per boundary, rotating; thorough: all four
                    if quick && (ti + bi + cli.seed as usize) % BOUNDARY_CHARS.len() != ki {
                        continue;
                    }
                    let mut v = cs.clone();
                    v.insert(b, *ch);
                    systematic.push((ALL_MASK, clip(&v.iter().collect::<String>(), MAX_LEN), "multibyte-at-token-boundary"));
                }
            }
        }
    }
    // (c) truncation at every character boundary
    if gen_enabled("truncation") {
        let mut rng = Rng::derive(cli.seed, 9001);
        let mut texts: Vec<&str> = Vec::new();
        if quick {
            for _ in 0..5 {
                texts.push(&rng.pick(&corpus.embedded).1);
            }
        } else {
            texts.extend(corpus.embedded.iter().map(|(_, s)| s.as_str()));
            for _ in 0..60 {
                let s = &rng.pick(&corpus.seeds).1;
                if s.len() <= 1500 {
                    texts.push(s);
                }
            }
        }
        for t in texts {
            for (i, _) in t.char_indices().skip(1) {
                systematic.push((ALL_MASK, t[..i].to_string(), "truncation"));
            }
        }
    }
    st.add("systematic_inputs", systematic.len() as u64);

    // ---- run: work units (slices of the systematic list, then seeded generator streams) are pulled
    //      from one queue by the worker threads; the SET of inputs depends on the seed only ----
    let total = |q: u64, t: u64| cli.n(q, t) as usize;
    const EXPR_MASK: u16 = 1 << 3 | 1 << 4 | 1 << 12 | 1 << 13;
    const STREAM_MASK: u16 = 1 << 10 | 1 << 11;
    let plan: Vec<(&'static str, usize, u16)> = vec![
        ("raw-bytes", total(5_000, 100_000), ALL_MASK),
        ("token-soup", total(1_200, 12_000), ALL_MASK),
        ("template-soup", total(7_000, 100_000), ALL_MASK),
        ("mutation", total(5_000, 100_000), ALL_MASK),
        ("bracket-nesting", total(500, 8_000), ALL_MASK),
        ("chain-short", total(1_200, 20_000), ALL_MASK),
        ("expression-grammar", total(4_000, 80_000), EXPR_MASK),
        ("stream-grammar", total(2_000, 40_000), STREAM_MASK),
    ];
    let nstreams: usize = if quick { 96 } else { 768 };
    enum Work {
        Sys(usize, usize),
        Stream(usize),
    }
    let mut work: Vec<Work> = Vec::new();
    {
        // the full-length chains are the expensive ones: small slices, first in the queue
        let mut i = 0;
        while i < systematic.len() {
            let step = if systematic[i].2 == "chain-full-length" { 2 } else { 32 };
            let mut j = i;
            while j < systematic.len() && j - i < step && systematic[j].2 == systematic[i].2 {
                j += 1;
            }
            work.push(Work::Sys(i, j));
            i = j;
        }
    }
    for j in 0..nstreams {
        work.push(Work::Stream(j));
    }
    let next = AtomicUsize::new(0);
    // the pinned CPU-hang witnesses run concurrently, each pinning one core for 120 CPU-seconds
    let busy = open_sigs.iter().filter(|s| s.contains("|cpu>")).count();
    let nthreads = cli.threads.saturating_sub(busy).max(cli.threads / 2).max(1);
    st.add("worker_threads", nthreads as u64);
    let systematic = &systematic;
    let corpus = &corpus;
    let shr = &sh;
    let work = &work;
    let next = &next;
    let plan = &plan;
    shards(cli, nthreads, st, |_shard, _rng, st| {
        let mut b = Batcher {
            sh: shr,
            items: Vec::new(),
            gens: Vec::new(),
            size: 48,
        };
        loop {
            let k = next.fetch_add(1, Ordering::SeqCst);
            if k >= work.len() {
                break;
            }
            match work[k] {
                Work::Sys(i, j) => {
                    for (mask, s, g) in &systematic[i..j] {
                        b.push(st, *mask, s.clone(), g);
                    }
                    b.flush(st);
                }
                Work::Stream(j) => {
                    let mut rng = Rng::derive(cli.seed, 1000 + j as u64);
                    for (g, n, mask) in plan.iter() {
                        if !gen_enabled(g) {
                            continue;
                        }
                        // stream j gets its share of the generator's total
                        let share = n / nstreams + if j < n % nstreams { 1 } else { 0 };
                        for _ in 0..share {
                            if cli.expired() {
                                st.count("stopped_by_time_budget");
                                break;
                            }
                            let s = match *g {
                                "raw-bytes" => gen_raw(&mut rng),
                                "token-soup" => gen_soup(&mut rng),
                                "template-soup" => gen_template(&mut rng),
                                "mutation" => gen_mutation(&mut rng, corpus),
                                "bracket-nesting" => gen_nesting(&mut rng, corpus),
                                "expression-grammar" => gen_expression(&mut rng),
                                "stream-grammar" => gen_stream(&mut rng),
                                _ => gen_chain_short(&mut rng),
                            };
                            b.push(st, *mask, s, g);
                        }
                    }
                    b.flush(st);
                }
            }
        }
    });
    if !quick && gen_enabled("chain-full-length") {
        st.exhaustive.push(format!(
            "every prefix-chain unit ({}) x embedding context ({}) at the full 4 KiB length, all 14 calls, both builds",
            CHAIN_UNITS.len(),
            CHAIN_CONTEXTS.len()
        ));
    }

    st.max("max::phase_wall_s::generation_done", cli.start.elapsed().as_secs());
    // ---- isolated re-runs under the full watchdog ----
    let handles: Vec<_> = std::mem::take(&mut *sh.iso.lock().unwrap_or_else(|x| x.into_inner()));
    let mut deaths: BTreeMap<String, Violation> = BTreeMap::new();
    for h in handles {
        let Ok(r) = h.join() else {
            st.inconclusive("an isolated re-run thread died");
            continue;
        };
        note_batch_stats(st, r.bs);
        match &r.attributed {
            Some(x) if x == "over-cap" => {
                st.inconclusive(format!(
                    "more than {} (input, entry point) pairs needed a re-run under the full watchdog; the surplus was not judged",
                    sh.iso_cap
                ));
                continue;
            }
            Some(sig) => {
                if sh.open_sigs.contains(sig) {
                    st.count(&format!("slow_pairs_attributed_to_open_finding_not_rerun::{}", sig));
                } else {
                    st.count(&format!("slow_pairs_attributed_to_violation_of_this_run_not_rerun::{}", sig));
                }
                continue;
            }
            None => {}
        }
        st.count("isolated_reruns");
        for (profile, out, cause) in r.outs {
            let en = ENTRIES[r.entry];
            match out {
                None => st.inconclusive(format!("isolated re-run of {} gave no result", en)),
                Some(PairOut { pr: Pr::Val(_), cpu_us, .. }) => {
                    st.count(&format!("isolated_completed_within_watchdog::{}::{}", profile, en));
                    st.max(&format!("max::cpu_ms::{}::{}", profile, en), cpu_us / 1000);
                }
                Some(PairOut { pr: Pr::Panic(p), cpu_us, .. }) => {
                    st.max(&format!("max::cpu_ms::{}::{}", profile, en), cpu_us / 1000);
                    record_panic(&sh, r.entry, &p, &r.input, profile, r.gen);
                }
                Some(PairOut { pr: Pr::Died(d), .. }) => {
                    if d.external_kill() {
                        st.inconclusive(format!(
                            "an isolated re-run of {} was killed from outside (wall-clock back-stop or SIGKILL): {}",
                            en,
                            d.describe()
                        ));
                        continue;
                    }
                    if d.cpu_limit_hit() {
                        st.max(&format!("max::cpu_ms::{}::{}", profile, en), WATCHDOG_S * 1000);
                    }
                    let case = Case {
                        input: (*r.input).clone(),
                        entries: vec![r.entry],
                        profile: profile.to_string(),
                        gen: r.gen.to_string(),
                    };
                    let v = death_violation(&case, r.entry, &d, cause.as_deref().unwrap_or("unexplained"));
                    st.count(&format!("deaths::{}", v.sig));
                    let keep = match deaths.get(&v.sig) {
                        None => true,
                        Some(old) => v.case.to_string().len() < old.case.to_string().len(),
                    };
                    if keep {
                        deaths.insert(v.sig.clone(), v);
                    }
                }
            }
        }
    }
    // stack overflows / aborts die fast, so their witnesses can be delta-debugged with one child per
    // candidate; CPU hangs cannot (a candidate that still hangs costs 120 s)
    let deaths: Vec<Violation> = std::thread::scope(|s| {
        let hs: Vec<_> = deaths
            .into_values()
            .map(|v| {
                let sh = &sh;
                let open_sigs = &open_sigs;
                s.spawn(move || {
                    if v.sig.contains("|cpu>") || open_sigs.contains(&v.sig) {
                        return (v, BatchStats::default());
                    }
                    let mut bs = BatchStats::default();
                    let Some(c) = Case::from_json(&v.case) else { return (v, bs) };
                    let bin = if c.profile == "devopt" { sh.devopt.as_ref() } else { Some(&sh.release) };
                    let (Some(bin), Some(&e)) = (bin, c.entries.first()) else { return (v, bs) };
                    let want_overflow = v.sig.contains("|stack-overflow|");
                    let small = shrink_death(bin, &c.input, e, want_overflow, &mut bs);
                    if small.len() < c.input.len() {
                        let cand = Case { input: small, ..c.clone() };
                        let (vs, _) = run_case(&cand, false);
                        // the cause predicate is recomputed on the shrunk input; clause and entry must match
                        if let Some(nv) = vs.into_iter().find(|x| x.clause == v.clause) {
                            return (nv, bs);
                        }
                    }
                    (v, bs)
                })
            })
            .collect();
        hs.into_iter().filter_map(|h| h.join().ok()).map(|(v, _)| v).collect()
    });
    for v in deaths {
        st.violation(v);
    }

    st.max("max::phase_wall_s::isolated_reruns_done", cli.start.elapsed().as_secs());
    // ---- panics: one shrunk, re-confirmed witness per signature ----
    let found = std::mem::take(&mut *sh.found.lock().unwrap_or_else(|x| x.into_inner()));
    st.add("distinct_panic_signatures", found.len() as u64);
    let found: Vec<(String, FoundPanic)> = found.into_iter().collect();
    let shrunk: Vec<(Violation, BatchStats, u64)> = std::thread::scope(|s| {
        let mut out = Vec::new();
        for chunk in found.chunks(nthreads.max(1)) {
            let hs: Vec<_> = chunk
                .iter()
                .map(|(sig, f)| {
                    let sh = &sh;
                    let open_sigs = &open_sigs;
                    s.spawn(move || {
                        let mut bs = BatchStats::default();
                        let profile = if f.profiles.len() == 2 {
                            "both"
                        } else {
                            f.profiles.iter().next().copied().unwrap_or("release")
                        };
                        let mut case = Case {
                            input: (*f.input).clone(),
                            entries: vec![f.entry],
                            profile: profile.to_string(),
                            gen: f.gens.iter().copied().collect::<Vec<_>>().join(","),
                        };
                        let detail = format!(
                            "{} panicked [{}]: {} at {} (innermost crate frame {}); seen {} times, generators {:?}",
                            ENTRIES[f.entry], profile, f.rec.msg, f.rec.loc, f.rec.frame, f.count, f.gens
                        );
                        if !open_sigs.contains(sig) {
                            let bin = if f.profiles.contains("release") {
                                Some(&sh.release)
                            } else {
                                sh.devopt.as_ref()
                            };
                            if let Some(bin) = bin {
                                let small = shrink_panic(bin, &f.input, f.entry, &f.rec, &mut bs);
                                if small.len() < f.input.len() {
                                    let cand = Case { input: small, ..case.clone() };
                                    let (vs, _) = run_case(&cand, false);
                                    if vs.iter().any(|v| &v.sig == sig) {
                                        case = cand;
                                    }
                                }
                            }
                        }
                        (violation(&case, "no-panic", sig.clone(), detail), bs, f.count)
                    })
                })
                .collect();
            for h in hs {
                if let Ok(x) = h.join() {
                    out.push(x);
                }
            }
        }
        out
    });
    st.max("max::phase_wall_s::shrinking_done", cli.start.elapsed().as_secs());
    for (v, bs, count) in shrunk {
        note_batch_stats(st, bs);
        st.add(&format!("panics::{}", v.sig), count);
        st.violation(v);
    }
}

// ------------------------------------------------------------------------------------------
// the check
// ------------------------------------------------------------------------------------------

/// Pinned witnesses are replayed by `run_main` one after another BEFORE `explore`; a CPU-hang
/// witness needs its full 120 CPU-seconds. To keep the wall time at "one watchdog", the first call
/// starts (a) all pinned witnesses in parallel and (b) the exploration itself in the background;
/// `replay` and `explore` then only collect.
enum Slot {
    Running(std::thread::JoinHandle<Vec<Violation>>),
    Done(Vec<Violation>),
}
struct Background {
    witnesses: Mutex<HashMap<String, Slot>>,
    explore: Mutex<Option<std::thread::JoinHandle<Stats>>>,
}
static BG: OnceLock<Background> = OnceLock::new();

fn start_background(cli: &Cli) -> &'static Background {
    BG.get_or_init(|| {
        let mut map = HashMap::new();
        let mut findings: Vec<Finding> = load_findings(&cli.root)
            .into_iter()
            .filter(|f| f.open && f.property == "C05")
            .collect();
        // the long-running ones first
        findings.sort_by_key(|f| !f.sig.contains("|cpu>"));
        let slots = Arc::new((Mutex::new(12usize), Condvar::new()));
        for f in findings {
            let path = cli.root.join(&f.witness);
            let Ok(text) = std::fs::read_to_string(&path) else { continue };
            let Ok(j) = serde_json::from_str::<Json>(&text) else { continue };
            let case_json = j.get("case").cloned().unwrap_or(j);
            let key = case_json.to_string();
            if map.contains_key(&key) {
                continue;
            }
            let slots = slots.clone();
            let quick_confirm = cli.tier == Tier::Quick && f.sig.contains("|cpu>");
            let h = std::thread::spawn(move || {
                let Some(c) = Case::from_json(&case_json) else { return vec![] };
                if quick_confirm {
                    if let Ok(mut v) = QUICK_CONFIRM_INPUTS.lock() {
                        v.push(hash_of(c.input.as_str()));
                    }
                }
                {
                    let (m, cv) = &*slots;
                    let mut free = m.lock().unwrap_or_else(|x| x.into_inner());
                    while *free == 0 {
                        free = cv.wait(free).unwrap_or_else(|x| x.into_inner());
                    }
                    *free -= 1;
                }
                let (vs, _) = run_case(&c, false);
                {
                    let (m, cv) = &*slots;
                    *m.lock().unwrap_or_else(|x| x.into_inner()) += 1;
                    cv.notify_one();
                }
                vs
            });
            map.insert(key, Slot::Running(h));
        }
        let cli2 = cli.clone();
        let ex = std::thread::Builder::new()
            .name("explore".into())
            .stack_size(64 << 20)
            .spawn(move || {
                let mut st = Stats::new();
                explore_impl(&cli2, &mut st);
                st
            })
            .ok();
        Background {
            witnesses: Mutex::new(map),
            explore: Mutex::new(ex),
        }
    })
}

struct C05;

impl Check for C05 {
    fn id(&self) -> &'static str {
        "C05"
    }
    fn rule(&self) -> String {
        format!(
            "Each input (UTF-8, <= 4096 bytes) is given to all 14 calls ({}) in a release and in a devopt (debug-assertions + overflow-checks) worker child on the main thread with an 8 MiB stack; evaluations = inputs, pairs::<profile> = (input, call) executions. Generators: raw bytes -> lossy UTF-8; token soup over GRL keywords/operators/delimiters/quotes/digits/multi-byte characters and string literals holding escape sequences (\\uXXXX incl. surrogates, truncated and out-of-range forms, \\u{{...}}, \\x, \\n, escaped quotes); valid frames of every input language with soup in the slots, query blocks with every numeric attribute drawn from the hostile-number table, and layered defmodule lattices (2-3 modules per layer, each importing every module of the layer below, 3..=32 layers as far as 4 KiB allow); 1-4 stacked mutations (splice, truncate, cut, duplicate, delete, swap, hostile character at a token boundary, replace, token insert/delete, short chain) of valid texts (every rule/query block of the repository's *.grl files plus hand-written seeds of all languages); bracket nesting of depth 1..=32 (balanced and unbalanced) around random token spans, and (a third of that generator) well-formed logical expressions nested one level per term with an operator at every level and string leaves, 4..=40 levels, left- or right-leaning; short prefix chains (2..=64 repetitions) of {} units in {} contexts; arithmetic/logical expression trees of depth <= 4 over the keys of the small fact store, one in four with a hostile edit (run on the four expression calls only); stream patterns and joins from their grammar with hostile numbers, units and names (run on the two stream-pattern calls only) — all SAMPLED with the seed. SYSTEMATIC: a 2-, 3-, 4-byte or combining character inserted at every token boundary of the hand-written seeds (quick: one of the four per boundary; thorough: all four, plus the first 150 corpus texts of <= 400 bytes); every character-boundary truncation of selected seeds; the (unit x context) grid of prefix chains at the FULL 4 KiB length (quick: a sixth of the grid rotated by the seed; thorough: the whole grid). An input is non-trivial when at least one call returned a non-empty value or panicked/died (i.e. some parser engaged with it); distinct by input text.",
            ENTRIES.join(", "),
            CHAIN_UNITS.len(),
            CHAIN_CONTEXTS.len()
        )
    }
    fn assumptions(&self) -> Vec<String> {
        vec![
            "'hang' is judged exactly as the statement says: more than 120 CPU-seconds of this single call (kernel RLIMIT_CPU, armed by the worker right before the call) — pairs that exceed a 5 s first pass inside a batch are re-run alone with the full budget before being judged, except pairs whose call site at the first-pass kill is that of an OPEN cpu finding of the same entry point (not re-run: they can only be no violation or a hit of that finding; counted in slow_pairs_attributed_to_open_finding_not_rerun; the pinned witness of the finding itself is always re-run in full)".into(),
            "a panic in either build profile is a panic; signatures carry entry point, message class and innermost crate frame, not the profile".into(),
            "the cause predicate of a CPU kill is observed, not inferred: the worker's SIGXCPU handler reports the innermost crate frame and whether the time was being spent inside the rexile regex dependency (one root cause: its super-linear matcher) or in the crate's own code (in:<frame>)".into(),
            "stack overflow is recognised by the Rust runtime's own 'has overflowed its stack' message of a child whose RLIMIT_STACK is 8 MiB".into(),
            "balanced bracket nesting is limited to depth 32 as in the quantifier; only deliberately unbalanced prefix chains go to the full length".into(),
        ]
    }
    fn explore(&self, cli: &Cli, st: &mut Stats) {
        let started = BG.get().and_then(|b| b.explore.lock().ok().and_then(|mut g| g.take()));
        match started {
            Some(h) => match h.join() {
                Ok(s) => st.merge(s),
                Err(_) => st.inconclusive("the exploration thread died"),
            },
            None => explore_impl(cli, st),
        }
    }
    fn replay(&self, cli: &Cli, case: &Json) -> Vec<Violation> {
        let Some(c) = Case::from_json(case) else {
            return vec![Violation {
                clause: "harness".into(),
                sig: "C05|harness|bad-case".into(),
                detail: "cannot decode case".into(),
                case: case.clone(),
            }];
        };
        if cli.replay.is_some() {
            out!("REPLAY C05: {} bytes, entry {}, profile {}", c.input.len(), if c.entries.is_empty() { "*".to_string() } else { c.entries.iter().map(|e| ENTRIES[*e]).collect::<Vec<_>>().join(", ") }, c.profile);
            let (vs, notes) = run_case(&c, true);
            for n in notes {
                out!("  note: {}", n);
            }
            return vs;
        }
        // known-findings phase of a normal run
        let bg = start_background(cli);
        let key = case.to_string();
        let slot = bg.witnesses.lock().ok().and_then(|mut m| m.remove(&key));
        let vs = match slot {
            Some(Slot::Running(h)) => h.join().unwrap_or_default(),
            Some(Slot::Done(vs)) => vs,
            None => run_case(&c, cli.verbose).0,
        };
        if let Ok(mut m) = bg.witnesses.lock() {
            m.insert(key, Slot::Done(vs.clone()));
        }
        vs
    }
    fn worker(&self, _cli: &Cli, args: &[String]) -> i32 {
        match args.first().map(|s| s.as_str()) {
            Some("run") => worker_run(args.get(1).and_then(|s| s.parse().ok()).unwrap_or(0)),
            Some("shrink") => {
                let e = args.get(1).and_then(|s| s.parse::<usize>().ok()).unwrap_or(NE);
                let class = args.get(2).and_then(|h| unhex(h)).and_then(|b| String::from_utf8(b).ok());
                let frame = args.get(3).and_then(|h| unhex(h)).and_then(|b| String::from_utf8(b).ok());
                match (e < NE, class, frame) {
                    (true, Some(c), Some(f)) => worker_shrink(e, &c, &f),
                    _ => 2,
                }
            }
            _ => 2,
        }
    }
}

fn main() {
    run_main(C05)
}
