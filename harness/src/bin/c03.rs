//! C03 — execute always returns, within max_cycles, at a fixpoint or at the bound.
//!
//! Self-triggering / mutually triggering / quiescing rule programs are generated as GRL text,
//! run through `execute_with_callback` with `timeout: None`, and the result counters, the
//! callback count, the per-pass firing counts (H2 pass markers) and the final facts are checked
//! against the clauses of the statement. Shards run in child processes: a non-returning execute
//! is found by re-running the announced case alone under a CPU limit.

use rre_verif::grl::ast::*;
use rre_verif::grl::eval::*;
use rre_verif::grl::fwd::*;
use rre_verif::grl::val::{Store, V};
use rre_verif::*;

#[derive(Clone, Debug)]
struct Case {
    rules: Vec<RuleAst>,
    disabled: Vec<String>,
    store: Store,
    max_cycles: usize,
    /// the calls made one after the other on ONE engine and fact store
    entries: Vec<Entry>,
    /// knowledge-base edits between the calls: (made just before call #i, rule name, true = remove_rule / false = add the rule again)
    kb_edits: Vec<(usize, String, bool)>,
    /// the caller holds an undo frame open on the fact store during all the calls (a what-if run
    /// that it means to roll back afterwards); the frame only records, it changes no value
    undo_frame: bool,
}

impl Case {
    fn to_json(&self) -> Json {
        json!({
            "rules": self.rules.iter().map(rule_json).collect::<Vec<_>>(),
            "disabled": self.disabled,
            "store": self.store.to_json(),
            "max_cycles": self.max_cycles,
            "entries": self.entries.iter().map(|e| e.name()).collect::<Vec<_>>(),
            "kb_edits": self.kb_edits.iter().map(|(i, n, rm)| json!({"before_call": i, "rule": n, "op": if *rm { "remove_rule" } else { "add_rule_again" }})).collect::<Vec<_>>(),
            "grl": fmt_rules(&self.rules),
            "undo_frame_open_during_calls": self.undo_frame,
        })
    }
    fn from_json(j: &Json) -> Option<Case> {
        Some(Case {
            rules: j.get("rules")?.as_array()?.iter().map(rule_from).collect::<Option<Vec<_>>>()?,
            disabled: j.get("disabled")?.as_array()?.iter().filter_map(|v| v.as_str().map(|s| s.to_string())).collect(),
            store: Store::from_json(j.get("store")?)?,
            max_cycles: j.get("max_cycles")?.as_u64()? as usize,
            entries: match j.get("entries").and_then(|v| v.as_array()) {
                Some(a) => a.iter().filter_map(|v| v.as_str()).map(Entry::from_name).collect(),
                None => vec![Entry::from_name(j.get("entry").and_then(|v| v.as_str()).unwrap_or("execute_with_callback"))],
            },
            kb_edits: match j.get("kb_edits").and_then(|v| v.as_array()) {
                Some(a) => a
                    .iter()
                    .filter_map(|e| Some((e.get("before_call")?.as_u64()? as usize, e.get("rule")?.as_str()?.to_string(), e.get("op")?.as_str()? == "remove_rule")))
                    .collect(),
                None => vec![],
            },
            undo_frame: j.get("undo_frame_open_during_calls").and_then(|v| v.as_bool()).unwrap_or(false),
        })
    }
}

#[derive(Default)]
struct Obs {
    parse_failed: bool,
    hook_missing: bool,
    passes: u64,
    firings: u64,
    bound_reached: bool,
    quiesced: bool,
    fixpoint_rules_checked: u64,
    exec_err: bool,
    kb_edits: u64,
    undo_frame: bool,
    grouped: bool,
    undefined: Vec<&'static str>,
}

type Verdict = Option<(&'static str, String, String)>; // (clause, cause, detail)

fn leaf(f: &str, op: Op, v: V) -> Cond {
    Cond::Leaf(Leaf { lhs: Lhs::Field(f.into()), op, rhs: Rhs::Lit(v) })
}
fn set(t: &str, rhs: Rhs) -> Action {
    Action::Set { target: t.into(), rhs }
}
fn inc(t: &str) -> Action {
    set(t, Rhs::Arith(Chain { first: Operand::Field(t.into()), rest: vec![('+', Operand::Int(1))] }))
}

fn judge(case: &Case) -> (Verdict, Obs) {
    let mut obs = Obs::default();
    let mut session = match FwdSession::new(&case.rules, &case.store, case.max_cycles, &case.disabled) {
        Ok(s) => s,
        Err(_) => {
            obs.parse_failed = true;
            return (None, obs);
        }
    };
    // no-loop tracking is per engine: it carries over from call to call
    let mut noloop_fired: std::collections::BTreeSet<String> = std::collections::BTreeSet::new();
    // rules currently removed from the knowledge base
    let mut absent: std::collections::BTreeSet<String> = std::collections::BTreeSet::new();
    // rules that came back through add_rule (enabled again, whatever `disabled` said)
    let mut readded: std::collections::BTreeSet<String> = std::collections::BTreeSet::new();
    if case.undo_frame {
        session.open_undo_frame();
        obs.undo_frame = true;
    }
    for (ci, entry) in case.entries.iter().enumerate() {
        for (at, name, remove) in &case.kb_edits {
            if *at != ci {
                continue;
            }
            if *remove {
                if session.remove_rule(name) {
                    absent.insert(name.clone());
                    obs.kb_edits += 1;
                }
            } else if absent.contains(name) && session.add_rule_again(name) {
                absent.remove(name);
                readded.insert(name.clone());
                obs.kb_edits += 1;
            }
        }
        let run = session.run(*entry);
        let v = judge_call(case, ci, *entry, &run, &mut noloop_fired, &absent, &readded, &mut obs);
        if v.is_some() {
            return (v, obs);
        }
        if matches!(run.end, RunEnd::Runaway(_) | RunEnd::Panic(_)) {
            break;
        }
    }
    (None, obs)
}

#[allow(clippy::too_many_arguments)]
fn judge_call(
    case: &Case,
    ci: usize,
    entry: Entry,
    run: &Run,
    noloop_fired: &mut std::collections::BTreeSet<String>,
    absent: &std::collections::BTreeSet<String>,
    readded: &std::collections::BTreeSet<String>,
    obs: &mut Obs,
) -> Verdict {
    let n = case.rules.len();
    obs.passes += run.passes as u64;
    obs.firings += run.firings.len() as u64;
    let mc = case.max_cycles;
    let call = format!("call #{} ({})", ci, entry.name());
    for f in &run.firings {
        if let Some(r) = case.rules.iter().find(|r| r.name == f.rule) {
            if r.attrs.no_loop {
                noloop_fired.insert(r.name.clone());
            }
        }
        if absent.contains(&f.rule) {
            return Some(("removed-rule-fired", "general".into(), format!("{}: rule {} fired although remove_rule took it out of the knowledge base before the call", call, f.rule)));
        }
    }
    match &run.end {
        RunEnd::Runaway(why) => Some((
            "runs-beyond-bound",
            why.replace(' ', "-"),
            format!("{}: {} (max_cycles {}, {} rules, {} passes and {} firings seen before the monitor stopped the run)", call, why, mc, n, run.passes, run.firings.len()),
        )),
        RunEnd::Panic(p) => Some(("panic", format!("{}|{}", p.class(), p.frame), format!("{} panicked: {} at {}:{}", call, p.msg, p.file, p.line))),
        RunEnd::Err(_) => {
            obs.exec_err = true;
            None
        }
        RunEnd::Ok { cycle_count, rules_fired, .. } => {
            let cc = *cycle_count;
            let later = if ci > 0 { "after-an-earlier-call-on-the-same-engine" } else { "general" };
            if cc > mc {
                return Some((
                    "cycle-count-exceeds-bound",
                    if mc == 0 { "max_cycles=0".into() } else { "general".into() },
                    format!("{}: cycle_count {} > max_cycles {}", call, cc, mc),
                ));
            }
            if *rules_fired != run.firings.len() {
                return Some((
                    "fired-count-mismatch",
                    "general".into(),
                    format!("{}: rules_fired {} but {} firings were observed", call, rules_fired, run.firings.len()),
                ));
            }
            // pass structure needs the H2 markers
            if run.passes == 0 && (cc > 0 || !run.firings.is_empty()) {
                obs.hook_missing = true;
                return None;
            }
            if run.passes > mc {
                return Some(("passes-exceed-bound", "general".into(), format!("{}: {} passes were made with max_cycles {}", call, run.passes, mc)));
            }
            let mut per_pass = vec![0usize; run.passes];
            for f in &run.firings {
                match f.pass {
                    Some(p) if p < run.passes => per_pass[p] += 1,
                    _ => {
                        obs.hook_missing = true;
                        return None;
                    }
                }
            }
            // at most one firing per rule per pass follows from "a pass over the rules"
            for (p, c) in per_pass.iter().enumerate() {
                if *c > n {
                    return Some(("pass-fires-a-rule-twice", "general".into(), format!("{}: pass {} had {} firings with {} rules", call, p, c, n)));
                }
            }
            if let Some(last) = per_pass.last() {
                for (p, c) in per_pass[..per_pass.len() - 1].iter().enumerate() {
                    if *c == 0 {
                        return Some((
                            "continued-after-empty-pass",
                            "general".into(),
                            format!("{}: pass {} fired nothing but {} more passes followed (firings per pass {:?})", call, p, per_pass.len() - 1 - p, per_pass),
                        ));
                    }
                }
                if *last > 0 && run.passes < mc {
                    return Some((
                        "stopped-early-without-quiescence",
                        "by-passes-made".into(),
                        format!("{}: made {} passes of max_cycles {}, the last one fired {} rules (firings per pass {:?})", call, run.passes, mc, last, per_pass),
                    ));
                }
                if *last > 0 && cc < mc {
                    return Some((
                        "stopped-early-without-quiescence",
                        "by-reported-cycle-count".into(),
                        format!("{}: reported cycle_count {} < max_cycles {} although the last pass fired {} rules ({} passes were made)", call, cc, mc, last, run.passes),
                    ));
                }
                if *last == 0 && cc == mc && run.passes < mc {
                    // reports "at the bound" although it quiesced earlier: the user is told the opposite of what happened
                    return Some((
                        "reports-bound-although-quiesced",
                        "general".into(),
                        format!("{}: cycle_count {} == max_cycles although only {} passes were made and the last fired nothing", call, cc, run.passes),
                    ));
                }
                obs.bound_reached |= *last > 0;
                obs.quiesced |= *last == 0;
                // fixpoint: the run stopped after a pass that fired nothing
                let grouped = case.rules.iter().any(|r| r.attrs.agenda_group.is_some() || r.actions.iter().any(|a| matches!(a, Action::ActivateAgendaGroup(_))));
                if grouped {
                    // which group holds the focus at the end is not modelled here (C02 does):
                    // the fixpoint clause is not judged, the bound clauses above are
                    obs.grouped = true;
                }
                if *last == 0 && !grouped {
                    let fin = match &run.final_store {
                        Ok(s) => s.clone(),
                        Err(_) => return None,
                    };
                    for r in &case.rules {
                        if absent.contains(&r.name) {
                            continue;
                        }
                        if case.disabled.contains(&r.name) && !readded.contains(&r.name) {
                            continue;
                        }
                        if r.attrs.no_loop && noloop_fired.contains(&r.name) {
                            continue;
                        }
                        // (no rule fired in the last pass, so no activation group is blocked in it)
                        match eval_cond(&r.cond, &fin) {
                            T3::True => {
                                let later = if !case.kb_edits.is_empty() && ci > 0 { "after-a-knowledge-base-edit-between-calls" } else { later };
                                let cause = if r.attrs.activation_group.is_some() {
                                    format!("activation-group-rule-still-true|{}", later)
                                } else if r.attrs.no_loop {
                                    format!("no-loop-rule-that-never-fired|{}", later)
                                } else {
                                    format!("eligible-rule-still-true|{}", later)
                                };
                                return Some((
                                    "not-a-fixpoint",
                                    cause,
                                    format!(
                                        "{}: stopped after a pass that fired nothing, but rule {} (`{}`) is true on the final facts {}",
                                        call,
                                        r.name,
                                        fmt_cond(&r.cond),
                                        fin.to_json()
                                    ),
                                ));
                            }
                            T3::False => obs.fixpoint_rules_checked += 1,
                            T3::Undef(u) => obs.undefined.push(u),
                        }
                    }
                }
            } else if mc > 0 {
                return Some(("no-pass-made", "general".into(), format!("{}: max_cycles {} but no pass was made", call, mc)));
            }
            None
        }
    }
}

fn viol(case: &Case, clause: &str, cause: &str, detail: &str) -> Violation {
    Violation {
        clause: clause.into(),
        sig: format!("C03|{}|{}", clause, cause),
        detail: detail.into(),
        case: case.to_json(),
    }
}

fn record(case: &Case, st: &mut Stats) {
    breadcrumb(|| case.to_json());
    st.eval();
    let (v, obs) = judge(case);
    if obs.parse_failed {
        st.count("skipped_parse_failed");
        return;
    }
    if obs.hook_missing {
        st.inconclusive("pass markers (hook H2) were not observed: pass-structure clauses undecided");
    }
    if obs.exec_err {
        st.count("execute_returned_err_(no_verdict)");
    }
    for e in &case.entries {
        st.count(&format!("calls_via::{}", e.name()));
    }
    if case.entries.len() > 1 {
        st.count("histories_with_several_calls_on_one_engine");
    }
    st.add("knowledge_base_edits_between_calls", obs.kb_edits);
    if obs.undo_frame {
        st.count("cases_with_an_undo_frame_held_open_on_the_fact_store");
    }
    st.add("passes_observed", obs.passes);
    st.add("firings_observed", obs.firings);
    st.add("fixpoint_rule_checks", obs.fixpoint_rules_checked);
    if obs.bound_reached {
        st.count("runs_stopped_at_the_bound");
    }
    if obs.quiesced {
        st.count("runs_stopped_by_quiescence");
    }
    if obs.grouped {
        st.count("cases_with_agenda_groups_handing_the_focus_around(fixpoint clause not judged)");
    }
    for u in &obs.undefined {
        st.count(&format!("skipped_undefined::{}", u));
    }
    if obs.firings > 0 && obs.passes > 1 {
        st.nontrivial(hash_of(&format!("{:?}", case)));
        st.sample(|| case.to_json());
    }
    if let Some((clause, _, _)) = v {
        // shrink: drop rules while the same clause fails
        let base = case.clone();
        let mut fails = |rs: &[RuleAst]| {
            if rs.is_empty() {
                return false;
            }
            let c = Case { rules: rs.to_vec(), ..base.clone() };
            matches!(judge(&c).0, Some((cl, _, _)) if cl == clause)
        };
        let rules = shrink_list(&case.rules, &mut fails);
        let c = Case { rules, ..case.clone() };
        if let (Some((cl, cause, detail)), _) = judge(&c) {
            st.violation(viol(&c, cl, &cause, &detail));
        }
    }
}

fn gen_rule(rng: &mut Rng, idx: usize) -> RuleAst {
    let counters = ["n", "m", "Cnt.v"];
    let flags = ["f", "g"];
    let k = rng.below(100);
    let (cond, actions) = if k < 30 {
        // counter under a limit
        let c = *rng.pick(&counters);
        let lim = *rng.pick(&[0i64, 1, 2, 3, 5, 8, 13, 40, 63, 64, 65, 70]);
        (leaf(c, Op::Lt, V::Int(lim)), vec![inc(c)])
    } else if k < 50 {
        // flip a flag (ping-pong with its mirror image)
        let f = *rng.pick(&flags);
        let b = rng.bool();
        (leaf(f, Op::Eq, V::Bool(b)), vec![set(f, Rhs::Lit(V::Bool(!b)))])
    } else if k < 62 {
        // always true, counts its firings
        (leaf("one", Op::Eq, V::Int(1)), vec![inc("out")])
    } else if k < 80 {
        // quiescing: fires once
        let f = *rng.pick(&flags);
        let d = *rng.pick(&["d0", "d1"]);
        (
            Cond::And(Box::new(leaf(f, Op::Eq, V::Bool(rng.bool()))), Box::new(leaf(d, Op::Ne, V::Bool(true)))),
            vec![set(d, Rhs::Lit(V::Bool(true)))],
        )
    } else if k < 90 {
        // string state machine
        let from = *rng.pick(&["a", "b", "c"]);
        let to = *rng.pick(&["a", "b", "c", "end"]);
        (leaf("s", Op::Eq, V::Str(from.into())), vec![set("s", Rhs::Lit(V::Str(to.into())))])
    } else if k < 92 {
        // true on ABSENT data (a missing field reads as null): bootstraps itself once
        let d = *rng.pick(&["d0", "d1", "Boot.done"]);
        (leaf(d, Op::Ne, V::Bool(true)), vec![set(d, Rhs::Lit(V::Bool(true)))])
    } else if k < 93 {
        // writes three segments deep into an object that has no such member (`Cnt` exists, `Cnt.sub`
        // does not): the nested write is refused and the value lands under the flat key; fires once
        let t = *rng.pick(&["Cnt.sub.done", "Cnt.sub.deeper.done"]);
        (
            Cond::And(Box::new(leaf("one", Op::Eq, V::Int(1))), Box::new(leaf(t, Op::Ne, V::Bool(true)))),
            vec![set(t, Rhs::Lit(V::Bool(true)))],
        )
    } else if k < 94 {
        // a counter chasing a MOVING limit, arithmetic on the left and a fact on the right
        // (`n + 1 <= m`); other rules of the set move m
        let (c, l) = *rng.pick(&[("n", "m"), ("m", "n"), ("n", "Cnt.v")]);
        (
            Cond::Leaf(Leaf { lhs: Lhs::Arith(Chain { first: Operand::Field(c.into()), rest: vec![('+', Operand::Int(*rng.pick(&[1i64, 1, 2])))] }), op: *rng.pick(&[Op::Le, Op::Lt]), rhs: Rhs::FieldRef(l.into()) }),
            vec![inc(c)],
        )
    } else if k < 95 {
        // raises a limit once a counter has reached a value
        let (c, l) = *rng.pick(&[("n", "m"), ("m", "n"), ("n", "Cnt.v")]);
        (leaf(c, Op::Ge, V::Int(*rng.pick(&[2i64, 3, 5]))), vec![set(l, Rhs::Lit(V::Int(*rng.pick(&[6i64, 9, 12]))))])
    } else if k < 96 {
        // remainder / quotient whose divisor is a FACT that is, or counts down to, 0 (and the pair
        // i64::MIN % -1): in a test condition, or on the right of an assignment
        let (a, b) = *rng.pick(&[("n", "m"), ("out", "m"), ("m", "n"), ("big", "neg")]);
        let o = *rng.pick(&['%', '%', '/']);
        let ar = Chain { first: Operand::Field(a.into()), rest: vec![(o, Operand::Field(b.into()))] };
        match rng.below(3) {
            0 => (Cond::Leaf(Leaf { lhs: Lhs::Arith(ar), op: *rng.pick(&[Op::Eq, Op::Ne, Op::Ge]), rhs: Rhs::Lit(V::Int(0)) }), vec![inc("out")]),
            1 => (leaf("one", Op::Eq, V::Int(1)), vec![set("rem", Rhs::Arith(ar)), inc("out")]),
            // the divisor counts down by one per firing
            _ => (
                leaf(b, Op::Ge, V::Int(0)),
                vec![set("rem", Rhs::Arith(ar)), set(b, Rhs::Arith(Chain { first: Operand::Field(b.into()), rest: vec![('-', Operand::Int(1))] }))],
            ),
        }
    } else if k < 97 {
        // a rule whose action fails (unregistered custom action): the call returns Err
        let f = *rng.pick(&flags);
        (leaf(f, Op::Eq, V::Bool(rng.bool())), vec![Action::Call("Boom".into(), vec![])])
    } else {
        // two counters chasing each other
        (
            Cond::Leaf(Leaf { lhs: Lhs::Field("n".into()), op: Op::Le, rhs: Rhs::FieldRef("m".into()) }),
            vec![inc("n"), if rng.bool() { inc("m") } else { inc("out") }],
        )
    };
    RuleAst {
        name: format!("R{}", idx),
        quoted_name: true,
        description: None,
        attrs: Attrs {
            salience: if rng.bool() { Some(*rng.pick(&[0, 1, 1, 5, 10, 0, 1, 1, 5, 10, -1, -3, i32::MAX, i32::MIN])) } else { None },
            no_loop: rng.chance(1, 3),
            activation_group: if rng.chance(1, 4) { Some(rng.pick(&["X", "Y"]).to_string()) } else { None },
            ..Default::default()
        },
        cond,
        actions,
    }
}

fn gen_store(rng: &mut Rng) -> Store {
    let mut s = Store::new();
    // one store in 16 is completely EMPTY (rules can still hold: a missing field reads as null)
    if rng.chance(1, 16) {
        return s;
    }
    s.0.insert("n".into(), V::Int(rng.range(0, 5)));
    s.0.insert("m".into(), V::Int(rng.range(0, 8)));
    let mut o = std::collections::BTreeMap::new();
    o.insert("v".to_string(), V::Int(rng.range(0, 3)));
    s.0.insert("Cnt".into(), V::Obj(o));
    s.0.insert("f".into(), V::Bool(rng.bool()));
    s.0.insert("g".into(), V::Bool(rng.bool()));
    s.0.insert("one".into(), V::Int(1));
    s.0.insert("out".into(), V::Int(0));
    s.0.insert("s".into(), V::Str(rng.pick(&["a", "b", "c", "end"]).to_string()));
    if rng.bool() {
        s.0.insert("d0".into(), V::Bool(false));
    }
    if rng.chance(1, 8) {
        s.0.insert("big".into(), V::Int(i64::MIN));
        s.0.insert("neg".into(), V::Int(*rng.pick(&[-1i64, 0, 1])));
    }
    s
}

fn gen_case(rng: &mut Rng) -> Case {
    let n = 1 + rng.below(5);
    let rules: Vec<RuleAst> = (0..n).map(|i| gen_rule(rng, i)).collect();
    let mut rules = rules;
    if rng.chance(1, 6) {
        // agenda groups whose rules hand the focus to one another (ActivateAgendaGroup takes
        // effect at once): a pass is still a pass and the call still makes at most max_cycles
        let groups = ["ga", "gb", "gc"];
        for r in rules.iter_mut() {
            let g = rng.below(4);
            if g < 3 {
                r.attrs.agenda_group = Some(groups[g].to_string());
            }
            if rng.chance(2, 3) {
                let to = groups[(g + 1 + rng.below(2)) % 3];
                r.actions.push(Action::ActivateAgendaGroup(to.to_string()));
            }
            if rng.chance(1, 2) {
                r.attrs.no_loop = false;
            }
        }
    }
    let disabled = rules.iter().filter(|_| rng.chance(1, 8)).map(|r| r.name.clone()).collect();
    let max_cycles = match rng.below(10) {
        0 => 0,
        1 => 1,
        2 => 2,
        3 => 64,
        _ => rng.below(65),
    };
    let ncalls = *rng.pick(&[1usize, 1, 1, 2, 2, 3]);
    let entries = (0..ncalls).map(|_| if rng.bool() { Entry::WithCallback } else { Entry::Execute }).collect();
    let mut kb_edits = Vec::new();
    if ncalls > 1 && rng.chance(1, 2) {
        // remove a rule between two calls (positions in the salience-ordered list shift), and
        // sometimes bring it back before a later call
        let victim = rng.pick(&rules).name.clone();
        let at = 1 + rng.below(ncalls - 1);
        kb_edits.push((at, victim.clone(), true));
        if at + 1 < ncalls && rng.bool() {
            kb_edits.push((at + 1, victim, false));
        } else if rng.chance(1, 3) && rules.len() > 1 {
            kb_edits.push((at, rng.pick(&rules).name.clone(), true));
        }
    }
    let undo_frame = rng.chance(1, 12);
    Case { rules, disabled, store: gen_store(rng), max_cycles, entries, kb_edits, undo_frame }
}

struct C03;

fn explore_shard(cli: &Cli, shard: usize, nshards: usize, rng: &mut Rng, st: &mut Stats) {
    // (1) grid: a fixed family of programs x every max_cycles in 0..=64
    let fam = cli.tier.pick(40usize, 200usize);
    let mut frng = Rng::derive(cli.seed, 0xC03);
    let family: Vec<Case> = (0..fam).map(|_| gen_case(&mut frng)).collect();
    for (i, base) in family.iter().enumerate() {
        if i % nshards != shard {
            continue;
        }
        for mc in 0..=64usize {
            for entry in [Entry::WithCallback, Entry::Execute] {
                let c = Case { max_cycles: mc, entries: vec![entry], kb_edits: vec![], ..base.clone() };
                record(&c, st);
            }
        }
    }
    // (2) random programs
    let per = cli.n(6_000, 250_000);
    for _ in 0..per {
        if cli.expired() {
            st.count("stopped_by_time_budget");
            break;
        }
        let c = gen_case(rng);
        record(&c, st);
    }
}

impl Check for C03 {
    fn id(&self) -> &'static str {
        "C03"
    }
    fn rule(&self) -> String {
        "1-5 rules drawn from: counters under a limit above/below the bound, flag flippers (ping-pong), always-true rules, quiescing rules, string state machines, counters chasing each other or a moving limit (arithmetic on the left of the comparison, a fact on the right), rules that raise a limit, rules that are true on absent data (`d != true`), rules that write three segments deep into an object lacking the intermediate member; no-loop on 1/3 of the rules, activation groups on 1/4, 1/8 disabled, salience ties and negative / i32::MIN / i32::MAX saliences, rules whose action fails (the call returns Err); 1-3 calls on ONE engine and fact store (execute_with_callback / execute mixed), in half of the multi-call histories with remove_rule / add-the-rule-again edits of the knowledge base between two calls; one fact store in 16 completely empty; in one case in 12 the caller holds an undo frame open on the fact store during all the calls (begin_undo_frame before the first call, never closed); max_cycles over 0..=64 (a fixed family of programs is run on EVERY max_cycles value: exhaustive over that grid), timeout None. Non-trivial: at least one firing and at least two passes observed; distinct by (rules, disabled, store, max_cycles).".into()
    }
    fn assumptions(&self) -> Vec<String> {
        vec![
            "passes are observed through hook H2 (ForwardPass markers) drained inside the firing callback; the firing counts come from the callback".into(),
            "'stops before the bound' is judged both on the passes actually made and on the reported cycle_count (the only way a caller can tell)".into(),
            "eligible for the fixpoint clause = enabled and not a no-loop rule that already fired on this engine (no-loop tracking is per engine and carries over between calls); no agenda groups or dates in this fragment; in a pass that fired nothing no activation group is blocked".into(),
            "a non-returning execute is decided on CPU seconds of the single announced case re-run alone in a child (30 s for a program that normally takes microseconds), never on wall clock".into(),
        ]
    }
    fn devopt_scale(&self) -> Option<f64> {
        Some(0.5)
    }
    fn explore(&self, cli: &Cli, st: &mut Stats) {
        let cfg = ChildShardCfg {
            shard_cpu_s: cli.tier.pick(300, 3000),
            case_cpu_s: 30,
            as_bytes: Some(4 << 30),
            tag: vec![cli.tier.name().to_string()],
        };
        child_shards(cli, "C03", cli.threads, st, &cfg);
        st.exhaustive.push(format!(
            "a fixed family of {} programs x every max_cycles in 0..=64",
            cli.tier.pick(40, 200)
        ));
    }
    fn worker(&self, cli: &Cli, args: &[String]) -> i32 {
        match args.first().map(|s| s.as_str()) {
            Some("shard") => {
                let mut cli2 = cli.clone();
                if args.get(3).map(|s| s.as_str()) == Some("thorough") {
                    cli2.tier = Tier::Thorough;
                    cli2.budget_s = cli2.budget_s.max(1500.0);
                }
                worker_shard_main(&cli2, args, |shard, n, _tag, rng, st| explore_shard(&cli2, shard, n, rng, st))
            }
            Some("case") => worker_case_main(self, cli),
            _ => 2,
        }
    }
    fn replay(&self, _cli: &Cli, case: &Json) -> Vec<Violation> {
        if !in_case_child() {
            // a violating case may be one that never returns: judge it in a child under a CPU limit
            return replay_via_child("C03", case, 30, Some(4 << 30));
        }
        let Some(c) = Case::from_json(case) else {
            return vec![Violation { clause: "harness".into(), sig: "C03|harness|bad-case".into(), detail: "cannot decode case".into(), case: case.clone() }];
        };
        match judge(&c) {
            (Some((cl, cause, detail)), _) => vec![viol(&c, cl, &cause, &detail)],
            _ => vec![],
        }
    }
}

fn main() {
    run_main(C03)
}
