//! C16 — indexes and memoisation return what the plain computation returns.
//!
//! Four differential monitors over generated histories of <= 10 operations and hostile values:
//!  * alpha: the real `AlphaMemoryIndex` against a shadow instance that never gets an index;
//!  * beta:  `BetaMemoryIndex::lookup` against a scan of the harness's list of live facts;
//!  * memo:  `MemoizedEvaluator::evaluate` against `ReteUlNode::evaluate_typed`;
//!  * concl: `ConclusionIndex::find_candidates` against a scan of the enabled rules' `Set` actions.

use rre_verif::*;
use rust_rule_engine::backward::conclusion_index::ConclusionIndex;
use rust_rule_engine::rete::alpha_memory_index::AlphaMemoryIndex;
use rust_rule_engine::rete::facts::{FactValue, TypedFacts};
use rust_rule_engine::rete::memoization::MemoizedEvaluator;
use rust_rule_engine::rete::network::ReteUlNode;
use rust_rule_engine::rete::optimization::BetaMemoryIndex;
use rust_rule_engine::rete::AlphaNode;
use rust_rule_engine::{ActionType, Condition, ConditionGroup, Operator, Rule, Value};
use std::collections::{BTreeMap, BTreeSet};

// ------------------------------------------------------------------------------------------
// values (a mirror of FactValue that survives JSON, including NaN / -0.0 / inf)
// ------------------------------------------------------------------------------------------

#[derive(Clone, Debug)]
enum Val {
    S(String),
    I(i64),
    F(f64),
    B(bool),
    A(Vec<Val>),
    Null,
}
use Val::*;

impl Val {
    fn fact(&self) -> FactValue {
        match self {
            S(s) => FactValue::String(s.clone()),
            I(i) => FactValue::Integer(*i),
            F(f) => FactValue::Float(*f),
            B(b) => FactValue::Boolean(*b),
            A(a) => FactValue::Array(a.iter().map(|v| v.fact()).collect()),
            Null => FactValue::Null,
        }
    }
    fn to_json(&self) -> Json {
        match self {
            S(s) => json!({ "s": s }),
            I(i) => json!({ "i": i }),
            F(f) => json!({ "f": format!("{:?}", f) }),
            B(b) => json!({ "b": b }),
            A(a) => json!({ "arr": a.iter().map(|v| v.to_json()).collect::<Vec<_>>() }),
            Null => Json::Null,
        }
    }
    fn from_json(j: &Json) -> Option<Val> {
        if j.is_null() {
            return Some(Null);
        }
        let o = j.as_object()?;
        if let Some(s) = o.get("s") {
            return Some(S(s.as_str()?.to_string()));
        }
        if let Some(i) = o.get("i") {
            return Some(I(i.as_i64()?));
        }
        if let Some(f) = o.get("f") {
            return Some(F(f.as_str()?.parse::<f64>().ok()?));
        }
        if let Some(b) = o.get("b") {
            return Some(B(b.as_bool()?));
        }
        if let Some(a) = o.get("arr") {
            return Some(A(a.as_array()?.iter().map(Val::from_json).collect::<Option<_>>()?));
        }
        None
    }
    /// holds a NaN somewhere (such a value is not equal to itself)
    fn has_nan(&self) -> bool {
        match self {
            F(f) => f.is_nan(),
            A(a) => a.iter().any(|v| v.has_nan()),
            _ => false,
        }
    }
    fn has_neg_zero(&self) -> bool {
        match self {
            F(f) => *f == 0.0 && f.is_sign_negative(),
            A(a) => a.iter().any(|v| v.has_neg_zero()),
            _ => false,
        }
    }
    /// the same value with every -0.0 replaced by 0.0
    fn norm_zero(&self) -> Val {
        match self {
            F(f) if *f == 0.0 => F(0.0),
            A(a) => A(a.iter().map(|v| v.norm_zero()).collect()),
            v => v.clone(),
        }
    }
    fn render(&self) -> String {
        format!("{:?}", self.fact())
    }
    fn print(&self) -> String {
        self.fact().as_str().into_owned()
    }
}

type FactMap = BTreeMap<String, Val>;

fn fm_json(m: &FactMap) -> Json {
    Json::Object(m.iter().map(|(k, v)| (k.clone(), v.to_json())).collect())
}
fn fm_parse(j: &Json) -> Option<FactMap> {
    j.as_object()?.iter().map(|(k, v)| Some((k.clone(), Val::from_json(v)?))).collect()
}
fn typed(m: &FactMap, id: Option<i64>) -> TypedFacts {
    let mut f = TypedFacts::new();
    for (k, v) in m {
        f.set(k.clone(), v.fact());
    }
    if let Some(id) = id {
        f.set("id", id);
    }
    f
}

/// The hostile value domain of the statement.
fn domain() -> Vec<Val> {
    let s = |x: &str| S(x.to_string());
    vec![
        I(0), I(1), I(-1), I(25),
        F(0.0), F(-0.0), F(f64::NAN), F(f64::INFINITY), F(f64::NEG_INFINITY), F(1.0), F(25.0), F(1.5),
        s("1"), s("1.0"), s("true"), s("25"), s("0"), s("-0"), s("0.0"), s("NaN"), s("null"), s(""), s("Float(0.0)"),
        B(true), B(false),
        A(vec![]), A(vec![I(1)]), A(vec![F(1.0)]), A(vec![s("1")]), A(vec![F(0.0)]), A(vec![F(-0.0)]),
        A(vec![F(f64::NAN)]), A(vec![I(1), I(2)]), A(vec![A(vec![F(-0.0)])]), A(vec![A(vec![F(0.0)])]), A(vec![Null]),
        Null,
    ]
}
/// The domain without the values on which `==` and the printed form disagree.
fn clean_domain() -> Vec<Val> {
    domain().into_iter().filter(|v| !v.has_nan() && !v.has_neg_zero()).collect()
}

#[derive(Clone, Debug, PartialEq)]
struct Disc {
    clause: String,
    cause: String,
    detail: String,
}
fn push_disc(out: &mut Vec<Disc>, clause: &str, cause: &str, detail: String) {
    if !out.iter().any(|d| d.clause == clause && d.cause == cause) {
        out.push(Disc { clause: clause.into(), cause: cause.into(), detail });
    }
}

#[derive(Default, Clone)]
struct Obs {
    comparisons: u64,
    by_index: u64,
    by_index_nonempty: u64,
    nonempty: u64,
    hits: u64,
    trues: u64,
    falses: u64,
    effective_removes: u64,
    readds: u64,
    expected_total: u64,
    nontrivial: bool,
}

// ------------------------------------------------------------------------------------------
// alpha
// ------------------------------------------------------------------------------------------

const ALPHA_FIELDS: [&str; 3] = ["a", "b", "zz"];

#[derive(Clone, Debug)]
enum AOp {
    Insert(FactMap),
    Create(String),
    Drop(String),
    /// `filter_tracked(field, value)` n times (feeds `auto_tune`)
    Tracked(String, Val, u32),
    AutoTune,
}

fn aop_json(o: &AOp) -> Json {
    match o {
        AOp::Insert(m) => json!({ "insert": fm_json(m) }),
        AOp::Create(f) => json!({ "create_index": f }),
        AOp::Drop(f) => json!({ "drop_index": f }),
        AOp::Tracked(f, v, n) => json!({ "filter_tracked": { "field": f, "value": v.to_json(), "times": n } }),
        AOp::AutoTune => json!("auto_tune"),
    }
}
fn aop_parse(j: &Json) -> Option<AOp> {
    if j.as_str() == Some("auto_tune") {
        return Some(AOp::AutoTune);
    }
    let o = j.as_object()?;
    if let Some(m) = o.get("insert") {
        return Some(AOp::Insert(fm_parse(m)?));
    }
    if let Some(f) = o.get("create_index") {
        return Some(AOp::Create(f.as_str()?.to_string()));
    }
    if let Some(f) = o.get("drop_index") {
        return Some(AOp::Drop(f.as_str()?.to_string()));
    }
    if let Some(t) = o.get("filter_tracked") {
        return Some(AOp::Tracked(
            t["field"].as_str()?.to_string(),
            Val::from_json(&t["value"])?,
            t["times"].as_u64()? as u32,
        ));
    }
    None
}

fn ids(v: Vec<&TypedFacts>) -> Vec<i64> {
    let mut out: Vec<i64> = v
        .iter()
        .map(|f| match f.get("id") {
            Some(FactValue::Integer(i)) => *i,
            _ => -1,
        })
        .collect();
    out.sort();
    out
}

/// multiset difference a - b of two sorted lists
fn msub(a: &[i64], b: &[i64]) -> Vec<i64> {
    let mut out = Vec::new();
    let mut j = 0;
    for x in a {
        while j < b.len() && b[j] < *x {
            j += 1;
        }
        if j < b.len() && b[j] == *x {
            j += 1;
        } else {
            out.push(*x);
        }
    }
    out
}

fn alpha_classify(
    out: &mut Vec<Disc>,
    step: usize,
    how: &str,
    field: &str,
    p: &Val,
    with_index: &[i64],
    by_scan: &[i64],
    facts: &[FactMap],
) {
    let detail = |why: &str| {
        format!(
            "after op #{}: {}(\"{}\", {}) returned facts {:?} from the memory holding the ops' indexes but {:?} from the never-indexed shadow ({}); stored values: {:?}",
            step,
            how,
            field,
            p.render(),
            with_index,
            by_scan,
            why,
            with_index
                .iter()
                .chain(by_scan.iter())
                .collect::<BTreeSet<_>>()
                .iter()
                .map(|i| (**i, facts.get(**i as usize).and_then(|m| m.get(field)).map(|v| v.render())))
                .collect::<Vec<_>>()
        )
    };
    for id in msub(by_scan, with_index) {
        // found by the scan (stored == probe) but missed by the index
        let s = facts.get(id as usize).and_then(|m| m.get(field));
        let neg_zero = s.map_or(false, |s| {
            s.render() != p.render() && s.norm_zero().render() == p.norm_zero().render()
        });
        if neg_zero {
            push_disc(out, "alpha", "negative-zero-key", detail("the stored value and the probe are equal under == but differ in the sign of a zero, so their printed index keys differ"));
        } else {
            push_disc(out, "alpha", "unexplained", detail("the index misses a fact the scan finds"));
        }
    }
    for id in msub(with_index, by_scan) {
        // returned through the index but rejected by the scan (stored != probe)
        let s = facts.get(id as usize).and_then(|m| m.get(field));
        let nan = s.map_or(false, |s| s.has_nan() && s.render() == p.render());
        if nan {
            push_disc(out, "alpha", "nan-key", detail("the stored value holds a NaN: it is not equal to the probe under ==, but prints the same index key"));
        } else {
            push_disc(out, "alpha", "unexplained", detail("the index returns a fact the scan rejects"));
        }
    }
}

fn run_alpha(ops: &[AOp], probes: &[Val]) -> (Vec<Disc>, Obs) {
    let mut out = Vec::new();
    let mut obs = Obs::default();
    let mut real = AlphaMemoryIndex::new();
    let mut shadow = AlphaMemoryIndex::new();
    let mut facts: Vec<FactMap> = Vec::new();
    for (oi, op) in ops.iter().enumerate() {
        match op {
            AOp::Insert(m) => {
                let f = typed(m, Some(facts.len() as i64));
                facts.push(m.clone());
                let i1 = real.insert(f.clone());
                let i2 = shadow.insert(f);
                if i1 != i2 {
                    push_disc(&mut out, "alpha", "unexplained", format!("op #{}: insert returned position {} with indexes, {} without", oi, i1, i2));
                }
            }
            AOp::Create(f) => real.create_index(f.clone()),
            AOp::Drop(f) => real.drop_index(f),
            AOp::Tracked(f, v, n) => {
                let pv = v.fact();
                for _ in 0..*n {
                    let a = ids(real.filter_tracked(f, &pv));
                    let b = ids(shadow.filter_tracked(f, &pv));
                    obs.comparisons += 1;
                    if a != b {
                        alpha_classify(&mut out, oi, "filter_tracked", f, v, &a, &b, &facts);
                    }
                }
            }
            AOp::AutoTune => real.auto_tune(),
        }
        // a long history is probed in full after every 16th op, after every op that changes the
        // set of indexes, and at its end (each full probe is linear in the facts held)
        if ops.len() > 24 && !(oi % 16 == 15 || oi + 1 == ops.len() || !matches!(op, AOp::Insert(_) | AOp::Tracked(..))) {
            continue;
        }
        for field in ALPHA_FIELDS {
            let indexed = real.indexed_fields().iter().any(|x| x.as_str() == field);
            for p in probes {
                let pv = p.fact();
                let a = ids(real.filter(field, &pv));
                let b = ids(shadow.filter(field, &pv));
                obs.comparisons += 1;
                if !b.is_empty() {
                    obs.nonempty += 1;
                }
                if indexed {
                    obs.by_index += 1;
                    if !a.is_empty() {
                        obs.by_index_nonempty += 1;
                    }
                }
                if a != b {
                    alpha_classify(&mut out, oi, "filter", field, p, &a, &b, &facts);
                }
            }
        }
    }
    obs.nontrivial = obs.by_index_nonempty > 0 && obs.by_index > obs.by_index_nonempty;
    (out, obs)
}

// ------------------------------------------------------------------------------------------
// beta
// ------------------------------------------------------------------------------------------

#[derive(Clone, Debug)]
enum BOp {
    Add(FactMap, usize),
    Remove(usize),
}
fn bop_json(o: &BOp) -> Json {
    match o {
        BOp::Add(m, i) => json!({ "add": fm_json(m), "idx": i }),
        BOp::Remove(i) => json!({ "remove": i }),
    }
}
fn bop_parse(j: &Json) -> Option<BOp> {
    if let Some(m) = j.get("add") {
        return Some(BOp::Add(fm_parse(m)?, j["idx"].as_u64()? as usize));
    }
    Some(BOp::Remove(j.get("remove")?.as_u64()? as usize))
}

const BETA_KEY: &str = "k";

/// `None`: the history is not one the monitor defines (an index added twice while live).
fn run_beta(ops: &[BOp], probes: &[String]) -> Option<(Vec<Disc>, Obs)> {
    let mut out = Vec::new();
    let mut obs = Obs::default();
    let mut ix = BetaMemoryIndex::new(BETA_KEY.to_string());
    let mut live: BTreeMap<usize, FactMap> = BTreeMap::new();
    let mut last: BTreeMap<usize, FactMap> = BTreeMap::new();
    for (oi, op) in ops.iter().enumerate() {
        match op {
            BOp::Add(m, i) => {
                if live.contains_key(i) {
                    return None;
                }
                ix.add(&typed(m, None), *i);
                live.insert(*i, m.clone());
                last.insert(*i, m.clone());
            }
            BOp::Remove(i) => {
                // the fact handed to `remove` is the one that was added under this index
                let m = live.get(i).or_else(|| last.get(i)).cloned().unwrap_or_else(|| {
                    let mut m = FactMap::new();
                    m.insert(BETA_KEY.to_string(), I(1));
                    m
                });
                ix.remove(&typed(&m, None), *i);
                if live.remove(i).is_some() {
                    obs.effective_removes += 1;
                }
            }
        }
        if ops.len() > 24 && !(oi % 8 == 7 || oi + 1 == ops.len() || matches!(op, BOp::Remove(_))) {
            continue;
        }
        let mut keys: Vec<String> = probes.to_vec();
        for m in live.values() {
            if let Some(v) = m.get(BETA_KEY) {
                let r = v.render();
                if !keys.contains(&r) {
                    keys.push(r);
                }
            }
        }
        for key in &keys {
            let mut got: Vec<usize> = ix.lookup(key).to_vec();
            got.sort();
            let want: Vec<usize> = live
                .iter()
                .filter(|(_, m)| m.get(BETA_KEY).map(|v| v.render()).as_deref() == Some(key.as_str()))
                .map(|(i, _)| *i)
                .collect();
            obs.comparisons += 1;
            if !want.is_empty() {
                obs.nonempty += 1;
                if obs.effective_removes > 0 {
                    obs.nontrivial = true;
                }
            }
            if got != want {
                let mut dedup = got.clone();
                dedup.dedup();
                let cause = if dedup.len() != got.len() {
                    "duplicate-entry"
                } else if got.iter().any(|i| !live.contains_key(i)) {
                    "returns-removed-fact"
                } else if got.iter().any(|i| !want.contains(i)) {
                    "returns-live-fact-with-another-key"
                } else {
                    "misses-live-fact"
                };
                push_disc(
                    &mut out,
                    "beta",
                    cause,
                    format!(
                        "after op #{}: lookup({:?}) returned {:?}; live facts whose `{}` renders to that key: {:?} (live: {:?})",
                        oi,
                        key,
                        got,
                        BETA_KEY,
                        want,
                        live.iter().map(|(i, m)| (*i, m.get(BETA_KEY).map(|v| v.render()))).collect::<Vec<_>>()
                    ),
                );
            }
        }
    }
    Some((out, obs))
}

fn beta_default_probes() -> Vec<String> {
    let mut v: Vec<String> = domain().iter().map(|d| d.render()).collect();
    for extra in ["", "1", "k", "true", "String(1)"] {
        v.push(extra.to_string());
    }
    v.dedup();
    v
}

// ------------------------------------------------------------------------------------------
// memo
// ------------------------------------------------------------------------------------------

#[derive(Clone, Debug)]
enum NodeSpec {
    Alpha(String, String, String),
    And(Box<NodeSpec>, Box<NodeSpec>),
    Or(Box<NodeSpec>, Box<NodeSpec>),
    Not(Box<NodeSpec>),
    Exists(Box<NodeSpec>),
    Forall(Box<NodeSpec>),
    Multi { field: String, operation: String, value: Option<String>, operator: Option<String>, compare_value: Option<String> },
}

impl NodeSpec {
    fn node(&self) -> ReteUlNode {
        match self {
            NodeSpec::Alpha(f, o, v) => ReteUlNode::UlAlpha(AlphaNode { field: f.clone(), operator: o.clone(), value: v.clone() }),
            NodeSpec::And(l, r) => ReteUlNode::UlAnd(Box::new(l.node()), Box::new(r.node())),
            NodeSpec::Or(l, r) => ReteUlNode::UlOr(Box::new(l.node()), Box::new(r.node())),
            NodeSpec::Not(n) => ReteUlNode::UlNot(Box::new(n.node())),
            NodeSpec::Exists(n) => ReteUlNode::UlExists(Box::new(n.node())),
            NodeSpec::Forall(n) => ReteUlNode::UlForall(Box::new(n.node())),
            NodeSpec::Multi { field, operation, value, operator, compare_value } => ReteUlNode::UlMultiField {
                field: field.clone(),
                operation: operation.clone(),
                value: value.clone(),
                operator: operator.clone(),
                compare_value: compare_value.clone(),
            },
        }
    }
    fn to_json(&self) -> Json {
        match self {
            NodeSpec::Alpha(f, o, v) => json!({ "alpha": [f, o, v] }),
            NodeSpec::And(l, r) => json!({ "and": [l.to_json(), r.to_json()] }),
            NodeSpec::Or(l, r) => json!({ "or": [l.to_json(), r.to_json()] }),
            NodeSpec::Not(n) => json!({ "not": n.to_json() }),
            NodeSpec::Exists(n) => json!({ "exists": n.to_json() }),
            NodeSpec::Forall(n) => json!({ "forall": n.to_json() }),
            NodeSpec::Multi { field, operation, value, operator, compare_value } => {
                json!({ "multi": { "field": field, "operation": operation, "value": value, "operator": operator, "compare_value": compare_value } })
            }
        }
    }
    fn from_json(j: &Json) -> Option<NodeSpec> {
        let o = j.as_object()?;
        let two = |v: &Json| -> Option<(Box<NodeSpec>, Box<NodeSpec>)> {
            let a = v.as_array()?;
            Some((Box::new(NodeSpec::from_json(a.first()?)?), Box::new(NodeSpec::from_json(a.get(1)?)?)))
        };
        if let Some(a) = o.get("alpha") {
            let a = a.as_array()?;
            return Some(NodeSpec::Alpha(a.first()?.as_str()?.into(), a.get(1)?.as_str()?.into(), a.get(2)?.as_str()?.into()));
        }
        if let Some(v) = o.get("and") {
            let (l, r) = two(v)?;
            return Some(NodeSpec::And(l, r));
        }
        if let Some(v) = o.get("or") {
            let (l, r) = two(v)?;
            return Some(NodeSpec::Or(l, r));
        }
        if let Some(v) = o.get("not") {
            return Some(NodeSpec::Not(Box::new(NodeSpec::from_json(v)?)));
        }
        if let Some(v) = o.get("exists") {
            return Some(NodeSpec::Exists(Box::new(NodeSpec::from_json(v)?)));
        }
        if let Some(v) = o.get("forall") {
            return Some(NodeSpec::Forall(Box::new(NodeSpec::from_json(v)?)));
        }
        if let Some(m) = o.get("multi") {
            let os = |k: &str| m.get(k).and_then(|x| x.as_str()).map(|s| s.to_string());
            return Some(NodeSpec::Multi {
                field: os("field")?,
                operation: os("operation")?,
                value: os("value"),
                operator: os("operator"),
                compare_value: os("compare_value"),
            });
        }
        None
    }
}

fn printed(m: &FactMap) -> Vec<(String, String)> {
    m.iter().map(|(k, v)| (k.clone(), v.print())).collect()
}
fn rendered(m: &FactMap) -> Vec<(String, String)> {
    m.iter().map(|(k, v)| (k.clone(), v.render())).collect()
}

fn run_memo(nodes: &[NodeSpec], factsets: &[FactMap], calls: &[(usize, usize)]) -> Option<(Vec<Disc>, Obs)> {
    let mut out = Vec::new();
    let mut obs = Obs::default();
    let built: Vec<ReteUlNode> = nodes.iter().map(|n| n.node()).collect();
    let node_dbg: Vec<String> = built.iter().map(|n| format!("{:?}", n)).collect();
    let facts: Vec<TypedFacts> = factsets.iter().map(|m| typed(m, None)).collect();
    // two sweeps over the same calls, each with its own evaluator: (0) every node lives in its own
    // place for the whole history; (1) the node of each call is rebuilt into ONE slot, so that
    // successive calls hand over different nodes at the same address (a node edited in place, a
    // loop variable)
    for sweep in 0..2 {
    let mut memo = MemoizedEvaluator::new();
    let mut slot: Option<ReteUlNode> = None;
    for (ci, (ni, fi)) in calls.iter().enumerate() {
        let f = facts.get(*fi)?;
        let node: &ReteUlNode = if sweep == 0 {
            built.get(*ni)?
        } else {
            slot = Some(nodes.get(*ni)?.node());
            slot.as_ref()?
        };
        let got = memo.evaluate(node, f, |n, f| n.evaluate_typed(f));
        let want = node.evaluate_typed(f);
        obs.comparisons += 1;
        if want {
            obs.trues += 1;
        } else {
            obs.falses += 1;
        }
        if got != want {
            // cause predicate: an earlier call on the same node used a fact set that prints the
            // same (key, as_str) list but is a different typed fact set
            let collision = calls[..ci].iter().find(|(pn, pf)| {
                node_dbg[*pn] == node_dbg[*ni]
                    && printed(&factsets[*pf]) == printed(&factsets[*fi])
                    && rendered(&factsets[*pf]) != rendered(&factsets[*fi])
            });
            let (cause, why) = match collision {
                Some((_, pf)) => (
                    "same-print-different-type",
                    format!("an earlier call evaluated the same node on {:?}, which prints alike ({:?}) but differs in type", rendered(&factsets[*pf]), printed(&factsets[*pf])),
                ),
                None => ("unexplained", "no earlier call used a print-alike fact set on this node".to_string()),
            };
            push_disc(
                &mut out,
                "memo",
                cause,
                format!(
                    "call #{}{}: MemoizedEvaluator::evaluate({}, {:?}) = {} but evaluate_typed = {}; {}",
                    ci,
                    if sweep == 1 { " (every call's node rebuilt into one reused slot)" } else { "" },
                    node_dbg[*ni],
                    rendered(&factsets[*fi]),
                    got,
                    want,
                    why
                ),
            );
        }
    }
    obs.hits += memo.stats().hits as u64;
    }
    obs.nontrivial = obs.hits > 0 && obs.trues > 0 && obs.falses > 0;
    Some((out, obs))
}

// ------------------------------------------------------------------------------------------
// conclusion index
// ------------------------------------------------------------------------------------------

#[derive(Clone, Debug, PartialEq)]
enum Act {
    Set(String),
    Log,
    Method(String, String),
    Retract(String),
}
#[derive(Clone, Debug)]
struct RuleSpec {
    name: String,
    enabled: bool,
    acts: Vec<Act>,
}
#[derive(Clone, Debug)]
enum COp {
    Add(RuleSpec),
    Remove(String),
}
#[derive(Clone, Debug)]
struct GoalSpec {
    /// "", "NOT " or "!"
    neg: String,
    field: String,
    /// None: the bare field is the goal
    op: Option<String>,
    rhs: String,
    /// no blanks around a symbolic operator
    tight: bool,
}


impl GoalSpec {
    fn text(&self) -> String {
        match &self.op {
            None => format!("{}{}", self.neg, self.field),
            Some(op) => {
                let word = op.chars().all(|c| c.is_alphabetic());
                if self.tight && !word {
                    format!("{}{}{}{}", self.neg, self.field, op, self.rhs)
                } else {
                    format!("{}{} {} {}", self.neg, self.field, op, self.rhs)
                }
            }
        }
    }
    fn rhs_is_string_literal(&self) -> bool {
        self.rhs.len() >= 2 && (self.rhs.starts_with('"') || self.rhs.starts_with('\''))
    }
    fn literal_holds_operator_text(&self) -> bool {
        self.rhs_is_string_literal()
            && ["==", "!=", ">=", "<=", ">", "<", " contains ", " matches "].iter().any(|o| self.rhs.contains(o))
    }
    fn to_json(&self) -> Json {
        json!({ "neg": self.neg, "field": self.field, "op": self.op, "rhs": self.rhs, "tight": self.tight, "text": self.text() })
    }
    fn from_json(j: &Json) -> Option<GoalSpec> {
        Some(GoalSpec {
            neg: j["neg"].as_str()?.to_string(),
            field: j["field"].as_str()?.to_string(),
            op: j.get("op").and_then(|o| o.as_str()).map(|s| s.to_string()),
            rhs: j["rhs"].as_str().unwrap_or("").to_string(),
            tight: j["tight"].as_bool().unwrap_or(false),
        })
    }
}

fn act_json(a: &Act) -> Json {
    match a {
        Act::Set(f) => json!({ "set": f }),
        Act::Log => json!("log"),
        Act::Method(o, m) => json!({ "method": [o, m] }),
        Act::Retract(o) => json!({ "retract": o }),
    }
}
fn act_parse(j: &Json) -> Option<Act> {
    if j.as_str() == Some("log") {
        return Some(Act::Log);
    }
    if let Some(f) = j.get("set") {
        return Some(Act::Set(f.as_str()?.to_string()));
    }
    if let Some(m) = j.get("method") {
        let a = m.as_array()?;
        return Some(Act::Method(a.first()?.as_str()?.into(), a.get(1)?.as_str()?.into()));
    }
    Some(Act::Retract(j.get("retract")?.as_str()?.to_string()))
}
fn cop_json(o: &COp) -> Json {
    match o {
        COp::Add(r) => json!({ "add_rule": { "name": r.name, "enabled": r.enabled, "actions": r.acts.iter().map(act_json).collect::<Vec<_>>() } }),
        COp::Remove(n) => json!({ "remove_rule": n }),
    }
}
fn cop_parse(j: &Json) -> Option<COp> {
    if let Some(r) = j.get("add_rule") {
        return Some(COp::Add(RuleSpec {
            name: r["name"].as_str()?.to_string(),
            enabled: r["enabled"].as_bool()?,
            acts: r["actions"].as_array()?.iter().map(act_parse).collect::<Option<_>>()?,
        }));
    }
    Some(COp::Remove(j.get("remove_rule")?.as_str()?.to_string()))
}

fn build_rule(r: &RuleSpec) -> Rule {
    let cond = ConditionGroup::Single(Condition::new("dummy".to_string(), Operator::Equal, Value::Boolean(true)));
    let actions = r
        .acts
        .iter()
        .map(|a| match a {
            Act::Set(f) => ActionType::Set { field: f.clone(), value: Value::Boolean(true) },
            Act::Log => ActionType::Log { message: "m".into() },
            Act::Method(o, m) => ActionType::MethodCall { object: o.clone(), method: m.clone(), args: vec![] },
            Act::Retract(o) => ActionType::Retract { object: o.clone() },
        })
        .collect();
    let mut rule = Rule::new(r.name.clone(), cond, actions);
    rule.enabled = r.enabled;
    rule
}

fn run_concl(ops: &[COp], goals: &[GoalSpec]) -> Option<(Vec<Disc>, Obs)> {
    let mut out = Vec::new();
    let mut obs = Obs::default();
    let mut ix = ConclusionIndex::new();
    let mut present: BTreeMap<String, RuleSpec> = BTreeMap::new();
    for (oi, op) in ops.iter().enumerate() {
        match op {
            COp::Add(r) => {
                // a name that is already present: the index is handed the new version of the rule
                // (the sequence is a legitimate one for the index's own API); from here on the
                // rule "present under that name" is the new version
                if present.contains_key(&r.name) {
                    obs.readds += 1;
                }
                ix.add_rule(&build_rule(r));
                present.insert(r.name.clone(), r.clone());
            }
            COp::Remove(n) => {
                ix.remove_rule(n);
                if present.remove(n).is_some() {
                    obs.effective_removes += 1;
                }
            }
        }
        if ops.len() > 24 && !(oi % 8 == 7 || oi + 1 == ops.len() || matches!(op, COp::Remove(_))) {
            continue;
        }
        for g in goals {
            let text = g.text();
            let got = ix.find_candidates(&text);
            let want: BTreeSet<&String> = present
                .values()
                .filter(|r| r.enabled && r.acts.contains(&Act::Set(g.field.clone())))
                .map(|r| &r.name)
                .collect();
            obs.comparisons += 1;
            obs.expected_total += want.len() as u64;
            if !want.is_empty() {
                obs.nonempty += 1;
                if obs.effective_removes > 0 {
                    obs.nontrivial = true;
                }
            }
            let missing: Vec<&String> = want.iter().filter(|n| !got.contains(**n)).copied().collect();
            if !missing.is_empty() {
                let cause = if !g.neg.is_empty() {
                    "negated-goal"
                } else if g.literal_holds_operator_text() {
                    "operator-text-inside-string-literal"
                } else {
                    "unexplained"
                };
                let mut gotv: Vec<&String> = got.iter().collect();
                gotv.sort();
                push_disc(
                    &mut out,
                    "conclusion",
                    cause,
                    format!(
                        "after op #{}: find_candidates({:?}) = {:?} does not contain {:?}: enabled rule(s) with a Set on the goal's field `{}`",
                        oi, text, gotv, missing, g.field
                    ),
                );
            }
        }
    }
    Some((out, obs))
}

const CONCL_FIELDS: [&str; 10] = ["User.IsVIP", "User.IsVIPGold", "User.Age", "User", "Order.Total", "Order.Item.Price", "flag", "Gr\u{f6}\u{df}e.Wert", "\u{dc}r\u{fc}n", "Kh\u{e1}ch.H\u{e0}ng.L\u{e0}VIP"];

fn clean_goals() -> Vec<GoalSpec> {
    let mut v = Vec::new();
    for f in CONCL_FIELDS {
        let g = |op: Option<&str>, rhs: &str, tight: bool| GoalSpec {
            neg: String::new(),
            field: f.to_string(),
            op: op.map(|s| s.to_string()),
            rhs: rhs.to_string(),
            tight,
        };
        v.push(g(None, "", false));
        v.push(g(Some("=="), "true", false));
        v.push(g(Some("=="), "true", true));
        v.push(g(Some("!="), "\"x\"", false));
        v.push(g(Some(">"), "100", false));
        v.push(g(Some(">"), "100", true));
        v.push(g(Some(">="), "1.5", false));
        v.push(g(Some("<"), "-3", false));
        v.push(g(Some("<="), "0", true));
        v.push(g(Some("=="), "'VIP'", false));
        v.push(g(Some("=="), "\"a b.c\"", false));
        v.push(g(Some("contains"), "\"a\"", false));
        v.push(g(Some("matches"), "\"a*\"", false));
    }
    v
}

fn hostile_goals() -> Vec<GoalSpec> {
    let mut v = Vec::new();
    for f in CONCL_FIELDS {
        let g = |neg: &str, op: Option<&str>, rhs: &str| GoalSpec {
            neg: neg.to_string(),
            field: f.to_string(),
            op: op.map(|s| s.to_string()),
            rhs: rhs.to_string(),
            tight: false,
        };
        // string literals that contain operator text
        v.push(g("", Some("!="), "\"a==b\""));
        v.push(g("", Some(">="), "\"x.y!=z\""));
        v.push(g("", Some(">"), "\"<=\""));
        v.push(g("", Some("=="), "\"a>b\""));
        v.push(g("", Some("contains"), "\"x > y\""));
        v.push(g("", Some("matches"), "\"a contains b\""));
        // negated goals (documented by QueryParser::parse and the expression grammar)
        v.push(g("NOT ", Some("=="), "true"));
        v.push(g("!", None, ""));
    }
    v
}

// ------------------------------------------------------------------------------------------
// the case
// ------------------------------------------------------------------------------------------

#[derive(Clone, Debug)]
enum Case {
    Alpha { ops: Vec<AOp>, probes: Vec<Val> },
    Beta { ops: Vec<BOp>, probes: Vec<String> },
    Memo { nodes: Vec<NodeSpec>, factsets: Vec<FactMap>, calls: Vec<(usize, usize)> },
    Concl { ops: Vec<COp>, goals: Vec<GoalSpec> },
    /// the conclusion index as a BackwardEngine keeps it: knowledge-base edits after the engine
    /// was built, `rebuild_index()`, queries compared with an engine built from scratch
    Engine { steps: Vec<EStep> },
}

/// (name index, condition field index, threshold, goal field index, salience)
#[derive(Clone, Debug, PartialEq)]
struct ERule {
    name: u8,
    when: u8,
    more_than: i64,
    sets: u8,
    salience: i32,
}

#[derive(Clone, Debug, PartialEq)]
enum EStep {
    /// before the engine is built
    Setup(ERule),
    Add(ERule),
    Remove(u8),
    Enable(u8, bool),
    Rebuild,
    Query(u8),
}

const E_WHEN: [&str; 3] = ["User.Points", "User.Spend", "User.Age"];
const E_WHEN_VALUES: [i64; 3] = [50, 5000, 30];
const E_SETS: [&str; 4] = ["User.IsVIP", "User.Premium", "Order.Free", "Flag"];

fn estep_json(s: &EStep) -> Json {
    let r = |r: &ERule| json!({"name": format!("E{}", r.name), "when": format!("{} > {}", E_WHEN[r.when as usize], r.more_than), "then": format!("{} = true", E_SETS[r.sets as usize]), "salience": r.salience,
                               "raw": [r.name, r.when, r.more_than, r.sets, r.salience]});
    match s {
        EStep::Setup(x) => json!({"before_the_engine_is_built_add_rule": r(x)}),
        EStep::Add(x) => json!({"knowledge_base_add_rule": r(x)}),
        EStep::Remove(n) => json!({"knowledge_base_remove_rule": format!("E{}", n)}),
        EStep::Enable(n, b) => json!({"knowledge_base_set_rule_enabled": [format!("E{}", n), b]}),
        EStep::Rebuild => json!("rebuild_index"),
        EStep::Query(g) => json!({"query": format!("{} == true", E_SETS[*g as usize]), "goal": g}),
    }
}
fn estep_parse(j: &Json) -> Option<EStep> {
    let r = |j: &Json| -> Option<ERule> {
        let a = j["raw"].as_array()?;
        Some(ERule { name: a[0].as_u64()? as u8, when: a[1].as_u64()? as u8, more_than: a[2].as_i64()?, sets: a[3].as_u64()? as u8, salience: a[4].as_i64()? as i32 })
    };
    let name = |v: &Json| -> Option<u8> { v.as_str()?.strip_prefix('E')?.parse().ok() };
    if j.as_str() == Some("rebuild_index") {
        return Some(EStep::Rebuild);
    }
    if let Some(x) = j.get("before_the_engine_is_built_add_rule") {
        return Some(EStep::Setup(r(x)?));
    }
    if let Some(x) = j.get("knowledge_base_add_rule") {
        return Some(EStep::Add(r(x)?));
    }
    if let Some(x) = j.get("knowledge_base_remove_rule") {
        return Some(EStep::Remove(name(x)?));
    }
    if let Some(x) = j.get("knowledge_base_set_rule_enabled") {
        return Some(EStep::Enable(name(&x[0])?, x[1].as_bool()?));
    }
    if j.get("query").is_some() {
        return Some(EStep::Query(j["goal"].as_u64()? as u8));
    }
    None
}

fn e_rule(r: &ERule) -> Rule {
    Rule::new(
        format!("E{}", r.name),
        ConditionGroup::single(Condition::new(E_WHEN[r.when as usize].to_string(), Operator::GreaterThan, Value::Integer(r.more_than))),
        vec![ActionType::Set { field: E_SETS[r.sets as usize].to_string(), value: Value::Boolean(true) }],
    )
    .with_salience(r.salience)
}

fn e_facts() -> rust_rule_engine::Facts {
    let f = rust_rule_engine::Facts::new();
    for (k, v) in E_WHEN.iter().zip(E_WHEN_VALUES) {
        f.set(k, Value::Integer(v));
    }
    f
}

/// Queries are compared after a `rebuild_index()` that follows the last edit ("rebuild the index
/// after modifying the knowledge base"); a query asked while the index is stale is not judged.
/// Memoisation is off on both engines (what a memo may keep across edits is C11's subject).
fn run_engine_index(steps: &[EStep]) -> Option<(Vec<Disc>, Obs)> {
    use rust_rule_engine::backward::{BackwardConfig, BackwardEngine};
    let mut out = Vec::new();
    let mut obs = Obs::default();
    let kb = rust_rule_engine::KnowledgeBase::new("c16");
    let mut i = 0;
    while let Some(EStep::Setup(r)) = steps.get(i) {
        let _ = kb.add_rule(e_rule(r));
        i += 1;
    }
    let cfg = || BackwardConfig { enable_memoization: false, ..BackwardConfig::default() };
    let mut engine = BackwardEngine::with_config(kb, cfg());
    let mut stale = false;
    let mut edits = 0u64;
    for (si, st) in steps.iter().enumerate().skip(i) {
        match st {
            EStep::Setup(_) => return None,
            EStep::Add(r) => {
                if engine.knowledge_base().add_rule(e_rule(r)).is_ok() {
                    stale = true;
                    edits += 1;
                    obs.readds += 1;
                }
            }
            EStep::Remove(n) => {
                if engine.knowledge_base().remove_rule(&format!("E{}", n)).unwrap_or(false) {
                    stale = true;
                    edits += 1;
                    obs.effective_removes += 1;
                }
            }
            EStep::Enable(n, b) => {
                if engine.knowledge_base().set_rule_enabled(&format!("E{}", n), *b).unwrap_or(false) {
                    stale = true;
                    edits += 1;
                }
            }
            EStep::Rebuild => {
                engine.rebuild_index();
                stale = false;
            }
            EStep::Query(g) => {
                if stale {
                    continue;
                }
                let q = format!("{} == true", E_SETS[*g as usize]);
                let mut f1 = e_facts();
                let a = engine.query(&q, &mut f1).map(|r| r.provable);
                let mut fresh = BackwardEngine::with_config(engine.knowledge_base().clone(), cfg());
                let mut f2 = e_facts();
                let b = fresh.query(&q, &mut f2).map(|r| r.provable);
                obs.comparisons += 1;
                match (&a, &b) {
                    (Ok(x), Ok(y)) => {
                        if *y {
                            obs.nonempty += 1;
                        }
                        if x != y {
                            let rules: Vec<String> = engine.knowledge_base().get_rules().iter().map(|r| format!("{}(salience {}, enabled {})", r.name, r.salience, r.enabled)).collect();
                            let cause = if *y { "engine-built-earlier-cannot-prove-what-a-fresh-engine-proves" } else { "engine-built-earlier-proves-what-a-fresh-engine-does-not" };
                            push_disc(&mut out, "engine-index", cause, format!("step {}: after {} knowledge-base edits and rebuild_index(), query `{}`: the engine built earlier says provable = {}, an engine built from scratch on the same knowledge base [{}] says {}", si, edits, q, x, rules.join(", "), y));
                        } else if edits > 0 && *y {
                            obs.nontrivial = true;
                        }
                    }
                    (Err(_), Err(_)) => {}
                    _ => push_disc(&mut out, "engine-index", "one-engine-errs-the-other-answers", format!("step {}: query `{}`: engine built earlier {:?}, fresh engine {:?}", si, q, a.as_ref().map_err(|e| e.to_string()), b.as_ref().map_err(|e| e.to_string()))),
                }
            }
        }
    }
    Some((out, obs))
}

fn gen_engine_index(rng: &mut Rng) -> Case {
    let rule = |rng: &mut Rng| {
        let when = rng.below(3) as u8;
        // half of the conditions hold on the facts, half do not
        let more_than = if rng.bool() { E_WHEN_VALUES[when as usize] - 1 - rng.below(20) as i64 } else { E_WHEN_VALUES[when as usize] + rng.below(20) as i64 };
        ERule { name: rng.below(8) as u8, when, more_than, sets: rng.below(4) as u8, salience: *rng.pick(&[0, 0, 0, 10, -5, 3, 100]) }
    };
    let mut steps = Vec::new();
    for _ in 0..rng.below(4) {
        steps.push(EStep::Setup(rule(rng)));
    }
    let n = 3 + rng.below(10);
    for _ in 0..n {
        steps.push(match rng.below(12) {
            0..=3 => EStep::Add(rule(rng)),
            4 => EStep::Remove(rng.below(8) as u8),
            5 => EStep::Enable(rng.below(8) as u8, rng.bool()),
            6..=8 => EStep::Rebuild,
            _ => EStep::Query(rng.below(4) as u8),
        });
    }
    steps.push(EStep::Rebuild);
    for g in 0..4u8 {
        steps.push(EStep::Query(g));
    }
    Case::Engine { steps }
}

impl Case {
    fn to_json(&self) -> Json {
        match self {
            Case::Alpha { ops, probes } => json!({
                "monitor": "alpha",
                "ops": ops.iter().map(aop_json).collect::<Vec<_>>(),
                "probe_fields": ALPHA_FIELDS,
                "probe_values": probes.iter().map(|p| p.to_json()).collect::<Vec<_>>(),
            }),
            Case::Beta { ops, probes } => json!({
                "monitor": "beta",
                "join_key": BETA_KEY,
                "ops": ops.iter().map(bop_json).collect::<Vec<_>>(),
                "probe_keys": probes,
            }),
            Case::Memo { nodes, factsets, calls } => json!({
                "monitor": "memo",
                "nodes": nodes.iter().map(|n| n.to_json()).collect::<Vec<_>>(),
                "factsets": factsets.iter().map(fm_json).collect::<Vec<_>>(),
                "calls": calls.iter().map(|(n, f)| json!([n, f])).collect::<Vec<_>>(),
            }),
            Case::Concl { ops, goals } => json!({
                "monitor": "conclusion",
                "ops": ops.iter().map(cop_json).collect::<Vec<_>>(),
                "goals": goals.iter().map(|g| g.to_json()).collect::<Vec<_>>(),
            }),
            Case::Engine { steps } => json!({
                "monitor": "engine-index",
                "facts": E_WHEN.iter().zip(E_WHEN_VALUES).map(|(k, v)| format!("{} = {}", k, v)).collect::<Vec<_>>(),
                "steps": steps.iter().map(estep_json).collect::<Vec<_>>(),
            }),
        }
    }
    fn from_json(j: &Json) -> Option<Case> {
        match j["monitor"].as_str()? {
            "alpha" => Some(Case::Alpha {
                ops: j["ops"].as_array()?.iter().map(aop_parse).collect::<Option<_>>()?,
                probes: j["probe_values"].as_array()?.iter().map(Val::from_json).collect::<Option<_>>()?,
            }),
            "beta" => Some(Case::Beta {
                ops: j["ops"].as_array()?.iter().map(bop_parse).collect::<Option<_>>()?,
                probes: j["probe_keys"].as_array()?.iter().map(|s| s.as_str().map(|x| x.to_string())).collect::<Option<_>>()?,
            }),
            "memo" => Some(Case::Memo {
                nodes: j["nodes"].as_array()?.iter().map(NodeSpec::from_json).collect::<Option<_>>()?,
                factsets: j["factsets"].as_array()?.iter().map(fm_parse).collect::<Option<_>>()?,
                calls: j["calls"]
                    .as_array()?
                    .iter()
                    .map(|c| Some((c.get(0)?.as_u64()? as usize, c.get(1)?.as_u64()? as usize)))
                    .collect::<Option<_>>()?,
            }),
            "conclusion" => Some(Case::Concl {
                ops: j["ops"].as_array()?.iter().map(cop_parse).collect::<Option<_>>()?,
                goals: j["goals"].as_array()?.iter().map(GoalSpec::from_json).collect::<Option<_>>()?,
            }),
            "engine-index" => Some(Case::Engine { steps: j["steps"].as_array()?.iter().map(estep_parse).collect::<Option<_>>()? }),
            _ => None,
        }
    }
    fn monitor(&self) -> &'static str {
        match self {
            Case::Alpha { .. } => "alpha",
            Case::Beta { .. } => "beta",
            Case::Memo { .. } => "memo",
            Case::Concl { .. } => "conclusion",
            Case::Engine { .. } => "engine-index",
        }
    }
}

/// The one function both explore and replay use. `None`: the history is outside what the
/// monitor defines (only reachable from hand-edited or mid-shrink cases).
fn run_case(c: &Case) -> Option<(Vec<Disc>, Obs)> {
    match c {
        Case::Alpha { ops, probes } => Some(run_alpha(ops, probes)),
        Case::Beta { ops, probes } => run_beta(ops, probes),
        Case::Memo { nodes, factsets, calls } => run_memo(nodes, factsets, calls),
        Case::Concl { ops, goals } => run_concl(ops, goals),
        Case::Engine { steps } => run_engine_index(steps),
    }
}

fn to_violation(c: &Case, d: &Disc) -> Violation {
    Violation {
        clause: d.clause.clone(),
        sig: format!("C16|{}|{}", d.clause, d.cause),
        detail: d.detail.clone(),
        case: c.to_json(),
    }
}
fn panic_violation(c: &Case, p: &pan::PanicInfo) -> Violation {
    Violation {
        clause: format!("{}-no-panic", c.monitor()),
        sig: format!("C16|{}|panic|{}|{}", c.monitor(), p.class(), p.frame),
        detail: format!("panic: {} at {}:{}", p.msg, p.file, p.line),
        case: c.to_json(),
    }
}

fn still(c: &Case, d: &Disc) -> bool {
    matches!(pan::catch(|| run_case(c)), Ok(Some((ds, _))) if ds.iter().any(|x| x.clause == d.clause && x.cause == d.cause))
}

/// Shrink while the same (clause, cause) keeps failing.
fn shrink(c: &Case, d: &Disc) -> Case {
    match c {
        Case::Alpha { ops, probes } => {
            let mut f = |o: &[AOp]| still(&Case::Alpha { ops: o.to_vec(), probes: probes.clone() }, d);
            let ops = shrink_list(ops, &mut f);
            let mut g = |p: &[Val]| still(&Case::Alpha { ops: ops.clone(), probes: p.to_vec() }, d);
            let probes = shrink_list(probes, &mut g);
            // drop fields of inserted facts that are not needed
            let mut ops = ops;
            for i in 0..ops.len() {
                let keys: Vec<String> = match &ops[i] {
                    AOp::Insert(m) => m.keys().cloned().collect(),
                    _ => continue,
                };
                for k in keys {
                    let mut cand = ops.clone();
                    if let AOp::Insert(m) = &mut cand[i] {
                        m.remove(&k);
                    }
                    if still(&Case::Alpha { ops: cand.clone(), probes: probes.clone() }, d) {
                        ops = cand;
                    }
                }
            }
            Case::Alpha { ops, probes }
        }
        Case::Beta { ops, probes } => {
            let mut f = |o: &[BOp]| still(&Case::Beta { ops: o.to_vec(), probes: probes.clone() }, d);
            let ops = shrink_list(ops, &mut f);
            let mut g = |p: &[String]| still(&Case::Beta { ops: ops.clone(), probes: p.to_vec() }, d);
            let probes = shrink_list(probes, &mut g);
            Case::Beta { ops, probes }
        }
        Case::Memo { nodes, factsets, calls } => {
            let mut f = |cs: &[(usize, usize)]| still(&Case::Memo { nodes: nodes.clone(), factsets: factsets.clone(), calls: cs.to_vec() }, d);
            let calls = shrink_list(calls, &mut f);
            // keep only the nodes / fact sets still referred to
            let un: Vec<usize> = calls.iter().map(|c| c.0).collect::<BTreeSet<_>>().into_iter().collect();
            let uf: Vec<usize> = calls.iter().map(|c| c.1).collect::<BTreeSet<_>>().into_iter().collect();
            let cand = Case::Memo {
                nodes: un.iter().map(|i| nodes[*i].clone()).collect(),
                factsets: uf.iter().map(|i| factsets[*i].clone()).collect(),
                calls: calls
                    .iter()
                    .map(|(n, f)| (un.iter().position(|x| x == n).unwrap(), uf.iter().position(|x| x == f).unwrap()))
                    .collect(),
            };
            if still(&cand, d) {
                cand
            } else {
                Case::Memo { nodes: nodes.clone(), factsets: factsets.clone(), calls }
            }
        }
        Case::Concl { ops, goals } => {
            let mut f = |o: &[COp]| still(&Case::Concl { ops: o.to_vec(), goals: goals.clone() }, d);
            let ops = shrink_list(ops, &mut f);
            let mut g = |gs: &[GoalSpec]| still(&Case::Concl { ops: ops.clone(), goals: gs.to_vec() }, d);
            let goals = shrink_list(goals, &mut g);
            Case::Concl { ops, goals }
        }
        Case::Engine { steps } => {
            // set-up steps must stay in front: shrink the two parts separately
            let k = steps.iter().take_while(|s| matches!(s, EStep::Setup(_))).count();
            let (head, tail) = (steps[..k].to_vec(), steps[k..].to_vec());
            let mut f = |t: &[EStep]| still(&Case::Engine { steps: head.iter().cloned().chain(t.iter().cloned()).collect() }, d);
            let tail = shrink_list(&tail, &mut f);
            let mut g = |h: &[EStep]| still(&Case::Engine { steps: h.iter().cloned().chain(tail.iter().cloned()).collect() }, d);
            let head = shrink_list(&head, &mut g);
            Case::Engine { steps: head.into_iter().chain(tail).collect() }
        }
    }
}

/// how many witnesses per signature one shard shrinks before it only counts repeats
const SHRINK_PER_SIG: u64 = 6;

thread_local! {
    static SAMPLED: std::cell::Cell<u8> = const { std::cell::Cell::new(0) };
}

fn check_case(c: &Case, st: &mut Stats) {
    st.eval();
    let mon = c.monitor();
    match pan::catch_frames(|| run_case(c)) {
        Ok(Some((discs, obs))) => {
            st.add(&format!("{}::comparisons", mon), obs.comparisons);
            if mon != "memo" {
                st.add(&format!("{}::comparisons_with_nonempty_plain_answer", mon), obs.nonempty);
            }
            st.count(&format!("{}::histories", mon));
            match c {
                Case::Alpha { .. } => {
                    st.add("alpha::filters_answered_through_an_index", obs.by_index);
                    st.add("alpha::filters_answered_through_an_index_nonempty", obs.by_index_nonempty);
                }
                Case::Beta { .. } => st.add("beta::removes_of_live_facts", obs.effective_removes),
                Case::Memo { .. } => {
                    st.add("memo::cache_hits", obs.hits);
                    st.add("memo::direct_true", obs.trues);
                    st.add("memo::direct_false", obs.falses);
                }
                Case::Concl { .. } => {
                    st.add("conclusion::removes_of_present_rules", obs.effective_removes);
                    st.add("conclusion::add_rule_under_a_present_name", obs.readds);
                    st.add("conclusion::expected_candidates", obs.expected_total);
                }
                Case::Engine { .. } => {
                    st.add("engine-index::knowledge_base_removes", obs.effective_removes);
                    st.add("engine-index::knowledge_base_adds", obs.readds);
                }
            }
            if obs.nontrivial {
                st.nontrivial(hash_of(&format!("{:?}", c)));
                st.count(&format!("{}::nontrivial_histories", mon));
                // one sample per monitor and shard
                let bit = 1u8 << ["alpha", "beta", "memo", "conclusion", "engine-index"].iter().position(|m| *m == mon).unwrap_or(0);
                if SAMPLED.with(|s| s.get()) & bit == 0 && st.samples.len() < SAMPLE_CAP {
                    SAMPLED.with(|s| s.set(s.get() | bit));
                    st.sample(|| c.to_json());
                }
            }
            for d in &discs {
                let key = format!("discrepancies::C16|{}|{}", d.clause, d.cause);
                st.count(&key);
                if st.get(&key) > SHRINK_PER_SIG {
                    // same cause predicate as witnesses already shrunk in this shard: count only
                    continue;
                }
                let small = shrink(c, d);
                match pan::catch(|| run_case(&small)) {
                    Ok(Some((ds, _))) => match ds.iter().find(|x| x.clause == d.clause && x.cause == d.cause) {
                        Some(x) => st.violation(to_violation(&small, x)),
                        None => st.violation(to_violation(c, d)),
                    },
                    _ => st.violation(to_violation(c, d)),
                }
            }
        }
        Ok(None) => st.count(&format!("{}::skipped_undefined_history", mon)),
        Err(p) => st.violation(panic_violation(c, &p)),
    }
}

// ------------------------------------------------------------------------------------------
// generators
// ------------------------------------------------------------------------------------------

fn gen_factmap(rng: &mut Rng, dom: &[Val], fields: &[&str]) -> FactMap {
    let mut m = FactMap::new();
    for f in fields {
        if rng.chance(4, 5) {
            m.insert(f.to_string(), rng.pick(dom).clone());
        }
    }
    m
}

fn gen_alpha(rng: &mut Rng) -> Case {
    // hostile values (NaN, -0.0) only in a minority of the histories
    let dom = if rng.chance(2, 5) { domain() } else { clean_domain() };
    // one history in 20 is long (40..=300 operations: hundreds of indexed facts)
    let n = if rng.chance(1, 20) { 40 + rng.below(261) } else { 1 + rng.below(10) };
    let mut ops = Vec::new();
    for _ in 0..n {
        let field = rng.pick(&["a", "a", "b", "zz"]).to_string();
        ops.push(match rng.below(20) {
            0..=10 => AOp::Insert(gen_factmap(rng, &dom, &["a", "b"])),
            11..=14 => AOp::Create(field),
            15..=16 => AOp::Drop(field),
            17 => AOp::Tracked(field, rng.pick(&dom).clone(), *rng.pick(&[1u32, 3, 51, 60])),
            18 => AOp::AutoTune,
            _ => AOp::Create(field),
        });
    }
    Case::Alpha { ops, probes: dom }
}

fn gen_beta(rng: &mut Rng) -> Case {
    let dom = domain();
    let n = if rng.chance(1, 20) { 40 + rng.below(261) } else { 1 + rng.below(10) };
    let mut ops = Vec::new();
    let mut live: BTreeSet<usize> = BTreeSet::new();
    let mut next = 0usize;
    for _ in 0..n {
        if live.is_empty() || rng.chance(3, 5) {
            // a fresh position, or one that was removed before
            let idx = if next > 0 && rng.chance(1, 4) {
                let cand = rng.below(next);
                if live.contains(&cand) {
                    next
                } else {
                    cand
                }
            } else {
                next
            };
            if idx == next {
                next += 1;
            }
            // small key domain so that several facts share a key
            let kd: Vec<Val> = if rng.bool() { dom.clone() } else { dom.iter().take(6).cloned().collect() };
            let mut m = FactMap::new();
            if rng.chance(9, 10) {
                m.insert(BETA_KEY.to_string(), rng.pick(&kd).clone());
            }
            m.insert("other".to_string(), rng.pick(&dom).clone());
            live.insert(idx);
            ops.push(BOp::Add(m, idx));
        } else if rng.chance(4, 5) {
            let v: Vec<usize> = live.iter().copied().collect();
            let idx = *rng.pick(&v);
            live.remove(&idx);
            ops.push(BOp::Remove(idx));
        } else {
            // a position that is not live (removed earlier or never added)
            let idx = rng.below(next + 2);
            if !live.contains(&idx) {
                ops.push(BOp::Remove(idx));
            }
        }
    }
    Case::Beta { ops, probes: beta_default_probes() }
}

/// Groups of values that print alike (`as_str`) but differ in type.
fn print_classes() -> Vec<Vec<Val>> {
    let s = |x: &str| S(x.to_string());
    vec![
        vec![I(25), s("25"), F(25.0)],
        vec![I(1), F(1.0), s("1")],
        vec![B(true), s("true")],
        vec![B(false), s("false")],
        vec![Null, s("null")],
        vec![I(0), F(0.0), s("0")],
        vec![F(-0.0), s("-0")],
        vec![F(f64::NAN), s("NaN")],
        vec![F(f64::INFINITY), s("inf")],
        vec![A(vec![I(1)]), s("[Integer(1)]")],
        vec![A(vec![]), s("[]")],
        vec![F(1.5), s("1.5")],
        vec![s("abc")],
        vec![s("1.0")],
    ]
}

const MEMO_VALUES: [&str; 16] = ["25", "1", "1.0", "true", "false", "null", "0", "-0", "NaN", "inf", "[1]", "[]", "1.5", "abc", "b", "[Integer(1)]"];
const MEMO_OPS: [&str; 11] = ["==", "!=", ">", "<", ">=", "<=", "contains", "startsWith", "endsWith", "matches", "in"];

fn gen_node(rng: &mut Rng, depth: usize) -> NodeSpec {
    if depth == 0 || rng.chance(1, 2) {
        if rng.chance(1, 8) {
            let operation = rng.pick(&["empty", "not_empty", "count", "contains", "first", "collect"]).to_string();
            return NodeSpec::Multi {
                field: rng.pick(&["a", "b"]).to_string(),
                value: if operation == "contains" { Some(rng.pick(&["1", "true", "abc"]).to_string()) } else { None },
                operator: if operation == "count" && rng.bool() { Some(rng.pick(&[">", "==", "<"]).to_string()) } else { None },
                compare_value: if operation == "count" { Some(rng.pick(&["0", "1"]).to_string()) } else { None },
                operation,
            };
        }
        return NodeSpec::Alpha(
            rng.pick(&["a", "a", "b", "missing"]).to_string(),
            rng.pick(&MEMO_OPS).to_string(),
            rng.pick(&MEMO_VALUES).to_string(),
        );
    }
    match rng.below(6) {
        0 | 1 => NodeSpec::And(Box::new(gen_node(rng, depth - 1)), Box::new(gen_node(rng, depth - 1))),
        2 => NodeSpec::Or(Box::new(gen_node(rng, depth - 1)), Box::new(gen_node(rng, depth - 1))),
        3 => NodeSpec::Not(Box::new(gen_node(rng, depth - 1))),
        4 => NodeSpec::Exists(Box::new(gen_node(rng, depth - 1))),
        _ => NodeSpec::Forall(Box::new(gen_node(rng, depth - 1))),
    }
}

/// A copy of `n` in which exactly ONE parameter of one leaf differs (field, operator, literal,
/// multifield operation / operator / compare value): two nodes that a cache key must tell apart
/// although everything else about them is equal.
fn near_duplicate(rng: &mut Rng, n: &NodeSpec) -> NodeSpec {
    fn other<'a>(rng: &mut Rng, pool: &[&'a str], cur: &str) -> String {
        let alts: Vec<&&str> = pool.iter().filter(|x| **x != cur).collect();
        rng.pick(&alts).to_string()
    }
    match n {
        NodeSpec::Alpha(f, o, v) => match rng.below(3) {
            0 => NodeSpec::Alpha(other(rng, &["a", "b", "missing"], f), o.clone(), v.clone()),
            1 => NodeSpec::Alpha(f.clone(), other(rng, &MEMO_OPS, o), v.clone()),
            _ => NodeSpec::Alpha(f.clone(), o.clone(), other(rng, &MEMO_VALUES, v)),
        },
        NodeSpec::Multi { field, operation, value, operator, compare_value } => {
            let mut m = (field.clone(), operation.clone(), value.clone(), operator.clone(), compare_value.clone());
            match rng.below(4) {
                0 => m.0 = other(rng, &["a", "b"], field),
                1 if operation == "count" => m.4 = Some(other(rng, &["0", "1", "2", "5"], compare_value.as_deref().unwrap_or(""))),
                2 if operation == "count" => m.3 = Some(other(rng, &[">", "==", "<", ">=", "!="], operator.as_deref().unwrap_or(""))),
                3 if operation == "contains" => m.2 = Some(other(rng, &["1", "true", "abc", "25"], value.as_deref().unwrap_or(""))),
                _ => {
                    m.1 = other(rng, &["empty", "not_empty", "first", "collect"], operation);
                    m.2 = None;
                    m.3 = None;
                    m.4 = None;
                }
            }
            NodeSpec::Multi { field: m.0, operation: m.1, value: m.2, operator: m.3, compare_value: m.4 }
        }
        NodeSpec::And(l, r) => {
            if rng.bool() {
                NodeSpec::And(Box::new(near_duplicate(rng, l)), r.clone())
            } else {
                NodeSpec::And(l.clone(), Box::new(near_duplicate(rng, r)))
            }
        }
        NodeSpec::Or(l, r) => {
            if rng.bool() {
                NodeSpec::Or(Box::new(near_duplicate(rng, l)), r.clone())
            } else {
                NodeSpec::Or(l.clone(), Box::new(near_duplicate(rng, r)))
            }
        }
        NodeSpec::Not(x) => NodeSpec::Not(Box::new(near_duplicate(rng, x))),
        NodeSpec::Exists(x) => NodeSpec::Exists(Box::new(near_duplicate(rng, x))),
        NodeSpec::Forall(x) => NodeSpec::Forall(Box::new(near_duplicate(rng, x))),
    }
}

fn gen_memo(rng: &mut Rng) -> Case {
    let classes = print_classes();
    let mut nn = 1 + rng.below(3);
    let mut nodes: Vec<NodeSpec> = (0..nn).map(|_| gen_node(rng, 2)).collect();
    if rng.chance(1, 8) {
        // a `count` node over an array-valued field, so that compare values matter
        nodes[0] = NodeSpec::Multi { field: "a".into(), operation: "count".into(), value: None, operator: Some(rng.pick(&[">", "==", "<"]).to_string()), compare_value: Some(rng.pick(&["0", "1", "2"]).to_string()) };
    }
    if rng.chance(1, 2) {
        let k = rng.below(nn);
        let twin = near_duplicate(rng, &nodes[k]);
        nodes.push(twin);
        nn += 1;
    }
    let collide = rng.chance(1, 2);
    let nf = 2 + rng.below(3);
    let mut factsets: Vec<FactMap> = Vec::new();
    if collide {
        // fact sets over the same print classes, types alternating
        let ca = rng.pick(&classes).clone();
        let cb = rng.pick(&classes).clone();
        let with_b = rng.bool();
        for _ in 0..nf {
            let mut m = FactMap::new();
            m.insert("a".into(), rng.pick(&ca).clone());
            if with_b {
                m.insert("b".into(), rng.pick(&cb).clone());
            }
            factsets.push(m);
        }
    } else {
        // every fact set prints differently from the others (or is repeated identically)
        let mut order: Vec<usize> = (0..classes.len()).collect();
        rng.shuffle(&mut order);
        for i in 0..nf {
            let mut m = FactMap::new();
            // mostly under `a`; sometimes the same value under another key, or under both
            let key = *rng.pick(&["a", "a", "a", "b", "c"]);
            m.insert(key.into(), rng.pick(&classes[order[i]]).clone());
            if rng.bool() {
                let cl = rng.pick(&classes).clone();
                m.insert(rng.pick(&["a", "b", "b"]).to_string(), rng.pick(&cl).clone());
            }
            factsets.push(m);
        }
        if rng.chance(1, 3) {
            // the first fact set again, under renamed keys (same values in the same key order)
            let renamed: FactMap = factsets[0]
                .iter()
                .map(|(k, v)| (if k == "a" { "b".to_string() } else { format!("{}x", k) }, v.clone()))
                .collect();
            factsets.push(renamed);
        }
    }
    let nc = 2 + rng.below(9);
    let nf = factsets.len();
    let calls: Vec<(usize, usize)> = (0..nc).map(|_| (rng.below(nn), rng.below(nf))).collect();
    Case::Memo { nodes, factsets, calls }
}

fn gen_concl(rng: &mut Rng) -> Case {
    // one history in 20 is long: 40..=300 operations over 120 rule names
    let long = rng.chance(1, 20);
    let n = if long { 40 + rng.below(261) } else { 1 + rng.below(10) };
    let names = if long { 120 } else { 5 };
    let mut ops = Vec::new();
    let mut present: BTreeSet<String> = BTreeSet::new();
    for _ in 0..n {
        let name = format!("R{}", rng.below(names));
        if (!present.contains(&name) || rng.chance(1, 4)) && (present.is_empty() || rng.chance(3, 5)) {
            let na = 1 + rng.below(3);
            let acts = (0..na)
                .map(|_| match rng.below(10) {
                    0 => Act::Log,
                    1 => Act::Method(rng.pick(&["User", "Order"]).to_string(), rng.pick(&["setAge", "IsVIP"]).to_string()),
                    2 => Act::Retract(rng.pick(&["User", "Order"]).to_string()),
                    _ => Act::Set(rng.pick(&CONCL_FIELDS).to_string()),
                })
                .collect();
            present.insert(name.clone());
            ops.push(COp::Add(RuleSpec { name, enabled: rng.chance(5, 6), acts }));
        } else {
            present.remove(&name);
            ops.push(COp::Remove(name));
        }
    }
    let mut goals = clean_goals();
    if rng.chance(1, 3) {
        goals.extend(hostile_goals());
    }
    Case::Concl { ops, goals }
}

// ------------------------------------------------------------------------------------------

struct C16;

impl Check for C16 {
    fn id(&self) -> &'static str {
        "C16"
    }
    fn rule(&self) -> String {
        "Five differential monitors (the fifth, engine-index: a BackwardEngine with memoisation off on a knowledge base of 0..=3 rules `E<n>: when User.<x> > t then <goal field> = true` (8 names, 4 goal fields, 7 saliences); then 3..=12 steps add_rule / remove_rule / set_rule_enabled on engine.knowledge_base(), rebuild_index(), query; every query asked after a rebuild_index() that follows the last edit is compared with an engine built from scratch on the same knowledge base), histories of 1..=10 random ops each (alpha, beta and conclusion: one history in 20 has 40..=300 ops, hundreds of indexed facts / up to 120 rule names), value domain = integers, floats incl. 0.0/-0.0/NaN/+-inf, numeric-looking strings, booleans, (nested) arrays, null (37 values). alpha: ops insert/create_index/drop_index/filter_tracked/auto_tune on the real AlphaMemoryIndex, inserts mirrored into a never-indexed shadow; after EVERY op filter(field, v) is compared as a multiset for 3 fields x every domain value (3/5 of the histories use the domain without NaN/-0.0). beta: ops add/remove (live, removed-before and never-added positions) on BetaMemoryIndex; after every op lookup(key) for the printed key of every domain value and every live fact is compared with the scan of the harness's live list. memo: one MemoizedEvaluator, 2..=10 evaluate calls over 1..=3 generated nodes (in half of the histories plus a near-duplicate of one of them: exactly one parameter of one leaf differs) (alpha nodes with 11 operators x 16 literals, And/Or/Not/Exists/Forall to depth 2, multifield nodes) x 2..=4 fact sets; in half of the histories the fact sets print alike (as_str) but differ in type; every call is compared with evaluate_typed; every history is run twice, once with long-lived nodes and once with each call's node rebuilt into one reused slot (same address, different content). conclusion: ops add_rule (1..=3 actions Set/Log/MethodCall/Retract, 1/6 disabled) / remove_rule (present or absent name) on ConclusionIndex; after every op find_candidates(goal) must contain every enabled present rule with a Set on the goal's field, for 10 fields (three with non-ASCII letters in their names) x 13 goal spellings (bare field, == != > >= < <= contains matches, tight/blank spacing); 1/3 of the histories add goals whose string literal holds operator text and negated goals (NOT / !). EXHAUSTIVE sub-spaces: all (stored value, probe value) pairs of the domain for alpha (index created before and after the insert) and beta; all ordered pairs of print-alike values x 11 operators x 16 literals for memo. Non-trivial: alpha = some filter answered through an index was non-empty and some was empty; beta / conclusion = a non-empty expected answer after an effective remove; memo = at least one cache hit and both verdicts observed. Distinct by the whole history.".into()
    }
    fn assumptions(&self) -> Vec<String> {
        vec![
            "alpha: 'without an index' is the library's own linear path (a shadow AlphaMemoryIndex that never creates an index)".into(),
            "beta: lookup keys are the Debug rendering of the join-key value (the convention of BetaMemoryIndex's own test); a fact is removed with the same content it was added with; a position is never added twice while live".into(),
            "memo: the evaluation closure handed to MemoizedEvaluator::evaluate is evaluate_typed itself".into(),
            "conclusion: add_rule under a name that is present hands the index a new version of that rule (1/4 of the adds of a present name): from then on the enabled rule present under the name is the new version; stale extra candidates are not judged (the clause is 'proposes every'); only Set actions count as 'assigns'; goals are single-field goals `field [op literal]`, optionally negated; compound goals are not generated (their 'goal field' is not defined by the statement)".into(),
        ]
    }

    fn devopt_scale(&self) -> Option<f64> {
        Some(0.04)
    }
    fn explore(&self, cli: &Cli, st: &mut Stats) {
        let nthreads = cli.threads;

        // ---------------- exhaustive value-pair sub-spaces (one shard: small) ----------------
        shards(cli, 1, st, |_s, _rng, st| {
            let dom = domain();
            for s in &dom {
                for p in &dom {
                    let mut m = FactMap::new();
                    m.insert("a".to_string(), s.clone());
                    check_case(&Case::Alpha { ops: vec![AOp::Insert(m.clone()), AOp::Create("a".into())], probes: vec![p.clone()] }, st);
                    check_case(&Case::Alpha { ops: vec![AOp::Create("a".into()), AOp::Insert(m.clone())], probes: vec![p.clone()] }, st);
                    let mut k = FactMap::new();
                    k.insert(BETA_KEY.to_string(), s.clone());
                    check_case(&Case::Beta { ops: vec![BOp::Add(k.clone(), 0)], probes: vec![p.render()] }, st);
                    check_case(&Case::Beta { ops: vec![BOp::Add(k.clone(), 0), BOp::Add(k, 1), BOp::Remove(0)], probes: vec![p.render()] }, st);
                }
            }
            for class in print_classes() {
                for v1 in &class {
                    for v2 in &class {
                        for op in MEMO_OPS {
                            for lit in MEMO_VALUES {
                                let f = |v: &Val| {
                                    let mut m = FactMap::new();
                                    m.insert("a".to_string(), v.clone());
                                    m.insert("b".to_string(), I(25));
                                    m
                                };
                                check_case(
                                    &Case::Memo {
                                        nodes: vec![NodeSpec::Alpha("a".into(), op.into(), lit.into())],
                                        factsets: vec![f(v1), f(v2)],
                                        calls: vec![(0, 0), (0, 1), (0, 0)],
                                    },
                                    st,
                                );
                            }
                        }
                    }
                }
            }
        });
        st.exhaustive.push(format!("alpha: all {0}x{0} (stored value, probe value) pairs of the domain, index created before and after the insert", domain().len()));
        st.exhaustive.push(format!("beta: all {0}x{0} (stored join-key value, probed key) pairs of the domain, with and without a removed sibling", domain().len()));
        st.exhaustive.push("memo: all ordered pairs of print-alike values (14 print classes) x 11 operators x 16 literals on one alpha node, calls f1,f2,f1".to_string());

        // ---------------- random histories ----------------
        let total = cli.n(1_000_000, 32_000_000);
        let per = (total as usize).div_ceil(nthreads);
        shards(cli, nthreads, st, |_shard, rng, st| {
            for i in 0..per {
                if cli.expired() {
                    st.count("stopped_by_time_budget");
                    break;
                }
                let c = match i % 4 {
                    0 => gen_alpha(rng),
                    1 => gen_beta(rng),
                    2 => gen_memo(rng),
                    _ if i % 64 == 3 => gen_engine_index(rng),
                    _ => gen_concl(rng),
                };
                check_case(&c, st);
            }
        });
        for mon in ["alpha", "beta", "memo", "conclusion", "engine-index"] {
            if st.get(&format!("{}::comparisons", mon)) == 0 {
                st.inconclusive(format!("the {} monitor compared nothing", mon));
            }
            if st.get(&format!("{}::nontrivial_histories", mon)) == 0 {
                st.inconclusive(format!("the {} monitor saw no non-trivial history", mon));
            }
        }
        if st.get("memo::cache_hits") == 0 {
            st.inconclusive("the memo monitor never observed a cache hit");
        }
        if st.get("alpha::filters_answered_through_an_index_nonempty") == 0 {
            st.inconclusive("no alpha filter was ever answered through an index with a non-empty result");
        }
    }

    fn replay(&self, _cli: &Cli, case: &Json) -> Vec<Violation> {
        let Some(c) = Case::from_json(case) else {
            return vec![Violation {
                clause: "harness".into(),
                sig: "C16|harness|bad-case".into(),
                detail: "cannot decode case".into(),
                case: case.clone(),
            }];
        };
        match pan::catch_frames(|| run_case(&c)) {
            Ok(Some((ds, _))) => ds.iter().map(|d| to_violation(&c, d)).collect(),
            Ok(None) => vec![Violation {
                clause: "harness".into(),
                sig: "C16|harness|undefined-history".into(),
                detail: "the history adds a position / rule name twice while present, or refers to a missing node / fact set".into(),
                case: case.clone(),
            }],
            Err(p) => vec![panic_violation(&c, &p)],
        }
    }
}

fn main() {
    run_main(C16)
}
