//! C07 — RETE agenda order, no-loop, activation-group exclusivity, and termination of every
//! fire_all entry point of the RETE family.
//!
//! Part A: API-level monitor of `AdvancedAgenda` against a shadow multiset with a limbo set.
//! Part B: termination monitor (logical step counting inside the action closures, in child
//!         processes with a CPU limit as inconclusive back-stop) for `IncrementalEngine`,
//!         `TypedReteUlEngine`, `ReteUlEngine`, `fire_rete_ul_rules`, `fire_rete_ul_rules_with_agenda`.
//! Part C: engine-level clauses on `IncrementalEngine` histories (no-loop at most once between
//!         resets; salience order of the first fire_all of single-type Log-only no-loop programs;
//!         at most 1000 action executions per fire_all).

use rre_verif::*;
use rust_rule_engine::rete::{
    fire_rete_ul_rules, fire_rete_ul_rules_with_agenda, ActionResults, Activation, AdvancedAgenda,
    AlphaNode, GrlReteLoader, IncrementalEngine, ReteUlEngine, ReteUlNode, ReteUlRule,
    TypedFacts, TypedReteUlEngine,
};
use std::collections::{BTreeSet, HashMap, HashSet};
use std::sync::atomic::{AtomicU64, Ordering};
use std::sync::Arc;

#[path = "../rete_common.rs"]
mod rete_common;
use rete_common::*;

const ID: &str = "C07";

// ==========================================================================================
// Part A — agenda monitor
// ==========================================================================================

const AGENDA_GROUPS: [&str; 3] = ["MAIN", "G1", "G2"];
const ACT_GROUPS: [&str; 3] = ["", "X", "Y"];

#[derive(Clone, Debug, PartialEq, Eq, Hash)]
struct ASpec {
    rule: u8,
    salience: i32,
    agenda: u8,
    act_group: u8,
    lock: bool,
    /// with_auto_focus(true): adding it moves the focus to its agenda group
    auto_focus: bool,
    /// 0 = none, 1 = ruleflow group "RF" (an activation of an inactive ruleflow group is not queued)
    ruleflow: u8,
    /// 0 = none; k > 0: with_matched_fact(FactHandle k) (what the engines attach; the agenda
    /// itself gives it no meaning, so the order must not depend on it)
    handle: u8,
}

impl ASpec {
    /// the no-loop flag is a property of the rule: even rule numbers are no-loop rules
    fn no_loop(&self) -> bool {
        self.rule % 2 == 0
    }
    fn to_json(&self) -> Json {
        json!({"rule": format!("r{}", self.rule), "no_loop": self.no_loop(), "salience": self.salience, "agenda_group": AGENDA_GROUPS[self.agenda as usize], "activation_group": ACT_GROUPS[self.act_group as usize], "lock_on_active": self.lock, "auto_focus": self.auto_focus, "ruleflow_group": if self.ruleflow == 0 { Json::Null } else { json!("RF") }, "matched_fact_handle": if self.handle == 0 { Json::Null } else { json!(self.handle) }})
    }
    fn from_json(j: &Json) -> Option<ASpec> {
        Some(ASpec {
            rule: j.get("rule")?.as_str()?.trim_start_matches('r').parse().ok()?,
            salience: j.get("salience")?.as_i64()? as i32,
            agenda: AGENDA_GROUPS.iter().position(|g| Some(*g) == j.get("agenda_group").and_then(|v| v.as_str()))? as u8,
            act_group: ACT_GROUPS.iter().position(|g| Some(*g) == j.get("activation_group").and_then(|v| v.as_str()))? as u8,
            lock: j.get("lock_on_active").and_then(|v| v.as_bool()).unwrap_or(false),
            auto_focus: j.get("auto_focus").and_then(|v| v.as_bool()).unwrap_or(false),
            ruleflow: if j.get("ruleflow_group").and_then(|v| v.as_str()).is_some() { 1 } else { 0 },
            handle: j.get("matched_fact_handle").and_then(|v| v.as_u64()).unwrap_or(0) as u8,
        })
    }
}

#[derive(Clone, Debug, PartialEq, Eq, Hash)]
enum AOp {
    /// create the activation now and add it at once
    Add(ASpec),
    /// create it now (its creation instant is now) but keep it back
    Create(ASpec),
    /// add the k-th (mod n) activation that was kept back
    AddHeld(usize),
    /// get_next_activation; with `mark` the returned activation is marked fired at once
    Pop { mark: bool },
    /// mark the k-th (mod n) activation that was returned earlier and not marked yet
    MarkOld(usize),
    Focus(u8),
    Reset,
    /// clear() followed by reset_fired_flags()
    Clear,
    /// activate_ruleflow_group("RF") / deactivate_ruleflow_group("RF")
    Ruleflow(bool),
}

impl AOp {
    fn to_json(&self) -> Json {
        match self {
            AOp::Add(s) => json!({"op": "add_activation", "activation": s.to_json()}),
            AOp::Create(s) => json!({"op": "create_activation_keep_back", "activation": s.to_json()}),
            AOp::AddHeld(k) => json!({"op": "add_kept_back", "k": k}),
            AOp::Pop { mark } => json!({"op": "get_next_activation", "then_mark_rule_fired": mark}),
            AOp::MarkOld(k) => json!({"op": "mark_rule_fired_of_earlier_returned", "k": k}),
            AOp::Focus(g) => json!({"op": "set_focus", "group": AGENDA_GROUPS[*g as usize]}),
            AOp::Reset => json!({"op": "reset_fired_flags"}),
            AOp::Clear => json!({"op": "clear_then_reset_fired_flags"}),
            AOp::Ruleflow(on) => json!({"op": if *on { "activate_ruleflow_group" } else { "deactivate_ruleflow_group" }, "group": "RF"}),
        }
    }
    fn from_json(j: &Json) -> Option<AOp> {
        Some(match j.get("op")?.as_str()? {
            "add_activation" => AOp::Add(ASpec::from_json(j.get("activation")?)?),
            "create_activation_keep_back" => AOp::Create(ASpec::from_json(j.get("activation")?)?),
            "add_kept_back" => AOp::AddHeld(j.get("k")?.as_u64()? as usize),
            "get_next_activation" => AOp::Pop { mark: j.get("then_mark_rule_fired")?.as_bool()? },
            "mark_rule_fired_of_earlier_returned" => AOp::MarkOld(j.get("k")?.as_u64()? as usize),
            "set_focus" => AOp::Focus(AGENDA_GROUPS.iter().position(|g| Some(*g) == j.get("group").and_then(|v| v.as_str()))? as u8),
            "reset_fired_flags" => AOp::Reset,
            "clear_then_reset_fired_flags" => AOp::Clear,
            "activate_ruleflow_group" => AOp::Ruleflow(true),
            "deactivate_ruleflow_group" => AOp::Ruleflow(false),
            _ => return None,
        })
    }
}

#[derive(Clone, Copy, PartialEq, Eq, Debug)]
enum St {
    Held,
    Pending,
    Limbo,
    Gone,
}

#[derive(Clone, Copy, PartialEq, Eq, Debug)]
enum Elig {
    Yes,
    No,
    Either,
}

struct Ent {
    spec: ASpec,
    st: St,
    created_at: std::time::Instant,
}

#[derive(Default)]
struct AObs {
    pops_some: u64,
    pops_none: u64,
    pops_choosing_among_several_eligible: u64,
    pops_with_equal_salience_competitor: u64,
    passed_over_to_limbo: u64,
    limbo_returned_later: u64,
    dropped_or_kept_at_add: u64,
    no_loop_blocks_observed: u64,
    act_group_blocks_observed: u64,
    focus_switches_by_exhaustion: u64,
    created_out_of_add_order: u64,
    creation_instant_spins: u64,
    auto_focus_adds: u64,
    ruleflow_switches: u64,
}

fn run_agenda(ops: &[AOp]) -> (Vec<Viol>, AObs) {
    let mut viols: Vec<Viol> = Vec::new();
    let mut obs = AObs::default();
    let mut agenda = AdvancedAgenda::new();
    let mut ents: Vec<Ent> = Vec::new();
    let mut held: Vec<(usize, Activation)> = Vec::new();
    let mut returned_unmarked: Vec<(usize, Activation)> = Vec::new();
    let mut fired_rules: HashSet<u8> = HashSet::new();
    let mut fired_groups: HashSet<u8> = HashSet::new();
    let mut locked_maybe: HashSet<u8> = HashSet::new();
    let mut last_instant: Option<std::time::Instant> = None;
    let mut rf_active = false;

    fn push(v: &mut Vec<Viol>, clause: &str, cause: &str, detail: String) {
        if !v.iter().any(|x| x.clause == clause && x.cause == cause) {
            v.push(Viol { clause: clause.into(), cause: cause.into(), detail });
        }
    }
    let elig = |s: &ASpec, fr: &HashSet<u8>, fg: &HashSet<u8>, lm: &HashSet<u8>| -> Elig {
        if s.no_loop() && fr.contains(&s.rule) {
            return Elig::No;
        }
        if s.act_group != 0 && fg.contains(&s.act_group) {
            return Elig::No;
        }
        if s.lock && lm.contains(&s.agenda) {
            return Elig::Either;
        }
        Elig::Yes
    };
    // key: larger = must come first
    let before = |a: (&ASpec, usize), b: (&ASpec, usize)| -> bool { a.0.salience > b.0.salience || (a.0.salience == b.0.salience && a.1 < b.1) };

    for (opi, op) in ops.iter().enumerate() {
        match op {
            AOp::Add(spec) | AOp::Create(spec) => {
                // creation instants strictly increasing, so that "earlier-created" is well defined
                let mut act;
                loop {
                    act = Activation::new(format!("r{}", spec.rule), spec.salience)
                        .with_no_loop(spec.no_loop())
                        .with_lock_on_active(spec.lock)
                        .with_agenda_group(AGENDA_GROUPS[spec.agenda as usize].to_string())
                        .with_auto_focus(spec.auto_focus)
                        .with_condition_count(ents.len()); // our tag; unused by the Salience strategy
                    if spec.ruleflow != 0 {
                        act = act.with_ruleflow_group("RF".to_string());
                    }
                    if spec.handle != 0 {
                        act = act.with_matched_fact(rust_rule_engine::rete::FactHandle::new(spec.handle as u64));
                    }
                    if spec.act_group != 0 {
                        act = act.with_activation_group(ACT_GROUPS[spec.act_group as usize].to_string());
                    }
                    match last_instant {
                        Some(t) if act.created_at <= t => {
                            obs.creation_instant_spins += 1;
                            continue;
                        }
                        _ => break,
                    }
                }
                last_instant = Some(act.created_at);
                let tag = ents.len();
                let created_at = act.created_at;
                if matches!(op, AOp::Create(_)) {
                    ents.push(Ent { spec: spec.clone(), st: St::Held, created_at });
                    held.push((tag, act));
                } else {
                    let e = elig(spec, &fired_rules, &fired_groups, &locked_maybe);
                    let st = if e == Elig::No || (spec.ruleflow != 0 && !rf_active) {
                        obs.dropped_or_kept_at_add += 1;
                        St::Limbo
                    } else {
                        St::Pending
                    };
                    ents.push(Ent { spec: spec.clone(), st, created_at });
                    agenda.add_activation(act);
                    if spec.auto_focus {
                        obs.auto_focus_adds += 1;
                        if st == St::Pending && agenda.get_focus() != AGENDA_GROUPS[spec.agenda as usize] {
                            push(&mut viols, "focus", "auto-focus-activation-queued-but-focus-not-on-its-group", format!("op #{}: an eligible auto_focus activation of group {} was added but get_focus() = {}", opi, AGENDA_GROUPS[spec.agenda as usize], agenda.get_focus()));
                        }
                    }
                }
            }
            AOp::AddHeld(k) => {
                if held.is_empty() {
                    continue;
                }
                let (tag, act) = held.remove(k % held.len());
                if ents.iter().any(|e| e.st != St::Held && e.created_at > ents[tag].created_at) {
                    obs.created_out_of_add_order += 1;
                }
                let e = elig(&ents[tag].spec, &fired_rules, &fired_groups, &locked_maybe);
                ents[tag].st = if e == Elig::No || (ents[tag].spec.ruleflow != 0 && !rf_active) {
                    obs.dropped_or_kept_at_add += 1;
                    St::Limbo
                } else {
                    St::Pending
                };
                agenda.add_activation(act);
            }
            AOp::Ruleflow(on) => {
                if *on {
                    agenda.activate_ruleflow_group("RF".to_string());
                } else {
                    agenda.deactivate_ruleflow_group("RF");
                    // queued members of a group that is switched off afterwards: the statement does
                    // not say whether they still fire; not judged either way from here on
                    for e in ents.iter_mut() {
                        if e.st == St::Pending && e.spec.ruleflow != 0 {
                            e.st = St::Limbo;
                        }
                    }
                }
                rf_active = *on;
                obs.ruleflow_switches += 1;
                if agenda.is_ruleflow_group_active("RF") != rf_active {
                    push(&mut viols, "focus", "ruleflow-group-state-not-reflected", format!("op #{}: is_ruleflow_group_active(RF) = {} after {}", opi, !rf_active, if *on { "activate" } else { "deactivate" }));
                }
            }
            AOp::Focus(g) => {
                agenda.set_focus(AGENDA_GROUPS[*g as usize].to_string());
                if agenda.get_focus() != AGENDA_GROUPS[*g as usize] {
                    push(&mut viols, "focus", "set_focus-not-reflected-by-get_focus", format!("op #{}: set_focus({}) but get_focus() = {}", opi, AGENDA_GROUPS[*g as usize], agenda.get_focus()));
                }
            }
            AOp::Reset => {
                agenda.reset_fired_flags();
                fired_rules.clear();
                fired_groups.clear();
                locked_maybe.clear();
            }
            AOp::Clear => {
                agenda.clear();
                agenda.reset_fired_flags();
                fired_rules.clear();
                fired_groups.clear();
                locked_maybe.clear();
                for e in ents.iter_mut() {
                    if e.st == St::Pending {
                        e.st = St::Limbo;
                    }
                }
            }
            AOp::MarkOld(k) => {
                if returned_unmarked.is_empty() {
                    continue;
                }
                let (tag, act) = returned_unmarked.remove(k % returned_unmarked.len());
                agenda.mark_rule_fired(&act);
                let s = &ents[tag].spec;
                fired_rules.insert(s.rule);
                if s.act_group != 0 {
                    fired_groups.insert(s.act_group);
                }
                if s.lock {
                    locked_maybe.insert(s.agenda);
                }
            }
            AOp::Pop { mark } => {
                let focus_before = agenda.get_focus().to_string();
                let r = agenda.get_next_activation();
                let focus_after = agenda.get_focus().to_string();
                let gidx = |name: &str| AGENDA_GROUPS.iter().position(|g| *g == name).map(|i| i as u8);
                let fb = gidx(&focus_before);
                let fa = gidx(&focus_after);
                let describe = |ents: &Vec<Ent>, fr: &HashSet<u8>, fg: &HashSet<u8>, lm: &HashSet<u8>| -> String {
                    ents.iter()
                        .enumerate()
                        .filter(|(_, e)| e.st == St::Pending || e.st == St::Limbo)
                        .map(|(i, e)| format!("#{}:r{}{} sal {} in {} ag {:?} {:?}/{:?}", i, e.spec.rule, if e.spec.no_loop() { "(no-loop)" } else { "" }, e.spec.salience, AGENDA_GROUPS[e.spec.agenda as usize], ACT_GROUPS[e.spec.act_group as usize], e.st, elig(&e.spec, fr, fg, lm)))
                        .collect::<Vec<_>>()
                        .join("; ")
                };
                let yes_in = |ents: &Vec<Ent>, g: Option<u8>, fr: &HashSet<u8>, fg: &HashSet<u8>, lm: &HashSet<u8>| -> Vec<usize> {
                    ents.iter().enumerate().filter(|(_, e)| e.st == St::Pending && Some(e.spec.agenda) == g && elig(&e.spec, fr, fg, lm) == Elig::Yes).map(|(i, _)| i).collect()
                };
                match r {
                    None => {
                        obs.pops_none += 1;
                        for (which, g) in [("before", fb), ("after", fa)] {
                            let y = yes_in(&ents, g, &fired_rules, &fired_groups, &locked_maybe);
                            if !y.is_empty() {
                                push(
                                    &mut viols,
                                    "order",
                                    "none-returned-although-eligible-activation-pending-in-focused-group",
                                    format!("op #{}: get_next_activation returned None; focus {} the call = {:?}; eligible pending there: {:?}; shadow: {}", opi, which, if which == "before" { &focus_before } else { &focus_after }, y, describe(&ents, &fired_rules, &fired_groups, &locked_maybe)),
                                );
                            }
                        }
                        for e in ents.iter_mut() {
                            if e.st == St::Pending && elig(&e.spec, &fired_rules, &fired_groups, &locked_maybe) != Elig::Yes {
                                e.st = St::Limbo;
                                obs.passed_over_to_limbo += 1;
                            }
                        }
                        if focus_after != focus_before {
                            obs.focus_switches_by_exhaustion += 1;
                        }
                    }
                    Some(act) => {
                        obs.pops_some += 1;
                        let tag = act.condition_count;
                        if tag >= ents.len() || format!("r{}", ents[tag].spec.rule) != act.rule_name {
                            push(&mut viols, "order", "returned-activation-unknown", format!("op #{}: returned activation {:?} is none of the added ones", opi, act.rule_name));
                            continue;
                        }
                        let spec = ents[tag].spec.clone();
                        match ents[tag].st {
                            St::Gone => push(&mut viols, "order", "activation-returned-twice", format!("op #{}: activation #{} ({}) was returned before", opi, tag, act.rule_name)),
                            St::Held => push(&mut viols, "order", "activation-returned-before-it-was-added", format!("op #{}: activation #{} was never added", opi, tag)),
                            St::Limbo => obs.limbo_returned_later += 1,
                            St::Pending => {}
                        }
                        if Some(spec.agenda) != fa {
                            push(&mut viols, "focus", "returned-activation-not-from-focused-group", format!("op #{}: returned #{} from group {} but get_focus() after the call = {}", opi, tag, AGENDA_GROUPS[spec.agenda as usize], focus_after));
                        }
                        // eligibility of the returned activation itself
                        if spec.no_loop() && fired_rules.contains(&spec.rule) {
                            push(&mut viols, "no-loop", "no-loop-activation-returned-after-its-rule-was-marked-fired", format!("op #{}: returned #{} of no-loop rule r{} which was marked fired since the last reset; shadow: {}", opi, tag, spec.rule, describe(&ents, &fired_rules, &fired_groups, &locked_maybe)));
                        }
                        if spec.act_group != 0 && fired_groups.contains(&spec.act_group) {
                            push(&mut viols, "activation-group", "second-member-returned-after-group-fired", format!("op #{}: returned #{} of activation group {} of which a member was marked fired since the last reset", opi, tag, ACT_GROUPS[spec.act_group as usize]));
                        }
                        // the focused group had something eligible but another group was served
                        let y_before = yes_in(&ents, fb, &fired_rules, &fired_groups, &locked_maybe);
                        if Some(spec.agenda) != fb && !y_before.is_empty() {
                            push(&mut viols, "order", "eligible-activation-in-focused-group-passed-over-for-other-group", format!("op #{}: focus was {} with eligible pending {:?}, but #{} from {} was returned", opi, focus_before, y_before, tag, AGENDA_GROUPS[spec.agenda as usize]));
                        }
                        // order inside the group served
                        let competitors = yes_in(&ents, Some(spec.agenda), &fired_rules, &fired_groups, &locked_maybe);
                        if competitors.iter().filter(|&&i| i != tag).count() > 0 {
                            obs.pops_choosing_among_several_eligible += 1;
                        }
                        if competitors.iter().any(|&i| i != tag && ents[i].spec.salience == spec.salience) {
                            obs.pops_with_equal_salience_competitor += 1;
                        }
                        for &i in &competitors {
                            if i != tag && before((&ents[i].spec, i), (&spec, tag)) {
                                let cause = if ents[i].spec.salience > spec.salience {
                                    "lower-salience-returned-before-higher"
                                } else if ents[i].created_at == ents[tag].created_at {
                                    "equal-salience-equal-creation-instant"
                                } else {
                                    "equal-salience-later-created-returned-first"
                                };
                                push(&mut viols, "order", cause, format!("op #{}: returned #{} (salience {}) while eligible pending #{} (salience {}, created earlier: {}) waits in the same group {}; shadow: {}", opi, tag, spec.salience, i, ents[i].spec.salience, i < tag, AGENDA_GROUPS[spec.agenda as usize], describe(&ents, &fired_rules, &fired_groups, &locked_maybe)));
                            }
                        }
                        // limbo: ineligible ones that were passed over may have been discarded or kept
                        let switched = focus_after != focus_before;
                        if switched {
                            obs.focus_switches_by_exhaustion += 1;
                        }
                        for (i, e) in ents.iter_mut().enumerate() {
                            if i == tag || e.st != St::Pending {
                                continue;
                            }
                            let el = elig(&e.spec, &fired_rules, &fired_groups, &locked_maybe);
                            if el == Elig::Yes {
                                continue;
                            }
                            let ahead_in_group = e.spec.agenda == spec.agenda && before((&e.spec, i), (&spec, tag));
                            if ahead_in_group || (switched && e.spec.agenda != spec.agenda) {
                                e.st = St::Limbo;
                                obs.passed_over_to_limbo += 1;
                                if e.spec.no_loop() && fired_rules.contains(&e.spec.rule) {
                                    obs.no_loop_blocks_observed += 1;
                                }
                                if e.spec.act_group != 0 && fired_groups.contains(&e.spec.act_group) {
                                    obs.act_group_blocks_observed += 1;
                                }
                            }
                        }
                        ents[tag].st = St::Gone;
                        if *mark {
                            agenda.mark_rule_fired(&act);
                            fired_rules.insert(spec.rule);
                            if spec.act_group != 0 {
                                fired_groups.insert(spec.act_group);
                            }
                            if spec.lock {
                                locked_maybe.insert(spec.agenda);
                            }
                        } else {
                            returned_unmarked.push((tag, act));
                        }
                    }
                }
            }
        }
    }
    (viols, obs)
}

fn agenda_case_json(ops: &[AOp]) -> Json {
    json!({"kind": "agenda", "ops": ops.iter().map(|o| o.to_json()).collect::<Vec<_>>()})
}

fn check_agenda(ops: &[AOp], st: &mut Stats, sample: bool) {
    st.eval();
    let (viols, obs) = match pan::catch_frames(|| run_agenda(ops)) {
        Ok(r) => r,
        Err(p) => {
            st.violation(Violation { clause: "no-panic".into(), sig: mk_sig("no-panic", &format!("{}|{}", p.class(), p.frame)), detail: format!("panic: {} at {}:{}", p.msg, p.file, p.line), case: agenda_case_json(ops) });
            return;
        }
    };
    st.add("agenda::pops_returning_an_activation", obs.pops_some);
    st.add("agenda::pops_returning_none", obs.pops_none);
    st.add("agenda::pops_choosing_among_several_eligible", obs.pops_choosing_among_several_eligible);
    st.add("agenda::pops_with_equal_salience_competitor(tie_order_decided)", obs.pops_with_equal_salience_competitor);
    st.add("agenda::ineligible_passed_over_moved_to_limbo", obs.passed_over_to_limbo);
    st.add("agenda::limbo_activation_returned_later(implementation_kept_it)", obs.limbo_returned_later);
    st.add("agenda::ineligible_at_add(limbo_from_the_start)", obs.dropped_or_kept_at_add);
    st.add("agenda::no_loop_blocks_observed", obs.no_loop_blocks_observed);
    st.add("agenda::activation_group_blocks_observed", obs.act_group_blocks_observed);
    st.add("agenda::focus_changed_by_exhaustion", obs.focus_switches_by_exhaustion);
    st.add("agenda::added_in_other_order_than_created", obs.created_out_of_add_order);
    st.add("agenda::creation_instant_spins(equal_instants_avoided)", obs.creation_instant_spins);
    st.add("agenda::auto_focus_activations_added", obs.auto_focus_adds);
    st.add("agenda::ruleflow_group_switches", obs.ruleflow_switches);
    if obs.pops_choosing_among_several_eligible > 0 && obs.passed_over_to_limbo > 0 {
        st.nontrivial(hash_of(ops));
        if sample {
            st.sample(|| agenda_case_json(ops));
        }
    }
    for v in viols {
        let clause = v.clause.clone();
        let mut fails = |o: &[AOp]| matches!(pan::catch(|| run_agenda(o)), Ok((vs, _)) if vs.iter().any(|x| x.clause == clause));
        let small = shrink_list(ops, &mut fails);
        let (vs, _) = run_agenda(&small);
        let x = vs.iter().find(|x| x.clause == v.clause && x.cause == v.cause).or_else(|| vs.iter().find(|x| x.clause == v.clause)).cloned().unwrap_or(v.clone());
        st.violation(Violation { clause: x.clause.clone(), sig: mk_sig(&format!("agenda-{}", x.clause), &x.cause), detail: x.detail.clone(), case: agenda_case_json(&small) });
    }
}

fn exhaustive_agenda_alphabet() -> Vec<AOp> {
    let mut a = Vec::new();
    for rule in 0..2u8 {
        for salience in [1, 2] {
            for agenda in 0..2u8 {
                for act_group in 0..2u8 {
                    a.push(AOp::Add(ASpec { rule, salience, agenda, act_group, lock: false, auto_focus: false, ruleflow: 0, handle: 0 }));
                }
            }
        }
    }
    a.push(AOp::Pop { mark: false });
    a.push(AOp::Pop { mark: true });
    a.push(AOp::Focus(0));
    a.push(AOp::Focus(1));
    a.push(AOp::Reset);
    a
}

fn gen_agenda_ops(rng: &mut Rng) -> Vec<AOp> {
    let span = *rng.pick(&[12usize, 30, 60]);
    let n = 4 + rng.below(span);
    let saliences: [i32; 3] = match rng.below(4) {
        0 => [0, 5, 10],
        1 => [-1, 0, 1],
        2 => [i32::MIN, 0, i32::MAX],
        _ => [7, 7, 8],
    };
    let nrules = 1 + rng.below(5) as u8;
    let nag = 1 + rng.below(3) as u8;
    let use_lock = rng.chance(1, 4);
    let use_auto = rng.chance(1, 4);
    let use_rf = rng.chance(1, 4);
    let use_handles = rng.chance(1, 3);
    let mut ops = Vec::with_capacity(n);
    let spec = |rng: &mut Rng| ASpec {
        rule: rng.below(nrules as usize) as u8,
        salience: *rng.pick(&saliences),
        agenda: rng.below(nag as usize) as u8,
        act_group: if rng.chance(1, 2) { 0 } else { 1 + rng.below(2) as u8 },
        lock: use_lock && rng.chance(1, 3),
        auto_focus: use_auto && rng.chance(1, 4),
        ruleflow: if use_rf && rng.chance(1, 3) { 1 } else { 0 },
        handle: if use_handles && rng.chance(3, 4) { 1 + rng.below(9) as u8 } else { 0 },
    };
    for _ in 0..n {
        let r = rng.below(100);
        let op = if use_rf && rng.chance(1, 12) {
            AOp::Ruleflow(rng.chance(2, 3))
        } else if r < 45 {
            AOp::Add(spec(rng))
        } else if r < 50 {
            AOp::Create(spec(rng))
        } else if r < 55 {
            AOp::AddHeld(rng.below(8))
        } else if r < 68 {
            AOp::Pop { mark: false }
        } else if r < 85 {
            AOp::Pop { mark: true }
        } else if r < 88 {
            AOp::MarkOld(rng.below(8))
        } else if r < 94 {
            AOp::Focus(rng.below(nag as usize) as u8)
        } else if r < 98 {
            AOp::Reset
        } else {
            AOp::Clear
        };
        ops.push(op);
    }
    ops
}

// ==========================================================================================
// Part B — termination monitor
// ==========================================================================================

const ENTRY_POINTS: [&str; 5] = ["IncrementalEngine::fire_all", "TypedReteUlEngine::fire_all", "ReteUlEngine::fire_all", "fire_rete_ul_rules", "fire_rete_ul_rules_with_agenda"];
const DOCUMENTED_BOUND: u64 = 1000;

#[derive(Clone, Debug)]
struct TermCase {
    entry: String,
    rules: Vec<RuleSpec>,
    /// facts: (type, fields); the flat engines see `Type.field` keys (last fact of a type wins)
    facts: Vec<(String, Fields)>,
    calls: usize,
}

impl TermCase {
    fn to_json(&self) -> Json {
        json!({
            "kind": "termination",
            "entry_point": self.entry,
            "rules": self.rules.iter().map(|r| r.to_json()).collect::<Vec<_>>(),
            "facts": self.facts.iter().map(|(t, f)| json!({"type": t, "fields": fields_to_json(f)})).collect::<Vec<_>>(),
            "fire_all_calls": self.calls,
        })
    }
    fn from_json(j: &Json) -> Option<TermCase> {
        Some(TermCase {
            entry: j.get("entry_point")?.as_str()?.to_string(),
            rules: j.get("rules")?.as_array()?.iter().map(RuleSpec::from_json).collect::<Option<Vec<_>>>()?,
            facts: j.get("facts")?.as_array()?.iter().map(|f| Some((f.get("type")?.as_str()?.to_string(), fields_from_json(f.get("fields")?)?))).collect::<Option<Vec<_>>>()?,
            calls: j.get("fire_all_calls").and_then(|v| v.as_u64()).unwrap_or(1) as usize,
        })
    }
    fn limit(&self) -> u64 {
        100 * DOCUMENTED_BOUND * self.rules.len().max(1) as u64
    }
}

#[derive(Clone, Debug, Default)]
struct TermResult {
    skipped: Option<String>,
    returned: bool,
    /// action executions per fire_all call (the last entry is the call that did not return)
    actions_per_call: Vec<u64>,
    per_rule: Vec<u64>,
    /// per rule: the largest number of executions inside ONE fire_all call
    per_rule_max_in_call: Vec<u64>,
    panic: Option<String>,
}

impl TermResult {
    fn to_json(&self) -> Json {
        json!({"skipped": self.skipped, "returned": self.returned, "actions_per_call": self.actions_per_call, "per_rule": self.per_rule, "per_rule_max_in_call": self.per_rule_max_in_call, "panic": self.panic})
    }
    fn from_json(j: &Json) -> Option<TermResult> {
        Some(TermResult {
            skipped: j.get("skipped").and_then(|v| v.as_str()).map(|s| s.to_string()),
            returned: j.get("returned")?.as_bool()?,
            actions_per_call: j.get("actions_per_call")?.as_array()?.iter().filter_map(|v| v.as_u64()).collect(),
            per_rule: j.get("per_rule")?.as_array()?.iter().filter_map(|v| v.as_u64()).collect(),
            per_rule_max_in_call: j.get("per_rule_max_in_call").and_then(|v| v.as_array()).map(|a| a.iter().filter_map(|v| v.as_u64()).collect()).unwrap_or_default(),
            panic: j.get("panic").and_then(|v| v.as_str()).map(|s| s.to_string()),
        })
    }
}

struct Counter {
    in_call: AtomicU64,
    per_rule: Vec<AtomicU64>,
    per_rule_in_call: Vec<AtomicU64>,
    per_rule_max_in_call: Vec<AtomicU64>,
    limit: u64,
}

impl Counter {
    fn new(nrules: usize, limit: u64) -> Counter {
        let z = |n: usize| (0..n).map(|_| AtomicU64::new(0)).collect::<Vec<_>>();
        Counter { in_call: AtomicU64::new(0), per_rule: z(nrules), per_rule_in_call: z(nrules), per_rule_max_in_call: z(nrules), limit }
    }
    fn tick(&self, idx: usize) {
        self.per_rule[idx].fetch_add(1, Ordering::Relaxed);
        let k = self.per_rule_in_call[idx].fetch_add(1, Ordering::Relaxed) + 1;
        self.per_rule_max_in_call[idx].fetch_max(k, Ordering::Relaxed);
        let n = self.in_call.fetch_add(1, Ordering::Relaxed) + 1;
        if n > self.limit {
            panic!("{}", PANIC_MARK);
        }
    }
    /// start of one fire_all call
    fn begin_call(&self) {
        self.in_call.store(0, Ordering::Relaxed);
        for a in &self.per_rule_in_call {
            a.store(0, Ordering::Relaxed);
        }
    }
}

fn cond_to_node(c: &Cond, ty: &str) -> ReteUlNode {
    match c {
        Cond::Leaf { field, op, lit } => ReteUlNode::UlAlpha(AlphaNode {
            field: format!("{}.{}", ty, field),
            operator: op.text().to_string(),
            value: match lit {
                Val::I(i) => i.to_string(),
                Val::S(s) => s.clone(),
                Val::B(b) => b.to_string(),
                Val::Nan => "NaN".to_string(),
                Val::X(s) | Val::Big(s) => s.clone(),
            },
        }),
        Cond::And(a, b) => ReteUlNode::UlAnd(Box::new(cond_to_node(a, ty)), Box::new(cond_to_node(b, ty))),
        Cond::Or(a, b) => ReteUlNode::UlOr(Box::new(cond_to_node(a, ty)), Box::new(cond_to_node(b, ty))),
        Cond::Not(a) => ReteUlNode::UlNot(Box::new(cond_to_node(a, ty))),
    }
}

fn apply_acts_flat(acts: &[Act], facts: &mut HashMap<String, String>) {
    for a in acts {
        match a {
            Act::Log => {}
            Act::Set { ty, field, val } => {
                let v = match val {
                    Val::I(i) => i.to_string(),
                    Val::S(s) => s.clone(),
                    Val::B(b) => b.to_string(),
                    Val::Nan => "NaN".to_string(),
                    Val::X(s) | Val::Big(s) => s.clone(),
                };
                facts.insert(format!("{}.{}", ty, field), v);
            }
            Act::Incr { ty, field, by } => {
                let k = format!("{}.{}", ty, field);
                let cur = facts.get(&k).and_then(|s| s.parse::<i64>().ok()).unwrap_or(0);
                facts.insert(k, cur.wrapping_add(*by).to_string());
            }
            Act::Retract { ty, .. } => {
                let p = format!("{}.", ty);
                facts.retain(|k, _| !k.starts_with(&p));
            }
            Act::Clear => facts.clear(),
        }
    }
}

fn flat_facts(c: &TermCase) -> HashMap<String, String> {
    let mut m = HashMap::new();
    for (t, f) in &c.facts {
        for (k, v) in f {
            let s = match v {
                Val::I(i) => i.to_string(),
                Val::S(s) => s.clone(),
                Val::B(b) => b.to_string(),
                Val::Nan => "NaN".to_string(),
                Val::X(s) | Val::Big(s) => s.clone(),
            };
            m.insert(format!("{}.{}", t, k), s);
        }
    }
    m
}

/// Run one termination program in THIS process (the caller is a worker child, or a replay).
fn run_term(c: &TermCase) -> TermResult {
    let counter = Arc::new(Counter::new(c.rules.len(), c.limit()));
    let mut res = TermResult::default();
    let finish = |res: &mut TermResult, counter: &Counter| {
        res.per_rule = counter.per_rule.iter().map(|a| a.load(Ordering::Relaxed)).collect();
        res.per_rule_max_in_call = counter.per_rule_max_in_call.iter().map(|a| a.load(Ordering::Relaxed)).collect();
    };
    let gr_entry = c.entry == "IncrementalEngine::fire_all" || c.entry == "TypedReteUlEngine::fire_all";
    if gr_entry {
        let parsed = match parse_program(&c.rules) {
            Ok(p) => p,
            Err(e) => {
                res.skipped = Some(format!("parser: {}", e));
                return res;
            }
        };
        let mut converted = Vec::new();
        for rule in parsed {
            match pan::catch(|| GrlReteLoader::verif_convert_rule(rule)) {
                Ok(Ok(x)) => converted.push(x),
                Ok(Err(e)) => {
                    res.skipped = Some(format!("conversion: {}", e));
                    return res;
                }
                Err(p) => {
                    res.skipped = Some(format!("conversion panicked: {}", p.msg));
                    return res;
                }
            }
        }
        if c.entry == "IncrementalEngine::fire_all" {
            let mut engine = IncrementalEngine::new();
            for (idx, (mut rr, deps)) in converted.into_iter().enumerate() {
                let orig = rr.action.clone();
                let cn = counter.clone();
                rr.action = Arc::new(move |f: &mut TypedFacts, r: &mut ActionResults| {
                    cn.tick(idx);
                    orig(f, r);
                });
                engine.add_rule(rr, deps);
            }
            let r = pan::catch_frames(|| {
                let mut per_call = Vec::new();
                for (t, f) in &c.facts {
                    engine.insert(t.clone(), fields_to_typed(f));
                }
                for _ in 0..c.calls.max(1) {
                    counter.begin_call();
                    let _ = engine.fire_all();
                    per_call.push(counter.in_call.load(Ordering::Relaxed));
                }
                per_call
            });
            match r {
                Ok(pc) => {
                    res.returned = true;
                    res.actions_per_call = pc;
                }
                Err(p) if p.msg.contains(PANIC_MARK) => {
                    res.returned = false;
                    res.actions_per_call = vec![counter.in_call.load(Ordering::Relaxed)];
                }
                Err(p) => {
                    res.panic = Some(format!("{}|{} ({} at {}:{})", p.class(), p.frame, p.msg, p.file, p.line));
                }
            }
        } else {
            let mut engine = TypedReteUlEngine::new();
            for (idx, (rr, _deps)) in converted.into_iter().enumerate() {
                let orig = rr.action.clone();
                let cn = counter.clone();
                let clear = c.rules[idx].acts.contains(&Act::Clear);
                engine.add_rule_with_action(rr.name.clone(), rr.node.clone(), rr.priority, rr.no_loop, move |f: &mut TypedFacts, r: &mut ActionResults| {
                    cn.tick(idx);
                    orig(f, r);
                    if clear {
                        f.clear();
                    }
                });
            }
            for (t, f) in &c.facts {
                for (k, v) in f {
                    engine.set_fact(format!("{}.{}", t, k), v.to_fact_value());
                }
            }
            let r = pan::catch_frames(|| {
                let mut per_call = Vec::new();
                for _ in 0..c.calls.max(1) {
                    counter.begin_call();
                    let _ = engine.fire_all();
                    per_call.push(counter.in_call.load(Ordering::Relaxed));
                }
                per_call
            });
            match r {
                Ok(pc) => {
                    res.returned = true;
                    res.actions_per_call = pc;
                }
                Err(p) if p.msg.contains(PANIC_MARK) => {
                    res.returned = false;
                    res.actions_per_call = vec![counter.in_call.load(Ordering::Relaxed)];
                }
                Err(p) => res.panic = Some(format!("{}|{} ({} at {}:{})", p.class(), p.frame, p.msg, p.file, p.line)),
            }
        }
        finish(&mut res, &counter);
        return res;
    }
    // closure-driven engines over HashMap<String, String>
    let mut facts = flat_facts(c);
    let r = pan::catch_frames(|| {
        let mut per_call = Vec::new();
        match c.entry.as_str() {
            "ReteUlEngine::fire_all" => {
                let mut engine = ReteUlEngine::new();
                for (idx, r) in c.rules.iter().enumerate() {
                    let cn = counter.clone();
                    let acts = r.acts.clone();
                    engine.add_rule_with_action(r.name.clone(), cond_to_node(&r.cond, &r.ty), r.salience, r.no_loop, move |f| {
                        cn.tick(idx);
                        apply_acts_flat(&acts, f);
                    });
                }
                for (k, v) in &facts {
                    engine.set_fact(k.clone(), v.clone());
                }
                for _ in 0..c.calls.max(1) {
                    counter.begin_call();
                    let _ = engine.fire_all();
                    per_call.push(counter.in_call.load(Ordering::Relaxed));
                }
            }
            "fire_rete_ul_rules_with_agenda" => {
                let mut rules: Vec<ReteUlRule> = c
                    .rules
                    .iter()
                    .enumerate()
                    .map(|(idx, r)| {
                        let cn = counter.clone();
                        let acts = r.acts.clone();
                        ReteUlRule {
                            name: r.name.clone(),
                            node: cond_to_node(&r.cond, &r.ty),
                            priority: r.salience,
                            no_loop: r.no_loop,
                            action: Arc::new(move |f: &mut HashMap<String, String>| {
                                cn.tick(idx);
                                apply_acts_flat(&acts, f);
                            }),
                        }
                    })
                    .collect();
                for _ in 0..c.calls.max(1) {
                    counter.begin_call();
                    let _ = fire_rete_ul_rules_with_agenda(&mut rules, &mut facts);
                    per_call.push(counter.in_call.load(Ordering::Relaxed));
                }
            }
            _ => {
                let mut rules: Vec<(String, ReteUlNode, Box<dyn FnMut(&mut HashMap<String, String>)>)> = c
                    .rules
                    .iter()
                    .enumerate()
                    .map(|(idx, r)| {
                        let cn = counter.clone();
                        let acts = r.acts.clone();
                        let b: Box<dyn FnMut(&mut HashMap<String, String>)> = Box::new(move |f: &mut HashMap<String, String>| {
                            cn.tick(idx);
                            apply_acts_flat(&acts, f);
                        });
                        (r.name.clone(), cond_to_node(&r.cond, &r.ty), b)
                    })
                    .collect();
                for _ in 0..c.calls.max(1) {
                    counter.begin_call();
                    let _ = fire_rete_ul_rules(&mut rules, &mut facts);
                    per_call.push(counter.in_call.load(Ordering::Relaxed));
                }
            }
        }
        per_call
    });
    match r {
        Ok(pc) => {
            res.returned = true;
            res.actions_per_call = pc;
        }
        Err(p) if p.msg.contains(PANIC_MARK) => {
            res.returned = false;
            res.actions_per_call = vec![counter.in_call.load(Ordering::Relaxed)];
        }
        Err(p) => res.panic = Some(format!("{}|{} ({} at {}:{})", p.class(), p.frame, p.msg, p.file, p.line)),
    }
    finish(&mut res, &counter);
    res
}

/// Verdict for one finished program.
fn judge_term(c: &TermCase, r: &TermResult) -> Option<Viol> {
    if r.skipped.is_some() {
        return None;
    }
    if let Some(p) = &r.panic {
        let class = p.split(' ').next().unwrap_or("");
        return Some(Viol { clause: "does-not-return".into(), cause: format!("{}|panics|{}", c.entry, class), detail: format!("{} panicked instead of returning: {}", c.entry, p) });
    }
    if !r.returned {
        if c.entry != "fire_rete_ul_rules" {
            // a no-loop rule that re-fires without bound is a no-loop violation first of all
            let (imax, _) = r.per_rule.iter().enumerate().max_by_key(|(_, n)| **n).map(|(i, n)| (i, *n)).unwrap_or((0, 0));
            if c.rules.get(imax).map(|x| x.no_loop).unwrap_or(false) && r.per_rule_max_in_call.get(imax).copied().unwrap_or(0) > 1 && !c.rules.iter().any(|x| x.acts.contains(&Act::Clear)) {
                return Some(Viol { clause: "no-loop".into(), cause: format!("{}|no-loop-rule-executed-twice-in-one-call", c.entry), detail: format!("{}: no-loop rule {} was executed {} times inside one call (which did not return)", c.entry, c.rules[imax].name, r.per_rule_max_in_call[imax]) });
            }
        }
        // which rule was refiring?
        let (imax, nmax) = r.per_rule.iter().enumerate().max_by_key(|(_, n)| **n).map(|(i, n)| (i, *n)).unwrap_or((0, 0));
        let honours_no_loop = c.entry != "fire_rete_ul_rules";
        let erases = c.rules.iter().any(|r| r.acts.contains(&Act::Clear));
        let cause = if honours_no_loop && c.rules.get(imax).map(|r| !r.no_loop).unwrap_or(false) {
            "rule-without-no-loop-refires-unboundedly"
        } else if erases {
            "action-erases-the-fired-flags-kept-in-the-facts"
        } else {
            "unexplained"
        };
        return Some(Viol {
            clause: "does-not-return".into(),
            cause: format!("{}|{}", c.entry, cause),
            detail: format!(
                "{} executed {} actions in one call (logical bound 100 x 1000 x {} rules = {}) without returning; executions per rule {:?}; most active rule {} (no-loop {}) ran {} times",
                c.entry,
                r.actions_per_call.last().copied().unwrap_or(0),
                c.rules.len(),
                c.limit(),
                r.per_rule,
                c.rules.get(imax).map(|r| r.name.as_str()).unwrap_or("?"),
                c.rules.get(imax).map(|r| r.no_loop).unwrap_or(false),
                nmax
            ),
        });
    }
    // a no-loop rule executes at most once inside one call (no reset can happen inside a call)
    if c.entry != "fire_rete_ul_rules" {
        for (i, rule) in c.rules.iter().enumerate() {
            let m = r.per_rule_max_in_call.get(i).copied().unwrap_or(0);
            if rule.no_loop && m > 1 {
                return Some(Viol { clause: "no-loop".into(), cause: format!("{}|no-loop-rule-executed-twice-in-one-call", c.entry), detail: format!("{}: no-loop rule {} was executed {} times inside one call", c.entry, rule.name, m) });
            }
        }
    }
    // returned: within its iteration bound?
    let bound = match c.entry.as_str() {
        "IncrementalEngine::fire_all" => Some(DOCUMENTED_BOUND),
        "ReteUlEngine::fire_all" | "fire_rete_ul_rules_with_agenda" => Some(100 * c.rules.len() as u64),
        _ => None,
    };
    if let Some(b) = bound {
        if let Some(n) = r.actions_per_call.iter().find(|n| **n > b) {
            return Some(Viol { clause: "exceeds-iteration-bound".into(), cause: c.entry.clone(), detail: format!("{} returned after {} action executions in one call; its iteration bound allows at most {}", c.entry, n, b) });
        }
    }
    None
}

fn gen_term_case(rng: &mut Rng, entry: &str) -> TermCase {
    let flat = !(entry == "IncrementalEngine::fire_all" || entry == "TypedReteUlEngine::fire_all");
    let ty = rng.pick(&TYPES).to_string();
    let mut rules: Vec<RuleSpec> = Vec::new();
    let mk = |name: String, ty: &str, sal: i32, nl: bool, cond: Cond, acts: Vec<Act>| RuleSpec { name, ty: ty.to_string(), salience: sal, no_loop: nl, cond, acts, layout: 0 };
    let int = |f: &str, op: Op, v: i64| Cond::Leaf { field: f.into(), op, lit: Val::I(v) };
    let family = rng.below(8);
    let nl = |rng: &mut Rng| rng.chance(1, 3);
    match family {
        0 => {
            // always-true rule(s), action leaves the facts alone
            let n = 1 + rng.below(2);
            for i in 0..n {
                let cond = if rng.bool() { int("age", Op::Gt, -1000) } else { Cond::Or(Box::new(Cond::Leaf { field: "vip".into(), op: Op::Eq, lit: Val::B(true) }), Box::new(Cond::Leaf { field: "vip".into(), op: Op::Eq, lit: Val::B(false) })) };
                rules.push(mk(format!("Always{}", i), &ty, *rng.pick(&[0, 5]), nl(rng), cond, vec![Act::Log]));
            }
        }
        1 => {
            // self-re-activating: the action keeps the condition true and changes the fact
            rules.push(mk("Grow".into(), &ty, 0, nl(rng), int("age", Op::Ge, 0), vec![Act::Incr { ty: ty.clone(), field: "age".into(), by: 1 }]));
        }
        2 => {
            // counter up to K (stops by itself after K firings)
            let k = *rng.pick(&[3i64, 50, 150, 1500]);
            rules.push(mk("CountUp".into(), &ty, 0, nl(rng), int("qty", Op::Lt, k), vec![Act::Incr { ty: ty.clone(), field: "qty".into(), by: 1 }]));
        }
        3 => {
            // mutually triggering pair
            let a = nl(rng);
            let b = nl(rng);
            rules.push(mk("Ping".into(), &ty, *rng.pick(&[0, 5]), a, int("qty", Op::Eq, 0), vec![Act::Set { ty: ty.clone(), field: "qty".into(), val: Val::I(1) }]));
            rules.push(mk("Pong".into(), &ty, *rng.pick(&[0, 5]), b, int("qty", Op::Eq, 1), vec![Act::Set { ty: ty.clone(), field: "qty".into(), val: Val::I(0) }]));
        }
        4 => {
            // three-cycle
            for i in 0..3i64 {
                let f = nl(rng);
                rules.push(mk(format!("Cyc{}", i), &ty, 0, f, int("qty", Op::Eq, i), vec![Act::Set { ty: ty.clone(), field: "qty".into(), val: Val::I((i + 1) % 3) }]));
            }
        }
        5 if flat || entry == "TypedReteUlEngine::fire_all" => {
            // hostile: actions that erase the fact map and rebuild what they need
            let n = 1 + rng.below(3);
            for i in 0..n {
                rules.push(mk(format!("Wipe{}", i), &ty, 0, rng.chance(2, 3), int("age", Op::Ge, 0), vec![Act::Clear, Act::Set { ty: ty.clone(), field: "age".into(), val: Val::I(1) }]));
            }
        }
        _ => {
            // random rule sets of the C06 generator (with modifying actions and mixed no-loop)
            let tys = [ty.as_str()];
            let n = 1 + rng.below(4);
            for i in 0..n {
                let mut r = gen_rule(rng, i, &tys, 2);
                if flat {
                    // the string-map engines only know == != < <= > >=
                    r.cond = strip_string_ops(&r.cond);
                }
                rules.push(r);
            }
        }
    }
    let mut facts = Vec::new();
    let nf = if flat || entry == "TypedReteUlEngine::fire_all" { 1 } else { 1 + rng.below(3) };
    for _ in 0..nf {
        let mut f = gen_fields(rng, 0);
        if family <= 5 {
            f.insert("age".into(), Val::I(rng.range(0, 3)));
            f.insert("qty".into(), Val::I(0));
        }
        facts.push((ty.clone(), f));
    }
    TermCase { entry: entry.to_string(), rules, facts, calls: 1 + rng.below(3) }
}

fn strip_string_ops(c: &Cond) -> Cond {
    match c {
        Cond::Leaf { op, .. } if matches!(op, Op::Contains | Op::StartsWith | Op::EndsWith) => Cond::Leaf { field: "age".into(), op: Op::Ge, lit: Val::I(0) },
        Cond::Leaf { .. } => c.clone(),
        Cond::And(a, b) => Cond::And(Box::new(strip_string_ops(a)), Box::new(strip_string_ops(b))),
        Cond::Or(a, b) => Cond::Or(Box::new(strip_string_ops(a)), Box::new(strip_string_ops(b))),
        Cond::Not(a) => Cond::Not(Box::new(strip_string_ops(a))),
    }
}

enum BatchOutcome {
    Done(TermResult),
    /// the child died / was stopped while this program was running
    Lost(String),
}

/// Run a batch of programs in child processes; a program during which a child dies is
/// reported as `Lost` and the rest of the batch continues in a fresh child.
fn run_batch_in_children(cases: &[TermCase]) -> Vec<BatchOutcome> {
    let mut out: Vec<BatchOutcome> = Vec::new();
    let mut start = 0usize;
    while start < cases.len() {
        // at most 16 programs per child, so that the CPU back-stop (120 s) is far above what 16
        // programs can cost even if every one of them runs to the logical bound
        let chunk = &cases[start..(start + 16).min(cases.len())];
        let mut input = String::new();
        for c in chunk {
            input.push_str(&c.to_json().to_string());
            input.push('\n');
        }
        let lim = child::Limits { cpu_s: 120, as_bytes: Some(4 << 30), wall_s: 1800.0, stack_bytes: None };
        let oc = match child::run_self(&["term".to_string()], input.as_bytes(), &lim) {
            Ok(o) => o,
            Err(e) => {
                for _ in chunk {
                    out.push(BatchOutcome::Lost(format!("cannot spawn worker: {}", e)));
                }
                return out;
            }
        };
        let text = String::from_utf8_lossy(&oc.stdout);
        let mut got = 0usize;
        for line in text.lines() {
            let Some(rest) = line.strip_prefix("RESULT ") else { continue };
            match serde_json::from_str::<Json>(rest).ok().and_then(|j| TermResult::from_json(&j)) {
                Some(r) => {
                    out.push(BatchOutcome::Done(r));
                    got += 1;
                }
                None => break,
            }
            if got == chunk.len() {
                break;
            }
        }
        if got < chunk.len() {
            out.push(BatchOutcome::Lost(format!("worker stopped while running this program: {}", oc.describe())));
            got += 1;
        }
        start += got;
    }
    out
}

/// Signatures must not contain "::" (KNOWN_FINDINGS.txt lines are split at the first "::").
fn mk_sig(clause: &str, cause: &str) -> String {
    format!("{}|{}|{}", ID, clause, cause).replace("::", ".")
}

fn term_violation(c: &TermCase, v: &Viol) -> Violation {
    Violation { clause: v.clause.clone(), sig: mk_sig(&v.clause, &v.cause), detail: v.detail.clone(), case: c.to_json() }
}

/// Shrink a non-returning / bound-exceeding program: drop rules, drop actions, fewer facts and
/// calls. Every candidate runs in a child of its own batch.
fn shrink_term(c: &TermCase, v: &Viol) -> (TermCase, Viol) {
    let same = |cand: &TermCase| -> Option<Viol> {
        if cand.rules.is_empty() {
            return None;
        }
        match run_batch_in_children(std::slice::from_ref(cand)).pop() {
            Some(BatchOutcome::Done(r)) => judge_term(cand, &r).filter(|x| x.clause == v.clause),
            _ => None,
        }
    };
    let mut cur = c.clone();
    let mut curv = v.clone();
    let mut budget = 24;
    let mut progressed = true;
    while progressed && budget > 0 {
        progressed = false;
        let mut cands: Vec<TermCase> = Vec::new();
        for i in 0..cur.rules.len() {
            if cur.rules.len() > 1 {
                let mut x = cur.clone();
                x.rules.remove(i);
                cands.push(x);
            }
        }
        if cur.calls > 1 {
            let mut x = cur.clone();
            x.calls = 1;
            cands.push(x);
        }
        if cur.facts.len() > 1 {
            let mut x = cur.clone();
            x.facts.truncate(1);
            cands.push(x);
        }
        for i in 0..cur.rules.len() {
            if cur.rules[i].acts.len() > 1 {
                for a in 0..cur.rules[i].acts.len() {
                    let mut x = cur.clone();
                    x.rules[i].acts.remove(a);
                    cands.push(x);
                }
            }
        }
        for cand in cands {
            if budget == 0 {
                break;
            }
            budget -= 1;
            if let Some(nv) = same(&cand) {
                cur = cand;
                curv = nv;
                progressed = true;
                break;
            }
        }
    }
    (cur, curv)
}

// ==========================================================================================
// Part C — engine-level clauses on IncrementalEngine histories
// ==========================================================================================

fn engine_level_check(c: &HistCase, st: &mut Stats) {
    st.eval();
    let opts = RunOpts::default();
    let (viols, obs) = run_history(c, &opts);
    if obs.skipped.is_some() {
        st.count("engine::skipped_not_judged(parser_or_loader_did_not_hand_back_the_program)");
        return;
    }
    st.add("engine::fire_all_calls", obs.fire_alls);
    st.add("engine::firings_observed", obs.firings);
    st.max("max::engine::actions_in_one_fire_all", obs.max_actions_in_one_fire_all);
    let mut found: Vec<Viol> = Vec::new();
    for v in viols {
        // only this property's clauses; what C06 owns (fires-on-false, views, ...) is ignored here
        if v.clause == "no-loop" || v.clause == "no-panic" {
            found.push(v);
        }
    }
    if obs.did_not_return {
        found.push(Viol { clause: "does-not-return".into(), cause: "IncrementalEngine::fire_all|in-history".into(), detail: format!("a fire_all of the history executed more than {} actions without returning", opts.action_limit_per_rule * c.rules.len() as u64) });
    } else if obs.max_actions_in_one_fire_all > DOCUMENTED_BOUND {
        found.push(Viol { clause: "exceeds-iteration-bound".into(), cause: "IncrementalEngine::fire_all".into(), detail: format!("a fire_all of the history executed {} actions; the documented bound is {}", obs.max_actions_in_one_fire_all, DOCUMENTED_BOUND) });
    }
    if obs.max_actions_in_one_fire_all == DOCUMENTED_BOUND {
        st.count("engine::fire_all_stopped_exactly_at_its_bound_of_1000");
    }
    // salience order of the first fire_all: single fact type, Log-only, all no-loop
    let single_type = single_type_case(c);
    if single_type && c.all_log_only_no_loop() {
        if let Some(seq) = obs.fired_seqs.first() {
            if seq.len() >= 2 {
                st.count("engine::first_fire_all_order_checked(>=2_firings)");
            }
            let distinct_sal: BTreeSet<i32> = seq.iter().map(|&i| c.rules[i].salience).collect();
            if distinct_sal.len() >= 2 {
                st.nontrivial(hash_of(&c.to_json().to_string()));
            }
            for w in seq.windows(2) {
                if c.rules[w[0]].salience < c.rules[w[1]].salience {
                    found.push(Viol {
                        clause: "engine-salience-order".into(),
                        cause: "lower-salience-rule-fired-before-higher-in-first-fire_all".into(),
                        detail: format!("first fire_all fired {} (salience {}) before {} (salience {})", c.rules[w[0]].name, c.rules[w[0]].salience, c.rules[w[1]].name, c.rules[w[1]].salience),
                    });
                    break;
                }
            }
        }
    }
    for v in found {
        let clause = v.clause.clone();
        let ops0 = c.ops.clone();
        let rules0 = c.rules.clone();
        let fails = |cc: &HistCase| -> bool { engine_level_viols(cc).iter().any(|x| x.clause == clause) };
        let mut f1 = |ops: &[HOp]| fails(&HistCase { rules: rules0.clone(), ops: ops.to_vec() });
        let ops = if clause == "does-not-return" { ops0.clone() } else { shrink_list(&ops0, &mut f1) };
        let small = HistCase { rules: rules0, ops };
        st.violation(Violation { clause: v.clause.clone(), sig: mk_sig(&v.clause, &v.cause), detail: v.detail.clone(), case: small.to_json() });
    }
}

/// Every rule and every inserted fact is of one and the same fact type (then a rule cannot be
/// activated by a fact of another type, which is C06's known finding, not an ordering matter).
fn single_type_case(c: &HistCase) -> bool {
    let mut tys: BTreeSet<&str> = c.ops.iter().filter_map(|o| if let HOp::Insert { ty, .. } = o { Some(ty.as_str()) } else { None }).collect();
    for r in &c.rules {
        tys.insert(r.ty.as_str());
    }
    tys.len() <= 1
}

/// The engine-level verdicts of one history (used by shrinking and replay).
fn engine_level_viols(c: &HistCase) -> Vec<Viol> {
    let mut st = Stats::new();
    // re-use the checker without shrinking: run and collect
    let opts = RunOpts::default();
    let mut out = Vec::new();
    for _ in 0..3 {
        let (viols, obs) = run_history(c, &opts);
        if obs.skipped.is_some() {
            return out;
        }
        for v in viols {
            if (v.clause == "no-loop" || v.clause == "no-panic") && !out.iter().any(|x: &Viol| x.clause == v.clause) {
                out.push(v);
            }
        }
        if obs.did_not_return {
            out.push(Viol { clause: "does-not-return".into(), cause: "IncrementalEngine::fire_all|in-history".into(), detail: "a fire_all of the history did not return within the logical step bound".into() });
            return out;
        }
        if obs.max_actions_in_one_fire_all > DOCUMENTED_BOUND && !out.iter().any(|x| x.clause == "exceeds-iteration-bound") {
            out.push(Viol { clause: "exceeds-iteration-bound".into(), cause: "IncrementalEngine::fire_all".into(), detail: format!("a fire_all executed {} actions; the documented bound is {}", obs.max_actions_in_one_fire_all, DOCUMENTED_BOUND) });
        }
        if single_type_case(c) && c.all_log_only_no_loop() {
            if let Some(seq) = obs.fired_seqs.first() {
                for w in seq.windows(2) {
                    if c.rules[w[0]].salience < c.rules[w[1]].salience && !out.iter().any(|x| x.clause == "engine-salience-order") {
                        out.push(Viol {
                            clause: "engine-salience-order".into(),
                            cause: "lower-salience-rule-fired-before-higher-in-first-fire_all".into(),
                            detail: format!("first fire_all fired {} (salience {}) before {} (salience {})", c.rules[w[0]].name, c.rules[w[0]].salience, c.rules[w[1]].name, c.rules[w[1]].salience),
                        });
                    }
                }
            }
        }
    }
    let _ = &mut st;
    out
}

fn gen_order_case(rng: &mut Rng) -> HistCase {
    // single type, Log-only, all no-loop, many salience levels, several facts
    let ty = rng.pick(&TYPES).to_string();
    let tys = [ty.as_str()];
    let n = 2 + rng.below(3);
    let mut rules = Vec::new();
    for i in 0..n {
        let mut r = gen_rule(rng, i, &tys, 0);
        r.salience = *rng.pick(&[0, 1, 2, 5, 10, 100]);
        if rng.chance(1, 2) {
            // make it likely to match
            r.cond = Cond::Leaf { field: "age".into(), op: Op::Ge, lit: Val::I(-3) };
        }
        rules.push(r);
    }
    let mut ops = Vec::new();
    let nf = 1 + rng.below(4);
    for s in 0..nf {
        ops.push(HOp::Insert { slot: s, ty: ty.clone(), fields: gen_fields(rng, 0) });
        if rng.chance(1, 3) {
            ops.push(HOp::Update { slot: rng.below(s + 1), fields: gen_fields(rng, 0) });
        }
        if rng.chance(1, 6) {
            ops.push(HOp::Retract { slot: rng.below(s + 1) });
        }
    }
    ops.push(HOp::FireAll);
    if rng.chance(1, 2) {
        ops.push(HOp::Reset);
        ops.push(HOp::FireAll);
    }
    HistCase { rules, ops }
}

// ------------------------------------------------------------------------------------------
// Part D: firing order of the closure-driven engines (their "agenda" is the per-pass list of
// matching rules): descending salience, the rule added earlier first among equals.

#[derive(Clone, Debug)]
struct FlatOrderCase {
    entry: String,
    /// (salience, matches)
    rules: Vec<(i32, bool)>,
}

impl FlatOrderCase {
    fn to_json(&self) -> Json {
        json!({"kind": "flat-order", "entry": self.entry, "rules": self.rules.iter().map(|(s, m)| json!([s, m])).collect::<Vec<_>>()})
    }
    fn from_json(j: &Json) -> Option<FlatOrderCase> {
        Some(FlatOrderCase {
            entry: j.get("entry")?.as_str()?.to_string(),
            rules: j.get("rules")?.as_array()?.iter().map(|r| Some((r.get(0)?.as_i64()? as i32, r.get(1)?.as_bool()?))).collect::<Option<Vec<_>>>()?,
        })
    }
}

fn gen_flat_order_case(rng: &mut Rng) -> FlatOrderCase {
    let entry = rng.pick(&["ReteUlEngine::fire_all", "fire_rete_ul_rules_with_agenda"]).to_string();
    // mostly more rules than a small-slice sort path handles (20), up to 80
    let n = if rng.chance(1, 3) { 1 + rng.below(20) } else { 21 + rng.below(60) };
    let pool: &[i32] = match rng.below(4) {
        0 => &[0, 1, 2],
        1 => &[5, 5, 5, 7],
        2 => &[-3, 0, 0, 10, 10, 100],
        _ => &[1, 2, 3, 4, 5, 6, 7, 8],
    };
    let rules = (0..n).map(|_| (*rng.pick(pool), !rng.chance(1, 6))).collect();
    FlatOrderCase { entry, rules }
}

/// The order in which the (all no-loop, fact-preserving) rules ran in ONE call.
fn run_flat_order(c: &FlatOrderCase) -> Vec<usize> {
    let log: Arc<std::sync::Mutex<Vec<usize>>> = Arc::new(std::sync::Mutex::new(Vec::new()));
    let node = |m: bool| ReteUlNode::UlAlpha(AlphaNode { field: "T.on".into(), operator: "==".into(), value: if m { "true".into() } else { "false".into() } });
    let mut facts: HashMap<String, String> = HashMap::new();
    facts.insert("T.on".into(), "true".into());
    if c.entry == "ReteUlEngine::fire_all" {
        let mut engine = ReteUlEngine::new();
        for (i, (sal, m)) in c.rules.iter().enumerate() {
            let l = log.clone();
            engine.add_rule_with_action(format!("r{:02}", i), node(*m), *sal, true, move |_f| l.lock().unwrap().push(i));
        }
        for (k, v) in &facts {
            engine.set_fact(k.clone(), v.clone());
        }
        let _ = engine.fire_all();
    } else {
        let mut rules: Vec<ReteUlRule> = c
            .rules
            .iter()
            .enumerate()
            .map(|(i, (sal, m))| {
                let l = log.clone();
                ReteUlRule { name: format!("r{:02}", i), node: node(*m), priority: *sal, no_loop: true, action: Arc::new(move |_f: &mut HashMap<String, String>| l.lock().unwrap().push(i)) }
            })
            .collect();
        let _ = fire_rete_ul_rules_with_agenda(&mut rules, &mut facts);
    }
    let v = log.lock().unwrap().clone();
    v
}

fn judge_flat_order(c: &FlatOrderCase, got: &[usize]) -> Option<Viol> {
    let mut want: Vec<usize> = (0..c.rules.len()).filter(|i| c.rules[*i].1).collect();
    want.sort_by_key(|i| std::cmp::Reverse(c.rules[*i].0)); // stable: insertion order among equals
    if got == want.as_slice() {
        return None;
    }
    let mut gs = got.to_vec();
    let mut ws = want.clone();
    gs.sort();
    ws.sort();
    let (clause, cause) = if gs != ws {
        ("fires-each-matching-no-loop-rule-once", "set-of-fired-rules-differs")
    } else if got.windows(2).any(|w| c.rules[w[0]].0 < c.rules[w[1]].0) {
        ("order", "lower-salience-before-higher")
    } else {
        ("order", "later-added-rule-first-among-equal-salience")
    };
    let first = got.iter().zip(want.iter()).position(|(a, b)| a != b).unwrap_or(got.len().min(want.len()));
    Some(Viol {
        clause: format!("flat-{}", clause),
        cause: format!("{}|{}", c.entry, cause),
        detail: format!(
            "{} with {} rules (all no-loop, actions leave the facts alone): rules ran in the order {:?}; descending salience with the rule added earlier first among equals is {:?} (first difference at position {}; saliences {:?})",
            c.entry,
            c.rules.len(),
            got,
            want,
            first,
            c.rules.iter().map(|r| r.0).collect::<Vec<_>>()
        ),
    })
}

fn check_flat_order(c: &FlatOrderCase, st: &mut Stats) {
    st.eval();
    st.count("flat_order::cases");
    st.max("max::flat_order::rules_in_one_pass", c.rules.len() as u64);
    let got = match pan::catch_frames(|| run_flat_order(c)) {
        Ok(g) => g,
        Err(p) => {
            st.violation(Violation { clause: "no-panic".into(), sig: mk_sig("no-panic", &format!("{}|{}", p.class(), p.frame)), detail: format!("panic: {}", p.msg), case: c.to_json() });
            return;
        }
    };
    st.add("flat_order::rule_executions_observed", got.len() as u64);
    let ties = got.windows(2).filter(|w| c.rules[w[0]].0 == c.rules[w[1]].0).count();
    st.add("flat_order::adjacent_equal_salience_pairs_observed", ties as u64);
    if ties > 0 && got.windows(2).any(|w| c.rules[w[0]].0 != c.rules[w[1]].0) {
        st.nontrivial(hash_of(&c.to_json().to_string()));
    }
    if let Some(v) = judge_flat_order(c, &got) {
        // shrink: drop rules while the same cause fails
        let mut cur = c.clone();
        let mut i = 0;
        while i < cur.rules.len() {
            let mut cand = cur.clone();
            cand.rules.remove(i);
            let ok = pan::catch_frames(|| run_flat_order(&cand)).ok().and_then(|g| judge_flat_order(&cand, &g)).map(|x| x.cause == v.cause).unwrap_or(false);
            if ok {
                cur = cand;
            } else {
                i += 1;
            }
        }
        let g = pan::catch_frames(|| run_flat_order(&cur)).unwrap_or_default();
        if let Some(v2) = judge_flat_order(&cur, &g) {
            st.violation(Violation { clause: v2.clause.clone(), sig: mk_sig(&v2.clause, &v2.cause), detail: v2.detail.clone(), case: cur.to_json() });
        }
    }
}

// ==========================================================================================

struct C07;

impl Check for C07 {
    fn id(&self) -> &'static str {
        ID
    }
    fn rule(&self) -> String {
        "Part A (agenda, API level): sequences over add_activation (rules r0..r4, even-numbered rules are no-loop; 3 salience values incl. ties and i32 extremes; agenda groups MAIN/G1/G2; activation groups none/X/Y; lock-on-active, auto_focus activations and a ruleflow group RF (activate / deactivate ops; an activation of an inactive ruleflow group is not queued; queued members of a group switched off later are not judged) in a quarter of the sequences each; creation instants forced strictly increasing; in some sequences activations are created first and added later in another order) / get_next_activation (with or without mark_rule_fired, also marking earlier-returned ones) / set_focus / reset_fired_flags / clear, checked against a shadow multiset with a limbo set: EXHAUSTIVE for every sequence of the stated length over a 21-symbol alphabet (16 adds = 2 rules x 2 saliences x 2 agenda groups x {no activation group, X}; pop; pop+mark; focus MAIN; focus G1; reset), random for lengths 4..64. Part B (termination): generated programs (always-true rules without no-loop, self-re-activating increments, counters to K in {3,50,150,1500}, ping-pong pairs, 3-cycles, fact-map-erasing actions, random rule sets with modifying actions) for each of IncrementalEngine::fire_all, TypedReteUlEngine::fire_all, ReteUlEngine::fire_all, fire_rete_ul_rules, fire_rete_ul_rules_with_agenda, run in child processes; the action closures count executions per call and unwind after 100 x 1000 x #rules. Part C: IncrementalEngine histories of the C06 generator (no-loop at most once between resets; <= 1000 actions per fire_all) and single-type Log-only no-loop programs with up to 6 salience levels (first fire_all fires in non-increasing salience). Part D (order, closure-driven engines): 1..=80 always-matching or never-matching no-loop rules whose actions leave the facts alone (saliences from small pools with many ties), one call of ReteUlEngine::fire_all / fire_rete_ul_rules_with_agenda: the rules must run in descending salience, the rule added earlier first among equals (their per-pass agenda lists the matching rules in the order they were added). Non-trivial: an agenda sequence in which at least one pop chose among several eligible activations and at least one ineligible activation was passed over; a termination program that executed at least one action; an order history whose first fire_all fired rules of at least two salience levels.".into()
    }
    fn assumptions(&self) -> Vec<String> {
        vec![
            "'earlier-created' is the order of Activation::new calls (the harness forces strictly increasing created_at instants; ties in the instant are therefore not exercised)".into(),
            "an activation that is ineligible when it is passed over (or when it is added) may be discarded or kept: both are accepted (limbo)".into(),
            "lock-on-active is outside the statement: an activation with the flag is 'either eligible or not' once a flagged activation of its agenda group was marked fired".into(),
            "which group gets the focus when the focused group is exhausted is not prescribed; the returned activation must belong to get_focus() after the call, and the group focused before the call must have had nothing eligible".into(),
            "'does not return' = more than 100 x 1000 x #rules action executions inside one call; a child stopped by the CPU limit without reaching that count is inconclusive".into(),
            "iteration bounds: IncrementalEngine::fire_all 1000 iterations (<= 1000 actions per call); fire_rete_ul_rules_with_agenda / ReteUlEngine::fire_all 100 passes (<= 100 x #rules actions per call)".into(),
        ]
    }
    fn devopt_scale(&self) -> Option<f64> {
        Some(0.1)
    }
    fn explore(&self, cli: &Cli, st: &mut Stats) {
        let nthreads = cli.threads;
        // ---- Part A exhaustive
        let len = cli.tier.pick(5usize, 6usize);
        let alphabet = exhaustive_agenda_alphabet();
        let na = alphabet.len() as u64;
        let total = na.pow(len as u32);
        let alphabet = &alphabet;
        shards(cli, nthreads, st, |shard, _rng, st| {
            let mut k = shard as u64;
            let mut ops: Vec<AOp> = Vec::with_capacity(len);
            while k < total {
                ops.clear();
                let mut x = k;
                for _ in 0..len {
                    ops.push(alphabet[(x % na) as usize].clone());
                    x /= na;
                }
                check_agenda(&ops, st, k % 100_003 == 7);
                k += nthreads as u64;
            }
        });
        st.exhaustive.push(format!("agenda: all {}^{} = {} sequences of length {} (every prefix is monitored, so all shorter ones too) over 16 add_activation variants (2 rules [one no-loop] x salience 1|2 x agenda group MAIN|G1 x activation group none|X), get_next_activation, get_next_activation+mark_rule_fired, set_focus(MAIN), set_focus(G1), reset_fired_flags", na, len, total, len));
        // ---- Part A random
        let per = cli.n(8_000, 100_000);
        shards(cli, nthreads, st, |_shard, rng, st| {
            for _ in 0..per {
                if cli.expired() {
                    st.count("stopped_by_time_budget");
                    break;
                }
                let ops = gen_agenda_ops(rng);
                check_agenda(&ops, st, true);
            }
        });
        // ---- Part C engine-level
        let per_c = cli.n(800, 20_000);
        shards(cli, nthreads, st, |_shard, rng, st| {
            for i in 0..per_c {
                if cli.expired() {
                    st.count("stopped_by_time_budget");
                    break;
                }
                let c = if i % 2 == 0 { gen_order_case(rng) } else { gen_case(rng) };
                engine_level_check(&c, st);
            }
        });
        // ---- Part D firing order of the closure-driven engines
        let per_d = cli.n(600, 20_000);
        shards(cli, nthreads, st, |_shard, rng, st| {
            for _ in 0..per_d {
                if cli.expired() {
                    break;
                }
                let c = gen_flat_order_case(rng);
                check_flat_order(&c, st);
            }
        });
        // ---- observation only: do engine-created activations ever share a creation instant?
        {
            let mut probe = Stats::new();
            let r = pan::catch(|| {
                let rules: Vec<RuleSpec> = (0..3)
                    .map(|i| RuleSpec { name: format!("T{}", i), ty: "Person".into(), salience: 5, no_loop: true, cond: Cond::Leaf { field: "age".into(), op: Op::Ge, lit: Val::I(0) }, acts: vec![Act::Log], layout: 0 })
                    .collect();
                let Ok(parsed) = parse_program(&rules) else { return (0u64, 0u64) };
                let mut engine = IncrementalEngine::new();
                for r in parsed {
                    if let Ok((rr, deps)) = GrlReteLoader::verif_convert_rule(r) {
                        engine.add_rule(rr, deps);
                    }
                }
                for i in 0..40i64 {
                    let mut f = Fields::new();
                    f.insert("age".into(), Val::I(i));
                    engine.insert("Person".into(), fields_to_typed(&f));
                }
                let mut instants = Vec::new();
                while let Some(a) = engine.agenda_mut().get_next_activation() {
                    instants.push(a.created_at);
                    if instants.len() > 100_000 {
                        break;
                    }
                }
                let total = instants.len() as u64;
                instants.sort();
                let equal = instants.windows(2).filter(|w| w[0] == w[1]).count() as u64;
                (total, equal)
            });
            if let Ok((total, equal)) = r {
                probe.add("engine::instant_probe::activations_created_by_the_engine_and_drained", total);
                probe.add("engine::instant_probe::pairs_with_equal_created_at(tie_order_would_be_arbitrary)", equal);
            }
            st.merge(probe);
        }
        // ---- Part B termination, in children
        let per_b = cli.n(30, 640); // programs per shard; x16 shards = 480 quick
        shards(cli, nthreads, st, |shard, rng, st| {
            let mut cases = Vec::new();
            for i in 0..per_b {
                let entry = ENTRY_POINTS[((shard as u64 + i) % ENTRY_POINTS.len() as u64) as usize];
                cases.push(gen_term_case(rng, entry));
            }
            let outcomes = run_batch_in_children(&cases);
            let mut shrunk: HashMap<String, u32> = HashMap::new();
            for (c, o) in cases.iter().zip(outcomes.iter()) {
                st.eval();
                match o {
                    BatchOutcome::Lost(why) => {
                        st.count("termination::programs_without_verdict(child_lost)");
                        st.inconclusive(format!("termination program for {} has no verdict: {} (CPU back-stop / dead child; action-free spinning cannot be told from a slow machine)", c.entry, why));
                        if st.notes.len() < 10 {
                            st.notes.push(format!("lost program: {}", c.to_json()));
                        }
                    }
                    BatchOutcome::Done(r) => {
                        if let Some(w) = &r.skipped {
                            st.count("termination::skipped_not_judged(parser_or_loader_did_not_hand_back_the_program)");
                            if st.notes.len() < 5 {
                                st.notes.push(format!("termination program skipped: {}", w));
                            }
                            continue;
                        }
                        st.count(&format!("termination::programs::{}", c.entry));
                        let total: u64 = r.per_rule.iter().sum();
                        st.add("termination::action_executions_counted", total);
                        if r.returned {
                            st.count(&format!("termination::returned::{}", c.entry));
                            let m = r.actions_per_call.iter().copied().max().unwrap_or(0);
                            st.max(&format!("max::termination::actions_in_one_returning_call::{}", c.entry), m);
                        }
                        if total > 0 {
                            st.nontrivial(hash_of(&c.to_json().to_string()));
                            st.sample(|| c.to_json());
                        }
                        if let Some(v) = judge_term(c, r) {
                            let key = format!("{}|{}", v.clause, v.cause);
                            let n = shrunk.entry(key).or_insert(0);
                            if *n < 2 {
                                *n += 1;
                                let (sc, sv) = shrink_term(c, &v);
                                st.violation(term_violation(&sc, &sv));
                            } else {
                                st.violation(term_violation(c, &v));
                            }
                        }
                    }
                }
            }
        });
    }
    fn replay(&self, cli: &Cli, case: &Json) -> Vec<Violation> {
        let verbose = cli.verbose || cli.replay.is_some();
        match case.get("kind").and_then(|v| v.as_str()) {
            Some("agenda") => {
                let Some(ops) = case.get("ops").and_then(|v| v.as_array()).and_then(|a| a.iter().map(AOp::from_json).collect::<Option<Vec<_>>>()) else {
                    return vec![bad_case(case)];
                };
                if verbose {
                    for o in &ops {
                        out!("  {}", o.to_json());
                    }
                }
                match pan::catch_frames(|| run_agenda(&ops)) {
                    Ok((vs, _)) => vs.iter().map(|x| Violation { clause: x.clause.clone(), sig: mk_sig(&format!("agenda-{}", x.clause), &x.cause), detail: x.detail.clone(), case: case.clone() }).collect(),
                    Err(p) => vec![Violation { clause: "no-panic".into(), sig: mk_sig("no-panic", &format!("{}|{}", p.class(), p.frame)), detail: format!("panic: {}", p.msg), case: case.clone() }],
                }
            }
            Some("flat-order") => {
                let Some(c) = FlatOrderCase::from_json(case) else { return vec![bad_case(case)] };
                match pan::catch_frames(|| run_flat_order(&c)) {
                    Ok(g) => judge_flat_order(&c, &g).map(|v| vec![Violation { clause: v.clause.clone(), sig: mk_sig(&v.clause, &v.cause), detail: v.detail, case: case.clone() }]).unwrap_or_default(),
                    Err(p) => vec![Violation { clause: "no-panic".into(), sig: mk_sig("no-panic", &format!("{}|{}", p.class(), p.frame)), detail: format!("panic: {}", p.msg), case: case.clone() }],
                }
            }
            Some("termination") => {
                let Some(c) = TermCase::from_json(case) else { return vec![bad_case(case)] };
                if verbose {
                    out!("  entry point: {}\n{}", c.entry, program_text(&c.rules));
                    out!("  facts: {:?}", c.facts);
                }
                match run_batch_in_children(std::slice::from_ref(&c)).pop() {
                    Some(BatchOutcome::Done(r)) => {
                        if verbose {
                            out!("  result: {}", r.to_json());
                        }
                        judge_term(&c, &r).map(|v| vec![term_violation(&c, &v)]).unwrap_or_default()
                    }
                    Some(BatchOutcome::Lost(why)) => {
                        out!("INCONCLUSIVE property={} replay: {}", ID, why);
                        vec![]
                    }
                    None => vec![],
                }
            }
            Some("history") => {
                let Some(c) = HistCase::from_json(case) else { return vec![bad_case(case)] };
                if verbose {
                    out!("  program:\n{}", program_text(&c.rules));
                    for o in &c.ops {
                        out!("  {}", o.to_json());
                    }
                }
                engine_level_viols(&c).iter().map(|v| Violation { clause: v.clause.clone(), sig: mk_sig(&v.clause, &v.cause), detail: v.detail.clone(), case: case.clone() }).collect()
            }
            _ => vec![bad_case(case)],
        }
    }
    fn worker(&self, _cli: &Cli, args: &[String]) -> i32 {
        if args.first().map(|s| s.as_str()) != Some("term") {
            return 2;
        }
        let mut input = String::new();
        if std::io::Read::read_to_string(&mut std::io::stdin(), &mut input).is_err() {
            return 2;
        }
        for line in input.lines() {
            if line.trim().is_empty() {
                continue;
            }
            let Some(c) = serde_json::from_str::<Json>(line).ok().and_then(|j| TermCase::from_json(&j)) else {
                out!("RESULT {}", TermResult { skipped: Some("worker could not decode the program".into()), ..Default::default() }.to_json());
                continue;
            };
            let r = run_term(&c);
            out!("RESULT {}", r.to_json());
        }
        0
    }
}

fn bad_case(case: &Json) -> Violation {
    Violation { clause: "harness".into(), sig: format!("{}|harness|bad-case", ID), detail: "cannot decode case".into(), case: case.clone() }
}

fn main() {
    run_main(C07)
}
