//! C19 — parallel execution gives the sequential verdicts on every schedule.
//!
//! Differential monitor: for generated rule sets in the typed core of GRL, `execute_parallel` with
//! parallelism on (repeated under seeded schedule perturbation at the library's H5 schedule
//! points) against the same call with parallelism off (the engine's own one-by-one path) and
//! against an independent three-valued reference evaluation of every rule; structural clauses on
//! `execution_contexts`; a deadlock watchdog for "it always returns". Thorough tier adds Miri
//! many-seeds and a ThreadSanitizer build of the same generator (`/verif/miri`).

use rre_verif::*;
use std::collections::HashSet;
use std::sync::{Arc, Mutex};

#[path = "../c19_model.rs"]
mod c19_model;
#[path = "../dlwatch.rs"]
mod dlwatch;
#[path = "../sanit.rs"]
mod sanit;

use c19_model::*;

const PERTURB_US: u64 = 200;
/// share of the soft wall-clock budget after which the native phase stops generating
const NATIVE_BUDGET_SHARE: f64 = 0.45;
const SHRINK_TRIES: usize = 30;
const REPLAY_TRIES: usize = 400;
const MAX_REPORTED_PER_SHARD: usize = 2;

fn violation(clause: &str, cause: &str, detail: &str, case: Json) -> Violation {
    Violation { clause: clause.into(), sig: format!("C19|{}|{}", clause, cause), detail: detail.into(), case }
}

/// Run the case up to `tries` times; first failure of `clause` (any clause when None).
fn find_failure(c: &CaseSpec, tries: usize, clause: Option<&str>) -> Option<Fail> {
    for _ in 0..tries {
        if let (Some(f), _) = run_case(c, &mut || {}) {
            if clause.map_or(true, |cl| cl == f.0) {
                return Some(f);
            }
        }
    }
    None
}

/// Drop rules, then lower the number of schedules, while the same clause keeps failing.
fn shrink_case(c: &CaseSpec, clause: &str) -> (CaseSpec, Option<Fail>) {
    let mut last: Option<Fail> = None;
    // a failure that shows on every execution needs no repetition while shrinking
    let deterministic = (0..5).all(|_| find_failure(c, 1, Some(clause)).is_some());
    let tries = if deterministic { 2 } else { SHRINK_TRIES };
    let mut fails = |rules: &[RuleSpec]| {
        if rules.is_empty() {
            return false;
        }
        let cand = CaseSpec { rules: rules.to_vec(), ..c.clone() };
        match find_failure(&cand, tries, Some(clause)) {
            Some(f) => {
                last = Some(f);
                true
            }
            None => false,
        }
    };
    let rules = shrink_list(&c.rules, &mut fails);
    let small = CaseSpec { rules, ..c.clone() };
    match last {
        Some(f) => (small, Some(f)),
        None => (c.clone(), None),
    }
}

fn record_obs(o: &CaseObs, st: &mut Stats) {
    st.add("parallel_runs_compared", o.parallel_runs);
    st.add("rule_evaluations_observed", o.rules_evaluated);
    st.add("rule_firings_observed", o.rules_fired);
    st.add("rule_non_firings_observed", o.rules_not_fired);
    st.add("enabled_rules_with_defined_reference_verdict", o.reference_defined);
    st.add("enabled_rules_with_undefined_reference_verdict(missing field; differential only)", o.reference_undefined);
    st.add("salience_levels_observed", o.levels);
    st.add("salience_levels_with_2_or_more_rules", o.levels_with_2plus_rules);
    st.add("parallel_runs_completing_in_another_order_than_one_by_one", o.runs_reordered);
    st.add("mark_action_runs_inconsistent_with_reported_verdict(evidence only)", o.action_runs_inconsistent);
}

struct C19;

impl C19 {
    /// returns true when the shard should stop (many failures already reported)
    fn check_one(c: &CaseSpec, st: &mut Stats, slot: &dlwatch::Slot, orders: &mut HashSet<u64>, reported: &mut usize) -> bool {
        let text = std::cell::OnceCell::new();
        let (f, o) = run_case(c, &mut || {
            let t = text.get_or_init(|| c.to_json().to_string());
            slot.enter(|| t.clone());
            slot.leave();
        });
        st.eval();
        if o.skipped_parser {
            st.count("skipped_parser_returned_other_rules_than_written(C04's subject)");
            return false;
        }
        record_obs(&o, st);
        let distinct_orders: HashSet<u64> = o.completion_orders.iter().copied().collect();
        st.max("max::distinct_completion_orders_of_one_case", distinct_orders.len() as u64);
        orders.extend(distinct_orders);
        if c.via_grl {
            st.count("cases_built_from_grl_text");
        }
        if c.decoy_panics {
            st.count("cases_whose_engine_first_ran_a_call_in_which_a_worker_panicked");
        }
        if !c.flat_decoys.is_empty() {
            st.count("cases_with_flat_facts_named_like_a_dotted_path(other value than the object field)");
        }
        if o.rules_fired > 0 && o.rules_not_fired > 0 && o.levels_with_2plus_rules > 0 {
            st.nontrivial(hash_of(&c.to_json().to_string()));
            st.sample(|| c.to_json());
        }
        if let Some((clause, cause, detail)) = f {
            st.count("failing_cases");
            if *reported < MAX_REPORTED_PER_SHARD {
                *reported += 1;
                let (small, sf) = shrink_case(c, &clause);
                let (cl, ca, de) = sf.unwrap_or((clause, cause, detail));
                st.violation(violation(&cl, &ca, &de, small.to_json()));
            } else if st.get("failing_cases") > 60 {
                st.count("exploration_cut_short_after_many_failures");
                return true;
            }
        }
        false
    }

    fn explore_native(&self, cli: &Cli, st: &mut Stats) {
        let per = cli.n(320, 4_000);
        let schedules = cli.tier.pick(4u32, 8u32);
        let orders: Arc<Mutex<HashSet<u64>>> = Arc::new(Mutex::new(HashSet::new()));
        let o2 = Arc::clone(&orders);
        let cli2 = cli.clone();
        let nshards = cli.threads;
        let grid_done: Arc<Mutex<u64>> = Arc::new(Mutex::new(0));
        let g2 = Arc::clone(&grid_done);
        sched::install(cli.seed, PERTURB_US);
        let blocked = dlwatch::shards_watched(cli, nshards, st, move |shard, rng, st, slot| {
            let mut my_orders: HashSet<u64> = HashSet::new();
            let mut reported = 0usize;
            // (a) the chunking grid, enumerated completely: n rules on ONE salience level
            let mut job = 0usize;
            let mut done = 0u64;
            for n in 1..=24usize {
                for max_threads in 1..=16usize {
                    for min_rules in 1..=4usize {
                        job += 1;
                        if job % nshards != shard {
                            continue;
                        }
                        let mut grng = Rng::derive(cli2.seed, 7_000_000 + job as u64);
                        let mut c = gen_case(&mut grng, n, max_threads, min_rules, 2, false, false);
                        for r in c.rules.iter_mut() {
                            r.salience = 5;
                            r.enabled = true;
                        }
                        if Self::check_one(&c, st, slot, &mut my_orders, &mut reported) {
                            o2.lock().unwrap().extend(my_orders);
                            return;
                        }
                        st.count("chunking_grid_configurations");
                        done += 1;
                    }
                }
            }
            *g2.lock().unwrap() += done;
            // (b) random configurations
            for _ in 0..per {
                if cli2.start.elapsed().as_secs_f64() > cli2.budget_s * NATIVE_BUDGET_SHARE {
                    st.count("stopped_by_time_budget");
                    break;
                }
                let n = 1 + rng.below(24);
                let max_threads = 1 + rng.below(16);
                let min_rules = 1 + rng.below(4);
                let c = if rng.chance(1, 20) {
                    st.count("wide_configurations(65..=200 rules on 1-2 levels, max_threads 32..=256)");
                    gen_wide_case(rng, 2)
                } else {
                    gen_case(rng, n, max_threads, min_rules, schedules, true, false)
                };
                if Self::check_one(&c, st, slot, &mut my_orders, &mut reported) {
                    break;
                }
                st.count("random_configurations");
            }
            o2.lock().unwrap().extend(my_orders);
        });
        let (reached, perturbed) = sched::counters();
        sched::uninstall();
        for b in blocked {
            let case = b.case.as_deref().and_then(|s| serde_json::from_str::<Json>(s).ok()).unwrap_or(Json::Null);
            st.violation(violation("always-returns", "all-threads-blocked", &format!("shard {}: {}", b.shard, b.detail), case));
        }
        if *grid_done.lock().unwrap() == 24 * 16 * 4 {
            st.exhaustive.push("chunking grid: every (rules on one salience level n in 1..=24) x (max_threads 1..=16) x (min_rules_per_thread 1..=4), one generated rule set each, 2 schedules each".into());
        }
        st.add("library_schedule_points_reached", reached);
        st.add("schedule_perturbations_applied", perturbed);
        if reached == 0 {
            st.inconclusive("the library's H5 schedule points in the worker loop were never reached");
        }
        st.add("distinct_thread_completion_orders_observed", orders.lock().unwrap().len() as u64);
        if st.get("parallel_runs_completing_in_another_order_than_one_by_one") == 0 {
            st.inconclusive("no parallel run ever completed in another order than the one-by-one path: no schedule diversity was observed");
        }
        if st.get("mark_action_runs_inconsistent_with_reported_verdict(evidence only)") > 0 {
            st.notes.push("some mark_<rule> action runs disagree with the reported fired flag (outside the statement; see counter)".into());
        }
    }

    /// Rules with long / deep conditions, one case per child process: a worker thread that
    /// overflows its stack takes the whole process down, which only another process can observe.
    fn explore_deep(&self, cli: &Cli, st: &mut Stats) {
        let per = cli.n(3, 40);
        let schedules = 2u32;
        shards(cli, cli.threads, st, |_shard, rng, st| {
            for _ in 0..per {
                if cli.expired() {
                    break;
                }
                let c = gen_deep_case(rng, schedules);
                let j = c.to_json();
                st.eval();
                st.count("deep_condition_cases_run_in_a_child_process");
                st.max("max::leaves_in_one_condition_chain", 96);
                match run_case_in_child(&j, 60, Some(4 << 30)) {
                    Ok(vs) => {
                        if vs.is_empty() {
                            st.nontrivial(hash_of(&j.to_string()));
                        }
                        for v in vs {
                            st.violation(v);
                        }
                    }
                    Err(o) => match death_to_violation("C19", &j, &o, 60) {
                        Ok(v) => st.violation(v),
                        Err(why) => st.inconclusive(why),
                    },
                }
            }
        });
    }

    fn explore_sanitizers(&self, cli: &Cli, st: &mut Stats) {
        let root = cli.root.clone();
        let seeds = cli.n(1, 48).max(2) as u32;
        let args: Vec<String> = vec![cli.seed.to_string(), "6".into(), "0".into(), "small".into()];
        let v = sanit::miri_run(&root, "c19", "C19", &args, seeds, None, 1500);
        let a2 = args.clone();
        if let Some(out) = sanit::fold(st, "C19", "miri", v, |kind, report, line| {
            json!({"kind": "miri", "bin": "c19", "args": a2, "seeds": seeds, "report_kind": kind, "report": report, "workload_line": line})
        }) {
            let sums = sanit::summary_lines(&out, "C19");
            fold_summaries(st, "miri", &sums);
            if sums.len() < seeds as usize {
                st.inconclusive(format!("miri: only {} of {} seeds reported a summary", sums.len(), seeds));
            }
        }
        match sanit::tsan_build(&root, 1200) {
            Err(e) => st.inconclusive(format!("tsan: {}", e)),
            Ok(dir) => {
                let procs = 8u64;
                let per = cli.n(25, 400);
                let args_list: Vec<Vec<String>> = (0..procs)
                    .map(|k| vec![(cli.seed.wrapping_mul(1000) + k).to_string(), per.to_string(), "100".into(), "full".into()])
                    .collect();
                let mut all = String::new();
                for (v, args) in sanit::tsan_run_many(&dir.join("c19"), "C19", &args_list, 1200).into_iter().zip(args_list.iter()) {
                    let a2 = args.clone();
                    if let Some(out) = sanit::fold(st, "C19", "tsan", v, |kind, report, line| {
                        json!({"kind": "tsan", "bin": "c19", "args": a2, "report_kind": kind, "report": report, "workload_line": line})
                    }) {
                        if sanit::summary_lines(&out, "C19").is_empty() {
                            st.inconclusive("tsan: a workload process printed no summary");
                        }
                        all.push_str(&out);
                    }
                }
                fold_summaries(st, "tsan", &sanit::summary_lines(&all, "C19"));
            }
        }
    }
}

fn fold_summaries(st: &mut Stats, tool: &str, sums: &[std::collections::HashMap<&str, &str>]) {
    let mut orders: HashSet<String> = HashSet::new();
    st.add(&format!("{}_runs_completed", tool), sums.len() as u64);
    for s in sums {
        let num = |k: &str| s.get(k).and_then(|v| v.parse::<u64>().ok()).unwrap_or(0);
        st.add(&format!("{}_cases_checked", tool), num("cases"));
        st.add(&format!("{}_parallel_runs_compared", tool), num("parallel_runs"));
        st.add(&format!("{}_runs_reordered", tool), num("reordered"));
        st.add(&format!("{}_schedule_points_reached", tool), num("sched_points"));
        for h in s.get("orders").unwrap_or(&"").split(',').filter(|x| !x.is_empty()) {
            orders.insert(h.to_string());
        }
    }
    st.add(&format!("{}_distinct_completion_orders(first 64 per run)", tool), orders.len() as u64);
}

impl Check for C19 {
    fn id(&self) -> &'static str {
        "C19"
    }
    fn rule(&self) -> String {
        "EXHAUSTIVE grid: every (n rules on one salience level, n in 1..=24) x max_threads 1..=16 x min_rules_per_thread 1..=4 with one generated rule set per cell, 2 schedules each. SAMPLED: random rule sets of 1..=24 rules (conditions: int/string/bool field vs literal of the same type under && / || / ! to depth 3 over 12 fields, flat and nested, fields missing in some cases; salience pools with ties incl. i32::MIN/MAX; 1 in 8 rules disabled; actions Set/Log/custom writing only Out.* keys that no condition reads), max_threads 1..=16, min_rules_per_thread 1..=4; in one case in four the ParallelRuleEngine of every call has just executed a DIFFERENT knowledge base of the same name and version (same rule names, neighbouring rule's body, inverted enabled flags); one third of the cases are written as GRL text and parsed by the real parser (case skipped and counted if the parser does not return the rules as written). Every case: one run with parallelism off (the engine's one-by-one path) and 4 (quick) / 8 (thorough) runs with parallelism on under seeded yields/sleeps at the library's schedule points; each run checked for: Ok result, every enabled rule exactly once in execution_contexts and no other, total_rules_evaluated == number of enabled rules, total_rules_fired == number of fired contexts, fired flag == reference verdict where defined, no lower-salience rule before a higher one; parallel vs one-by-one: same fired set, same counts. A case is non-trivial when at least one rule fired, at least one did not and some salience level held 2 or more rules; distinct by case. DEEP: 3 (quick) / 40 (thorough) cases per shard of 2..=16 rules on one salience level whose conditions are left-leaning chains of 12..=96 leaves under && or || (mostly true up to the deepest leaf), some under towers of `!`, each case judged in a child process of its own (a stack overflow in a worker thread kills the process). Thorough adds Miri many-seeds (48 scheduler seeds x 6 small cases) and a ThreadSanitizer build (8 processes x 400 cases x 4 schedules).".into()
    }
    fn assumptions(&self) -> Vec<String> {
        vec![
            "'evaluating the same enabled rules one by one' is observed as execute_parallel with ParallelConfig.enabled = false (the engine's own sequential path) and, independently, as a three-valued reference evaluation (Kleene; a leaf on a missing field is Undefined and such rules are compared differentially only)".into(),
            "actions of generated rules write only Out.* keys which no condition reads, so verdicts are schedule-independent by construction (Facts is shared between workers)".into(),
            "the order of execution_contexts inside one salience level is unconstrained".into(),
            "one case in 6 also stores flat facts whose name is the dotted path of an object field, with another value (Facts::set(\"F.i0\", v)); a condition's `F.i0` is read as the field of the object fact F when there is one (Facts::get_nested; the flat name is the fallback that ParallelRuleEngine, RustRuleEngine::evaluate_single_condition and Facts document), so these must change no verdict".into(),
            "'it always returns' is decided by the deadlock watchdog (no thread of the process runnable, no CPU used, no progress over 12 consecutive samples), natively; by Miri's deadlock detection in the thorough tier".into(),
            "a schedule-dependent violation is replayed by re-executing the case up to 400 times under perturbation".into(),
        ]
    }
    fn explore(&self, cli: &Cli, st: &mut Stats) {
        let t0 = std::time::Instant::now();
        self.explore_native(cli, st);
        st.add("wall_ms_native_phase", t0.elapsed().as_millis() as u64);
        self.explore_deep(cli, st);
        if cli.tier == Tier::Thorough {
            let t1 = std::time::Instant::now();
            self.explore_sanitizers(cli, st);
            st.add("wall_ms_sanitizer_phase", t1.elapsed().as_millis() as u64);
        }
    }
    fn worker(&self, cli: &Cli, args: &[String]) -> i32 {
        match args.first().map(|s| s.as_str()) {
            Some("case") => worker_case_main(self, cli),
            _ => 2,
        }
    }
    fn replay(&self, cli: &Cli, case: &Json) -> Vec<Violation> {
        // a case with long condition chains may kill the process that runs it (stack overflow in a
        // worker thread): outside a case child it is judged in one
        let long_chain = case["rules"].as_array().map_or(false, |rs| rs.iter().any(|r| r["when"].to_string().len() > 2_000));
        if long_chain && !in_case_child() {
            return replay_via_child("C19", case, 60, Some(4 << 30));
        }
        let bad = |why: &str| vec![Violation { clause: "harness".into(), sig: "C19|harness|bad-case".into(), detail: why.into(), case: case.clone() }];
        if let Some(k @ ("miri" | "tsan")) = case["kind"].as_str() {
            let args: Vec<String> = case["args"].as_array().map(|a| a.iter().filter_map(|x| x.as_str().map(|s| s.to_string())).collect()).unwrap_or_default();
            let v = if k == "miri" {
                sanit::miri_run(&cli.root, "c19", "C19", &args, case["seeds"].as_u64().unwrap_or(48) as u32, None, 1500)
            } else {
                match sanit::tsan_build(&cli.root, 1200) {
                    Ok(dir) => sanit::tsan_run(&dir.join("c19"), "C19", &args, 1200),
                    Err(e) => sanit::SanVerdict::Inconclusive(e),
                }
            };
            let mut st = Stats::new();
            let c2 = case.clone();
            sanit::fold(&mut st, "C19", k, v, move |_, _, _| c2);
            for w in &st.inconclusive {
                out!("  replay inconclusive: {}", w);
            }
            return st.violations;
        }
        let Some(c) = CaseSpec::from_json(case) else {
            return bad("cannot decode case");
        };
        sched::install(cli.seed, PERTURB_US);
        let c2 = c.clone();
        // (deep cases fail on every run or not at all; the schedule-dependent ones get the full retry budget)
        let tries = if long_chain { 6 } else { REPLAY_TRIES };
        let r = dlwatch::call_watched(move || find_failure(&c2, tries, None));
        sched::uninstall();
        match r {
            Ok(Some((clause, cause, detail))) => vec![violation(&clause, &cause, &detail, case.clone())],
            Ok(None) => vec![],
            Err(dlwatch::WatchErr::Blocked(why)) => vec![violation("always-returns", "all-threads-blocked", &why, case.clone())],
            Err(dlwatch::WatchErr::Died) => bad("the replay thread died"),
        }
    }
}

fn main() {
    run_main(C19)
}
