//! C14 — stream inner join equals the reference join for every interleaving.
//!
//! The real `StreamJoinNode` (driven directly, or through `StreamJoinManager::process_event` /
//! `update_watermark`) receives one concrete arrival order of a left and a right event sequence,
//! optionally with watermark updates between arrivals. Every `JoinedEvent` it returns is tagged
//! with the unique ids the harness put on the events and compared with the reference join
//! computed from the statement: all (l, r) that have both arrived, carry equal join keys, lie no
//! further apart than the window and satisfy the join condition — each exactly once.
//!
//! Units: the node compares `timestamp` differences with `duration.as_secs()` and its own tests
//! use second-valued timestamps; the harness gives the window in whole seconds and the
//! timestamps in the same unit, so the verdict does not depend on the unit question.

use rre_verif::*;
use rust_rule_engine::rete::stream_join_node::{
    JoinStrategy, JoinType, JoinedEvent, StreamJoinNode,
};
use rust_rule_engine::streaming::event::{EventMetadata, StreamEvent};
use rust_rule_engine::streaming::join_manager::StreamJoinManager;
use rust_rule_engine::types::Value;
use std::collections::{BTreeMap, BTreeSet, HashMap};
use std::sync::{Arc, Mutex};
use std::time::Duration;

// ------------------------------------------------------------------------------------------
// the case
// ------------------------------------------------------------------------------------------

#[derive(Clone, Debug, PartialEq, Eq, Hash)]
struct Ev {
    /// join key (`None`: the event carries no key field)
    key: Option<u8>,
    ts: u64,
    v: i64,
}

#[derive(Clone, Copy, Debug, PartialEq, Eq, Hash)]
enum Step {
    /// arrival of left event #i / right event #i
    L(usize),
    R(usize),
    /// `update_watermark(w)`
    W(i64),
}

#[derive(Clone, Copy, Debug, PartialEq, Eq, Hash)]
enum Cond {
    True,
    /// `l.v <= r.v` (asymmetric on purpose: catches swapped arguments)
    VLe,
}

#[derive(Clone, Copy, Debug, PartialEq, Eq, Hash)]
enum Mode {
    Node,
    Manager,
    /// through a StreamJoinManager that also holds sibling joins sharing the left and/or right
    /// stream, registered and unregistered around and during the run (history number 0..=4)
    Siblings(u8),
}

#[derive(Clone, Debug, Hash)]
struct Case {
    /// window in whole seconds; timestamps are in the same unit
    w: u64,
    cond: Cond,
    mode: Mode,
    left: Vec<Ev>,
    right: Vec<Ev>,
    steps: Vec<Step>,
    /// a second arrival order of the same events (clause `interleaving-independent`)
    steps2: Option<Vec<Step>>,
    /// sub-second part of the window in milliseconds (the window is `w` s + this; timestamps are
    /// whole seconds, so it never changes which pairs are "no further apart than the window")
    w_frac_ms: u32,
    /// added to every timestamp (instants in the upper half of the u64 range); only used without
    /// watermark updates
    base: u64,
    /// event ids are per-entity ids reused across timestamps (`L0`, `L1`, `L0`, ...); the harness
    /// tells events apart by `metadata.sequence`
    reuse_ids: bool,
}

fn step_str(s: &Step) -> String {
    match s {
        Step::L(i) => format!("L{}", i),
        Step::R(i) => format!("R{}", i),
        Step::W(w) => format!("W{}", w),
    }
}

fn step_parse(s: &str) -> Option<Step> {
    let (h, t) = s.split_at(1.min(s.len()));
    match h {
        "L" => t.parse().ok().map(Step::L),
        "R" => t.parse().ok().map(Step::R),
        "W" => t.parse().ok().map(Step::W),
        _ => None,
    }
}

fn ev_json(e: &Ev) -> Json {
    json!({"key": e.key.map(|k| format!("k{}", k)), "ts": e.ts, "v": e.v})
}

fn ev_parse(j: &Json) -> Option<Ev> {
    let key = match &j["key"] {
        Json::Null => None,
        Json::String(s) => Some(s.strip_prefix('k')?.parse().ok()?),
        _ => return None,
    };
    Some(Ev { key, ts: j["ts"].as_u64()?, v: j["v"].as_i64()? })
}

impl Case {
    fn to_json(&self) -> Json {
        let mut j = json!({
            "window_s": self.w,
            "condition": match self.cond { Cond::True => "true", Cond::VLe => "l.v<=r.v" },
            "mode": match self.mode { Mode::Node => "node".to_string(), Mode::Manager => "manager".to_string(), Mode::Siblings(h) => format!("manager-with-siblings:{}", h) },
            "sibling_history": match self.mode { Mode::Siblings(h) => json!(SIBLING_HISTORIES[h as usize % SIBLING_HISTORIES.len()]), _ => Json::Null },
            "left": self.left.iter().map(ev_json).collect::<Vec<_>>(),
            "right": self.right.iter().map(ev_json).collect::<Vec<_>>(),
            "steps": self.steps.iter().map(step_str).collect::<Vec<_>>(),
            "event_ids_reused_across_timestamps": self.reuse_ids,
            "window_sub_second_part_ms": self.w_frac_ms,
            "timestamp_base": self.base.to_string(),
        });
        if let Some(s2) = &self.steps2 {
            j["steps2"] = json!(s2.iter().map(step_str).collect::<Vec<_>>());
        }
        j
    }
    fn from_json(j: &Json) -> Option<Case> {
        let steps = |v: &Json| -> Option<Vec<Step>> {
            v.as_array()?.iter().map(|s| step_parse(s.as_str()?)).collect()
        };
        Some(Case {
            w: j["window_s"].as_u64()?,
            cond: match j["condition"].as_str()? {
                "true" => Cond::True,
                "l.v<=r.v" => Cond::VLe,
                _ => return None,
            },
            mode: match j["mode"].as_str()? {
                "node" => Mode::Node,
                "manager" => Mode::Manager,
                m => Mode::Siblings(m.strip_prefix("manager-with-siblings:")?.parse().ok()?),
            },
            left: j["left"].as_array()?.iter().map(ev_parse).collect::<Option<_>>()?,
            right: j["right"].as_array()?.iter().map(ev_parse).collect::<Option<_>>()?,
            steps: steps(&j["steps"])?,
            steps2: match j.get("steps2") {
                Some(v) if !v.is_null() => Some(steps(v)?),
                _ => None,
            },
            reuse_ids: j.get("event_ids_reused_across_timestamps").and_then(|v| v.as_bool()).unwrap_or(false),
            w_frac_ms: j.get("window_sub_second_part_ms").and_then(|v| v.as_u64()).unwrap_or(0) as u32,
            base: j.get("timestamp_base").and_then(|v| v.as_str()).and_then(|s| s.parse().ok()).unwrap_or(0),
        })
    }
    /// every L(i)/R(i) refers to an existing event and occurs at most once
    fn well_formed(&self, steps: &[Step]) -> bool {
        let mut sl = BTreeSet::new();
        let mut sr = BTreeSet::new();
        steps.iter().all(|s| match s {
            Step::L(i) => *i < self.left.len() && sl.insert(*i),
            Step::R(i) => *i < self.right.len() && sr.insert(*i),
            Step::W(_) => true,
        })
    }
}

// ------------------------------------------------------------------------------------------
// driving the real code
// ------------------------------------------------------------------------------------------

fn key_of(e: &StreamEvent) -> Option<String> {
    match e.data.get("k") {
        Some(Value::String(s)) => Some(s.clone()),
        _ => None,
    }
}

fn v_of(e: &StreamEvent) -> i64 {
    match e.data.get("v") {
        Some(Value::Integer(i)) => *i,
        _ => 0,
    }
}

fn make_event(side: char, idx: usize, e: &Ev, reuse_ids: bool, base: u64) -> StreamEvent {
    let mut data = HashMap::new();
    if let Some(k) = e.key {
        data.insert("k".to_string(), Value::String(format!("k{}", k)));
    }
    data.insert("v".to_string(), Value::Integer(e.v));
    StreamEvent {
        id: if reuse_ids { format!("{}{}", side, idx % 2) } else { format!("{}{}", side, idx) },
        event_type: "T".to_string(),
        data,
        metadata: EventMetadata {
            timestamp: base.wrapping_add(e.ts),
            source: if side == 'L' { "left" } else { "right" }.to_string(),
            sequence: idx as u64,
            tags: HashMap::new(),
        },
    }
}

fn make_node(w: u64, frac_ms: u32, cond: Cond) -> StreamJoinNode {
    StreamJoinNode::new(
        "left".to_string(),
        "right".to_string(),
        JoinType::Inner,
        JoinStrategy::TimeWindow { duration: Duration::from_secs(w).saturating_add(Duration::from_millis(frac_ms as u64)) },
        Box::new(key_of),
        Box::new(key_of),
        match cond {
            Cond::True => Box::new(|_, _| true),
            Cond::VLe => Box::new(|l, r| v_of(l) <= v_of(r)),
        },
    )
}

/// what happens to the siblings of the join under test ("j" = left x right), in words
const SIBLING_HISTORIES: [&str; 8] = [
    "register sA(left x other), j; unregister sA before the first arrival",
    "register j, sB(other x right); unregister sB before the first arrival",
    "register sA(left x other), j, sB(other x right); unregister sA after the 1st step and sB after the 2nd",
    "register sC(left x right, its own sink), j; unregister sC after the 1st step",
    "register j, sA(left x other); unregister a join id that was never registered; sA stays",
    "register j, sD(right x other): the right stream is the left input of a chained join; sD stays",
    "register sE(other x left), j: the left stream is the right input of a chained join; sE stays",
    "register j, sF(right x left, crossed, its own sink); unregister sF after the 2nd step",
];

fn sibling_node(left: &str, right: &str, w: u64) -> StreamJoinNode {
    StreamJoinNode::new(
        left.to_string(),
        right.to_string(),
        JoinType::Inner,
        JoinStrategy::TimeWindow { duration: Duration::from_secs(w) },
        Box::new(key_of),
        Box::new(key_of),
        Box::new(|_, _| true),
    )
}

enum Driver {
    Node(Box<StreamJoinNode>),
    Manager(StreamJoinManager, Arc<Mutex<Vec<JoinedEvent>>>),
    /// manager, sink of "j", (unregister this id once that many steps are done), steps done
    Siblings(StreamJoinManager, Arc<Mutex<Vec<JoinedEvent>>>, Vec<(usize, &'static str)>, usize),
}

impl Driver {
    fn new(c: &Case) -> Driver {
        let node = make_node(c.w, c.w_frac_ms, c.cond);
        match c.mode {
            Mode::Node => Driver::Node(Box::new(node)),
            Mode::Manager => {
                let sink: Arc<Mutex<Vec<JoinedEvent>>> = Arc::new(Mutex::new(Vec::new()));
                let s2 = sink.clone();
                let mut m = StreamJoinManager::new();
                m.register_join(
                    "j".to_string(),
                    node,
                    Box::new(move |je| s2.lock().unwrap().push(je)),
                );
                Driver::Manager(m, sink)
            }
            Mode::Siblings(h) => {
                let sink: Arc<Mutex<Vec<JoinedEvent>>> = Arc::new(Mutex::new(Vec::new()));
                let mut m = StreamJoinManager::new();
                let reg = |m: &mut StreamJoinManager, id: &str, n: StreamJoinNode, sink: Option<Arc<Mutex<Vec<JoinedEvent>>>>| {
                    m.register_join(
                        id.to_string(),
                        n,
                        match sink {
                            Some(s) => Box::new(move |je| s.lock().unwrap().push(je)),
                            None => Box::new(|_| {}),
                        },
                    );
                };
                let mut later: Vec<(usize, &'static str)> = Vec::new();
                match h % SIBLING_HISTORIES.len() as u8 {
                    0 => {
                        reg(&mut m, "sA", sibling_node("left", "other", c.w), None);
                        reg(&mut m, "j", node, Some(sink.clone()));
                        m.unregister_join("sA");
                    }
                    1 => {
                        reg(&mut m, "j", node, Some(sink.clone()));
                        reg(&mut m, "sB", sibling_node("other", "right", c.w), None);
                        m.unregister_join("sB");
                    }
                    2 => {
                        reg(&mut m, "sA", sibling_node("left", "other", c.w), None);
                        reg(&mut m, "j", node, Some(sink.clone()));
                        reg(&mut m, "sB", sibling_node("other", "right", c.w), None);
                        later = vec![(1, "sA"), (2, "sB")];
                    }
                    3 => {
                        reg(&mut m, "sC", sibling_node("left", "right", c.w), None);
                        reg(&mut m, "j", node, Some(sink.clone()));
                        later = vec![(1, "sC")];
                    }
                    4 => {
                        reg(&mut m, "j", node, Some(sink.clone()));
                        reg(&mut m, "sA", sibling_node("left", "other", c.w), None);
                        m.unregister_join("never-registered");
                    }
                    5 => {
                        reg(&mut m, "j", node, Some(sink.clone()));
                        reg(&mut m, "sD", sibling_node("right", "other", c.w), None);
                    }
                    6 => {
                        reg(&mut m, "sE", sibling_node("other", "left", c.w), None);
                        reg(&mut m, "j", node, Some(sink.clone()));
                    }
                    _ => {
                        reg(&mut m, "j", node, Some(sink.clone()));
                        reg(&mut m, "sF", sibling_node("right", "left", c.w), None);
                        later = vec![(2, "sF")];
                    }
                }
                Driver::Siblings(m, sink, later, 0)
            }
        }
    }
    /// sibling joins leave the manager at their appointed step
    fn tick(&mut self) {
        if let Driver::Siblings(m, _, later, done) = self {
            for (at, id) in later.iter() {
                if *at == *done {
                    m.unregister_join(id);
                }
            }
            *done += 1;
        }
    }
    fn arrive(&mut self, left: bool, e: StreamEvent) -> Vec<JoinedEvent> {
        self.tick();
        match self {
            Driver::Node(n) => {
                if left {
                    n.process_left(e)
                } else {
                    n.process_right(e)
                }
            }
            Driver::Manager(m, sink) | Driver::Siblings(m, sink, _, _) => {
                // routed by `metadata.source`
                m.process_event(e);
                std::mem::take(&mut *sink.lock().unwrap())
            }
        }
    }
    fn watermark(&mut self, w: i64) -> Vec<JoinedEvent> {
        self.tick();
        match self {
            Driver::Node(n) => n.update_watermark(w),
            Driver::Manager(m, sink) | Driver::Siblings(m, sink, _, _) => {
                m.update_watermark("left", w);
                m.update_watermark("right", w);
                std::mem::take(&mut *sink.lock().unwrap())
            }
        }
    }
    fn buffered(&self) -> usize {
        match self {
            Driver::Node(n) => {
                let s = n.get_stats();
                s.left_buffer_size + s.right_buffer_size
            }
            Driver::Manager(m, _) | Driver::Siblings(m, _, _, _) => m
                .get_join_stats("j")
                .map(|s| s.left_buffer_size + s.right_buffer_size)
                .unwrap_or(0),
        }
    }
}

/// One `JoinedEvent` as observed, reduced to the harness's tags.
#[derive(Clone, Debug)]
struct Emit {
    l: Option<(String, u64)>,
    r: Option<(String, u64)>,
    step: usize,
}

#[derive(Default)]
struct Run {
    emits: Vec<Emit>,
    /// events that left the buffers at watermark updates (observed through get_stats)
    evicted: u64,
}

fn run_steps(c: &Case, steps: &[Step]) -> Run {
    let mut d = Driver::new(c);
    let mut run = Run::default();
    for (si, s) in steps.iter().enumerate() {
        let out = match s {
            Step::L(i) => d.arrive(true, make_event('L', *i, &c.left[*i], c.reuse_ids, c.base)),
            Step::R(i) => d.arrive(false, make_event('R', *i, &c.right[*i], c.reuse_ids, c.base)),
            Step::W(w) => {
                let before = d.buffered();
                let o = d.watermark(*w);
                let after = d.buffered();
                run.evicted += before.saturating_sub(after) as u64;
                o
            }
        };
        for je in out {
            run.emits.push(Emit {
                // identity = side letter of the id + the sequence number the harness stamped
                l: je.left.as_ref().map(|e| (format!("{}{}", e.id.chars().next().unwrap_or('?'), e.metadata.sequence), e.metadata.timestamp)),
                r: je.right.as_ref().map(|e| (format!("{}{}", e.id.chars().next().unwrap_or('?'), e.metadata.sequence), e.metadata.timestamp)),
                step: si,
            });
        }
    }
    run
}

// ------------------------------------------------------------------------------------------
// the oracle
// ------------------------------------------------------------------------------------------

#[derive(Clone, Debug, PartialEq)]
struct Disc {
    clause: String,
    cause: String,
    detail: String,
}

#[derive(Default, Clone)]
struct Info {
    reference_pairs: u64,
    emitted_pairs: u64,
    excused_missing: u64,
    emitted_at_watermark: u64,
    evicted: u64,
    /// same-key pairs the reference excludes because of window or condition
    excluded_same_key: u64,
    keyless_events: u64,
    wm_steps: u64,
    /// the set of (left, right) pairs emitted by `steps`
    emitted_set: BTreeSet<(usize, usize)>,
}

fn abs_diff(a: u64, b: u64) -> u64 {
    a.max(b) - a.min(b)
}

fn cond_true(c: Cond, l: &Ev, r: &Ev) -> bool {
    match c {
        Cond::True => true,
        Cond::VLe => l.v <= r.v,
    }
}

fn push_disc(out: &mut Vec<Disc>, clause: &str, cause: &str, detail: String) {
    if !out.iter().any(|d| d.clause == clause && d.cause == cause) {
        out.push(Disc { clause: clause.into(), cause: cause.into(), detail });
    }
}

fn parse_id(id: &str, side: char) -> Option<usize> {
    let rest = id.strip_prefix(side)?;
    rest.parse().ok()
}

/// Compare what one run emitted with the statement. Returns every distinct (clause, cause).
fn check_run(c: &Case, steps: &[Step], run: &Run) -> (Vec<Disc>, Info, BTreeSet<(usize, usize)>) {
    let mut out = Vec::new();
    let mut info = Info { evicted: run.evicted, ..Default::default() };
    let mut arr_l: Vec<Option<usize>> = vec![None; c.left.len()];
    let mut arr_r: Vec<Option<usize>> = vec![None; c.right.len()];
    for (si, s) in steps.iter().enumerate() {
        match s {
            Step::L(i) => arr_l[*i] = Some(si),
            Step::R(i) => arr_r[*i] = Some(si),
            Step::W(_) => info.wm_steps += 1,
        }
    }
    // reference join over the events that arrived
    let mut reference: BTreeSet<(usize, usize)> = BTreeSet::new();
    for (li, l) in c.left.iter().enumerate() {
        if arr_l[li].is_none() {
            continue;
        }
        if l.key.is_none() {
            info.keyless_events += 1;
        }
        for (ri, r) in c.right.iter().enumerate() {
            if arr_r[ri].is_none() {
                continue;
            }
            if l.key.is_some() && l.key == r.key {
                if abs_diff(l.ts, r.ts) <= c.w && cond_true(c.cond, l, r) {
                    reference.insert((li, ri));
                } else {
                    info.excluded_same_key += 1;
                }
            }
        }
    }
    for (ri, r) in c.right.iter().enumerate() {
        if arr_r[ri].is_some() && r.key.is_none() {
            info.keyless_events += 1;
        }
    }
    info.reference_pairs = reference.len() as u64;

    // what was emitted
    let mut seen: BTreeMap<(usize, usize), Vec<usize>> = BTreeMap::new();
    for e in &run.emits {
        let (Some((lid, lts)), Some((rid, rts))) = (&e.l, &e.r) else {
            push_disc(
                &mut out,
                "subset-of-reference",
                "half-open-result-in-inner-join",
                format!("step {} ({}) returned a JoinedEvent with left={:?} right={:?}", e.step, step_str(&steps[e.step]), e.l, e.r),
            );
            continue;
        };
        let (Some(li), Some(ri)) = (parse_id(lid, 'L'), parse_id(rid, 'R')) else {
            push_disc(
                &mut out,
                "subset-of-reference",
                "result-carries-wrong-event",
                format!("step {} returned (left id {:?}, right id {:?}): not a (left event, right event) pair", e.step, lid, rid),
            );
            continue;
        };
        if li >= c.left.len() || ri >= c.right.len() || c.base.wrapping_add(c.left[li].ts) != *lts || c.base.wrapping_add(c.right[ri].ts) != *rts {
            push_disc(
                &mut out,
                "subset-of-reference",
                "result-carries-wrong-event",
                format!("step {} returned ({}@{}, {}@{}) which does not match the offered events", e.step, lid, lts, rid, rts),
            );
            continue;
        }
        if matches!(steps[e.step], Step::W(_)) {
            info.emitted_at_watermark += 1;
        }
        let arrived = |a: Option<usize>| a.map_or(false, |s| s <= e.step);
        if !arrived(arr_l[li]) || !arrived(arr_r[ri]) {
            push_disc(
                &mut out,
                "subset-of-reference",
                "partner-not-arrived",
                format!("step {} returned ({}, {}) before both events had arrived", e.step, lid, rid),
            );
            continue;
        }
        seen.entry((li, ri)).or_default().push(e.step);
        if !reference.contains(&(li, ri)) {
            let (l, r) = (&c.left[li], &c.right[ri]);
            let cause = if l.key.is_none() || r.key.is_none() {
                "event-without-key"
            } else if l.key != r.key {
                "keys-differ"
            } else if abs_diff(l.ts, r.ts) > c.w {
                if abs_diff(l.ts, r.ts) == c.w.saturating_add(1) {
                    "outside-window:distance-equals-window-plus-one"
                } else {
                    "outside-window"
                }
            } else {
                "condition-false"
            };
            push_disc(
                &mut out,
                "subset-of-reference",
                cause,
                format!(
                    "step {} ({}) emitted ({}, {}) = ({:?}, {:?}) with window {} and condition {:?}: not a reference pair",
                    e.step, step_str(&steps[e.step]), lid, rid, l, r, c.w, c.cond
                ),
            );
        }
    }
    info.emitted_pairs = seen.values().map(|v| v.len() as u64).sum();
    for ((li, ri), at) in &seen {
        if at.len() > 1 {
            let by_wm = at.iter().any(|s| matches!(steps[*s], Step::W(_)));
            push_disc(
                &mut out,
                "each-pair-once",
                if by_wm { "re-emitted-at-watermark-update" } else { "emitted-twice-on-arrival" },
                format!("pair (L{}, R{}) was emitted {} times, at steps {:?}", li, ri, at.len(), at),
            );
        }
    }
    // completeness: a reference pair may be missing only if the side that arrived first was
    // eligible for eviction (watermark - ts > window) at a watermark update before its partner
    // arrived
    for &(li, ri) in &reference {
        if seen.contains_key(&(li, ri)) {
            continue;
        }
        let (sl, sr) = (arr_l[li].unwrap(), arr_r[ri].unwrap());
        let (first_at, second_at, first_ts, first_is_left) = if sl < sr {
            (sl, sr, c.left[li].ts, true)
        } else {
            (sr, sl, c.right[ri].ts, false)
        };
        let mut wm_between = Vec::new();
        for (si, s) in steps.iter().enumerate() {
            if si > first_at && si < second_at {
                if let Step::W(w) = s {
                    wm_between.push(*w);
                }
            }
        }
        let eligible = wm_between.iter().any(|w| (*w as i128) - (first_ts as i128) > c.w as i128);
        if eligible {
            info.excused_missing += 1;
            continue;
        }
        let cause = if !wm_between.is_empty() {
            if wm_between.iter().any(|w| (*w as i128) - (first_ts as i128) == c.w as i128) {
                "lost-after-watermark-update:lag-equals-window".to_string()
            } else {
                "lost-after-watermark-update:not-eligible-for-eviction".to_string()
            }
        } else if abs_diff(c.left[li].ts, c.right[ri].ts) == c.w {
            "no-eviction-possible:distance-equals-window".to_string()
        } else {
            format!(
                "no-eviction-possible:{}-arrived-second",
                if first_is_left { "right" } else { "left" }
            )
        };
        push_disc(
            &mut out,
            "complete-unless-evicted",
            &cause,
            format!(
                "reference pair (L{}, R{}) = ({:?}, {:?}), window {}, condition {:?}, was never emitted; first side arrived at step {}, partner at step {}, watermark updates in between {:?} (none makes the first side eligible for eviction)",
                li, ri, c.left[li], c.right[ri], c.w, c.cond, first_at, second_at, wm_between
            ),
        );
    }
    let set: BTreeSet<(usize, usize)> = seen.keys().copied().collect();
    info.emitted_set = set.clone();
    (out, info, set)
}

/// Run one concrete case under the monitor (used by explore and by replay).
fn run_case(c: &Case) -> (Vec<Disc>, Info) {
    if !c.well_formed(&c.steps) || c.steps2.as_ref().map_or(false, |s| !c.well_formed(s)) {
        return (
            vec![Disc { clause: "harness".into(), cause: "bad-case".into(), detail: "steps refer to missing or repeated events".into() }],
            Info::default(),
        );
    }
    if c.reuse_ids {
        // two events of one stream that share id AND timestamp cannot be told apart by anyone:
        // such a case is not judged
        let clash = |evs: &[Ev]| (0..evs.len()).any(|i| (0..i).any(|j| i % 2 == j % 2 && evs[i].ts == evs[j].ts));
        if clash(&c.left) || clash(&c.right) {
            return (vec![], Info::default());
        }
    }
    let run = run_steps(c, &c.steps);
    let (mut discs, info, set1) = check_run(c, &c.steps, &run);
    if let Some(s2) = &c.steps2 {
        let run2 = run_steps(c, s2);
        let (d2, _, set2) = check_run(c, s2, &run2);
        for d in d2 {
            push_disc(&mut discs, &d.clause, &d.cause, format!("[second order] {}", d.detail));
        }
        let no_wm = |s: &[Step]| !s.iter().any(|x| matches!(x, Step::W(_)));
        let arrivals = |s: &[Step]| -> BTreeSet<String> { s.iter().map(step_str).collect() };
        if no_wm(&c.steps) && no_wm(s2) && arrivals(&c.steps) == arrivals(s2) && set1 != set2 {
            push_disc(
                &mut discs,
                "interleaving-independent",
                "emitted-sets-differ-between-merges",
                format!(
                    "same events, no watermark update: order {:?} emitted {:?} but order {:?} emitted {:?}",
                    c.steps.iter().map(step_str).collect::<Vec<_>>(),
                    set1,
                    s2.iter().map(step_str).collect::<Vec<_>>(),
                    set2
                ),
            );
        }
    }
    (discs, info)
}

fn to_violation(c: &Case, d: &Disc) -> Violation {
    Violation {
        clause: d.clause.clone(),
        sig: format!("C14|{}|{}", d.clause, d.cause),
        detail: d.detail.clone(),
        case: c.to_json(),
    }
}

fn panic_violation(c: &Case, p: &pan::PanicInfo) -> Violation {
    Violation {
        clause: "no-panic".into(),
        sig: format!("C14|no-panic|{}|{}", p.class(), p.frame),
        detail: format!("panic: {} at {}:{}", p.msg, p.file, p.line),
        case: c.to_json(),
    }
}

/// Drop events that no step refers to and renumber.
fn compact(c: &Case) -> Case {
    let mut used_l = BTreeSet::new();
    let mut used_r = BTreeSet::new();
    for s in c.steps.iter().chain(c.steps2.iter().flatten()) {
        match s {
            Step::L(i) => {
                used_l.insert(*i);
            }
            Step::R(i) => {
                used_r.insert(*i);
            }
            _ => {}
        }
    }
    let ml: BTreeMap<usize, usize> = used_l.iter().enumerate().map(|(n, o)| (*o, n)).collect();
    let mr: BTreeMap<usize, usize> = used_r.iter().enumerate().map(|(n, o)| (*o, n)).collect();
    let map = |s: &Step| match s {
        Step::L(i) => Step::L(ml[i]),
        Step::R(i) => Step::R(mr[i]),
        Step::W(w) => Step::W(*w),
    };
    Case {
        left: used_l.iter().map(|i| c.left[*i].clone()).collect(),
        right: used_r.iter().map(|i| c.right[*i].clone()).collect(),
        steps: c.steps.iter().map(map).collect(),
        steps2: c.steps2.as_ref().map(|s| s.iter().map(map).collect()),
        ..c.clone()
    }
}

/// Shrink the step list while the same CLAUSE keeps failing, then compute the cause predicate
/// on the shrunk case and report (so a watermark update survives only if the failure needs it).
fn report(c: &Case, d: &Disc, st: &mut Stats) {
    let same = |cc: &Case| -> bool {
        matches!(pan::catch(|| run_case(cc)), Ok((ds, _)) if ds.iter().any(|x| x.clause == d.clause))
    };
    let mut cur = c.clone();
    if cur.steps2.is_none() {
        let mut fails = |steps: &[Step]| same(&Case { steps: steps.to_vec(), ..c.clone() });
        cur.steps = shrink_list(&c.steps, &mut fails);
    }
    let mut cur = compact(&cur);
    // value shrinking: strip every feature the failure does not need, so that the cause
    // predicates computed below (e.g. distance-equals-window) are not incidental
    let simplifications: [fn(&mut Case); 6] = [
        |c| {
            let t0 = c.left.iter().chain(c.right.iter()).map(|e| e.ts).min().unwrap_or(0);
            c.left.iter_mut().chain(c.right.iter_mut()).for_each(|e| e.ts = t0);
        },
        |c| c.w = 5,
        |c| c.cond = Cond::True,
        |c| c.left.iter_mut().chain(c.right.iter_mut()).for_each(|e| e.v = 0),
        |c| c.mode = Mode::Node,
        |c| {
            c.left.iter_mut().chain(c.right.iter_mut()).for_each(|e| {
                if e.key.is_some() {
                    e.key = Some(0)
                }
            })
        },
    ];
    for f in simplifications {
        let mut b = cur.clone();
        f(&mut b);
        if same(&b) {
            cur = b;
        }
    }
    match pan::catch(|| run_case(&cur)) {
        Ok((ds, _)) => {
            if let Some(x) = ds.iter().find(|x| x.clause == d.clause) {
                st.violation(to_violation(&cur, x));
            } else {
                st.violation(to_violation(c, d));
            }
        }
        Err(_) => st.violation(to_violation(c, d)),
    }
}

/// how many witnesses per clause one shard shrinks before it only counts repeats
const SHRINK_PER_CLAUSE: u64 = 8;

fn report_all(c: &Case, discs: &[Disc], st: &mut Stats) {
    let mut done: Vec<&str> = Vec::new();
    for d in discs {
        if done.contains(&d.clause.as_str()) {
            continue;
        }
        done.push(&d.clause);
        let key = format!("discrepancies::C14|{}", d.clause);
        st.count(&key);
        if st.get(&key) > SHRINK_PER_CLAUSE {
            continue;
        }
        report(c, d, st);
    }
}

/// Execute + check one case inside explore. Returns the set of pairs emitted by `steps`.
fn check_case(c: &Case, st: &mut Stats) -> Option<BTreeSet<(usize, usize)>> {
    st.eval();
    match pan::catch_frames(|| run_case(c)) {
        Ok((discs, info)) => {
            st.add("reference_pairs", info.reference_pairs);
            st.add("pairs_emitted", info.emitted_pairs);
            st.add("pairs_emitted_by_update_watermark", info.emitted_at_watermark);
            st.add("missing_pairs_excused_by_eviction_eligibility", info.excused_missing);
            st.add("events_evicted_at_watermark_updates(observed via get_stats)", info.evicted);
            st.add("update_watermark_calls", info.wm_steps);
            if info.wm_steps == 0 {
                st.count("runs_without_watermark_update");
            } else {
                st.count("runs_with_watermark_updates");
            }
            if c.mode == Mode::Manager {
                st.count("runs_through_StreamJoinManager");
            }
            if matches!(c.mode, Mode::Siblings(_)) {
                st.count("runs_through_StreamJoinManager_with_sibling_joins_registered_and_unregistered");
            }
            report_all(c, &discs, st);
            Some(info.emitted_set)
        }
        Err(p) => {
            st.violation(panic_violation(c, &p));
            None
        }
    }
}

// ------------------------------------------------------------------------------------------
// workload
// ------------------------------------------------------------------------------------------

/// All merges of `nl` left and `nr` right arrivals that keep each side's own order.
fn merges(nl: usize, nr: usize) -> Vec<Vec<Step>> {
    let n = nl + nr;
    let mut out = Vec::new();
    for mask in 0u32..(1u32 << n) {
        if mask.count_ones() as usize != nl {
            continue;
        }
        let (mut l, mut r) = (0, 0);
        let mut steps = Vec::with_capacity(n);
        for b in 0..n {
            if mask >> b & 1 == 1 {
                steps.push(Step::L(l));
                l += 1;
            } else {
                steps.push(Step::R(r));
                r += 1;
            }
        }
        out.push(steps);
    }
    out
}

#[derive(Clone, Copy)]
enum WmPlan {
    /// after every arrival: update_watermark(max timestamp seen - lag)
    Track(i64),
    /// k updates at random gaps with random non-decreasing values in 0..=hi
    Random(usize, i64),
}

fn with_watermarks(c: &Case, arrivals: &[Step], plan: WmPlan, rng: &mut Rng) -> Vec<Step> {
    let ts_of = |s: &Step| match s {
        Step::L(i) => c.left[*i].ts as i64,
        Step::R(i) => c.right[*i].ts as i64,
        Step::W(w) => *w,
    };
    let mut out = Vec::new();
    match plan {
        WmPlan::Track(lag) => {
            let mut mx = i64::MIN;
            for s in arrivals {
                out.push(*s);
                mx = mx.max(ts_of(s));
                out.push(Step::W((mx - lag).max(0)));
            }
        }
        WmPlan::Random(k, hi) => {
            let mut vals: Vec<i64> = (0..k).map(|_| rng.range(0, hi)).collect();
            vals.sort();
            let mut gaps: Vec<usize> = (0..k).map(|_| rng.below(arrivals.len() + 1)).collect();
            gaps.sort();
            let mut gi = 0;
            for (i, s) in arrivals.iter().enumerate() {
                while gi < k && gaps[gi] == i {
                    out.push(Step::W(vals[gi]));
                    gi += 1;
                }
                out.push(*s);
            }
            while gi < k {
                out.push(Step::W(vals[gi]));
                gi += 1;
            }
        }
    }
    out
}

fn pair_is_nontrivial(c: &Case) -> bool {
    let mut ref_pairs = 0;
    let mut excluded = 0;
    for l in &c.left {
        for r in &c.right {
            if l.key.is_some() && l.key == r.key {
                if abs_diff(l.ts, r.ts) <= c.w && cond_true(c.cond, l, r) {
                    ref_pairs += 1;
                } else {
                    excluded += 1;
                }
            }
        }
    }
    let keyless = c.left.iter().chain(c.right.iter()).any(|e| e.key.is_none());
    ref_pairs > 0 && (excluded > 0 || keyless)
}

/// All merges of one pair of sequences: without watermark updates (exact equality + direct
/// cross-merge comparison) and with the given number of watermark variants per merge.
fn explore_pair(base: &Case, rng: &mut Rng, st: &mut Stats, wm_variants: usize) {
    explore_pair_with(base, rng, st, wm_variants, None)
}

/// A LONG pair (20..=150 events a side, timestamps 0..=60): buffers, matched-sets and the emitted
/// list far beyond the handful of entries of the enumerated pairs. All merges cannot be run;
/// `k` random merges (plus "all left first" and "all right first") are.
fn explore_long_pair(rng: &mut Rng, st: &mut Stats, wm_variants: usize) {
    let nl = 20 + rng.below(131);
    let nr = 20 + rng.below(131);
    let nkeys = 1 + rng.below(4);
    let ts_dom = *rng.pick(&[20usize, 60, 60]);
    let vdom = 1 + rng.below(3) as i64;
    let ev = |rng: &mut Rng| Ev {
        key: if rng.chance(1, 10) { None } else { Some(rng.below(nkeys) as u8) },
        ts: rng.below(ts_dom + 1) as u64,
        v: rng.range(0, vdom),
    };
    let left: Vec<Ev> = (0..nl).map(|_| ev(rng)).collect();
    let right: Vec<Ev> = (0..nr).map(|_| ev(rng)).collect();
    let base = Case {
        w: *rng.pick(&[0u64, 1, 2, 5, 20]),
        cond: if rng.bool() { Cond::True } else { Cond::VLe },
        mode: if rng.chance(1, 4) { Mode::Manager } else { Mode::Node },
        left,
        right,
        steps: vec![],
        steps2: None,
        reuse_ids: false,
        w_frac_ms: 0,
        base: 0,
    };
    let mut ms: Vec<Vec<Step>> = Vec::new();
    ms.push((0..nl).map(Step::L).chain((0..nr).map(Step::R)).collect());
    ms.push((0..nr).map(Step::R).chain((0..nl).map(Step::L)).collect());
    for _ in 0..3 {
        let (mut l, mut r) = (0usize, 0usize);
        let mut m = Vec::with_capacity(nl + nr);
        while l < nl || r < nr {
            let take_l = r >= nr || (l < nl && rng.below(nl + nr - l - r) < nl - l);
            if take_l {
                m.push(Step::L(l));
                l += 1;
            } else {
                m.push(Step::R(r));
                r += 1;
            }
        }
        ms.push(m);
    }
    st.count("long_pairs(20..=150 events a side, 5 merges each)");
    st.max("max::events_in_one_pair", (nl + nr) as u64);
    explore_pair_with(&base, rng, st, wm_variants, Some(ms));
}

fn explore_pair_with(base: &Case, rng: &mut Rng, st: &mut Stats, wm_variants: usize, ms_given: Option<Vec<Vec<Step>>>) {
    st.count("pairs_of_sequences");
    if pair_is_nontrivial(base) {
        st.nontrivial(hash_of(&(base.w, base.cond, &base.left, &base.right)));
    }
    let long = ms_given.is_some();
    let ms = ms_given.unwrap_or_else(|| merges(base.left.len(), base.right.len()));
    if pair_is_nontrivial(base) && !long {
        st.sample(|| {
            let mut j = base.to_json();
            j["steps"] = json!(format!("all {} merges of the two arrival orders, each without and with watermark updates", ms.len()));
            j
        });
    }
    if !long {
        st.max("max::merges_of_one_pair", ms.len() as u64);
    }
    let ts_hi = base.left.iter().chain(base.right.iter()).map(|e| e.ts).max().unwrap_or(0) as i64;
    let mut first: Option<(Vec<Step>, BTreeSet<(usize, usize)>)> = None;
    for m in &ms {
        let c = Case { steps: m.clone(), steps2: None, ..base.clone() };
        let got = check_case(&c, st);
        st.count("merges_run_without_watermark");
        // direct comparison between merges (independent of the reference computation)
        if let Some(set) = got {
            match &first {
                None => first = Some((m.clone(), set)),
                Some((m0, s0)) => {
                    st.count("cross_merge_set_comparisons");
                    if *s0 != set {
                        let cc = Case { steps: m0.clone(), steps2: Some(m.clone()), ..base.clone() };
                        if let Ok((ds, _)) = pan::catch(|| run_case(&cc)) {
                            let ds: Vec<Disc> = ds.into_iter().filter(|d| d.clause == "interleaving-independent").collect();
                            report_all(&cc, &ds, st);
                        }
                    }
                }
            }
        }
        // (watermarks are i64 in the API: with instants in the upper half of u64 their meaning is not stated)
        for v in 0..(if base.base != 0 { 0 } else { wm_variants }) {
            let plan = match v {
                0 => WmPlan::Track(*rng.pick(&[0i64, 0, 1, 2])),
                _ => WmPlan::Random(1 + rng.below(3), ts_hi + (base.w.min(50) as i64) + 2),
            };
            let steps = with_watermarks(base, m, plan, rng);
            check_case(&Case { steps, steps2: None, ..base.clone() }, st);
        }
    }
}

fn random_pair(rng: &mut Rng) -> Case {
    let nl = *rng.pick(&[0usize, 1, 2, 3, 3, 4, 4, 4]);
    let nr = *rng.pick(&[0usize, 1, 2, 3, 3, 4, 4, 4]);
    let nkeys = 1 + rng.below(3);
    let ts_dom = *rng.pick(&[3u64, 6, 6, 6]);
    let vdom = 1 + rng.below(3) as i64;
    let ev = |rng: &mut Rng| Ev {
        key: if rng.chance(1, 6) { None } else { Some(rng.below(nkeys) as u8) },
        ts: rng.below(ts_dom as usize + 1) as u64,
        v: rng.range(0, vdom),
    };
    let left: Vec<Ev> = (0..nl).map(|_| ev(rng)).collect();
    let right: Vec<Ev> = (0..nr).map(|_| ev(rng)).collect();
    Case {
        // (one pair in 30: an "unbounded" window, a duration at the top of the u64 / i64 second range)
        w: if rng.chance(1, 30) { *rng.pick(&[u64::MAX, 1u64 << 63, i64::MAX as u64]) } else { *rng.pick(&[0u64, 1, 2, 5]) },
        cond: if rng.bool() { Cond::True } else { Cond::VLe },
        mode: match rng.below(8) {
            0 | 1 => Mode::Manager,
            2 => Mode::Siblings(rng.below(SIBLING_HISTORIES.len()) as u8),
            _ => Mode::Node,
        },
        left,
        right,
        steps: vec![],
        steps2: None,
        reuse_ids: rng.chance(1, 5),
        w_frac_ms: if rng.chance(1, 6) { *rng.pick(&[1u32, 250, 500, 999]) } else { 0 },
        base: if rng.chance(1, 20) { *rng.pick(&[(1u64 << 63) - 3, 1u64 << 63, (1u64 << 63) + 123_456, u64::MAX - 50]) } else { 0 },
    }
}

// ------------------------------------------------------------------------------------------
// Two producer threads on one StreamJoinManager (process_event takes &self): without watermark
// updates every serialisation of the two arrival orders has the same reference result, so the
// pairs handed to the result handler must be exactly the reference pairs, each once.

#[derive(Clone, Debug)]
struct ConcCase {
    w: u64,
    cond: Cond,
    left: Vec<Ev>,
    right: Vec<Ev>,
    /// the result handler busy-waits this long (it runs inside the join)
    handler_spin_us: u64,
}

impl ConcCase {
    fn to_json(&self) -> Json {
        json!({"kind": "concurrent-manager", "window_s": self.w, "cond": format!("{:?}", self.cond), "handler_spin_us": self.handler_spin_us,
               "left": self.left.iter().map(ev_json).collect::<Vec<_>>(), "right": self.right.iter().map(ev_json).collect::<Vec<_>>()})
    }
    fn from_json(j: &Json) -> Option<ConcCase> {
        Some(ConcCase {
            w: j["window_s"].as_u64()?,
            cond: if j["cond"].as_str()? == "True" { Cond::True } else { Cond::VLe },
            handler_spin_us: j["handler_spin_us"].as_u64()?,
            left: j["left"].as_array()?.iter().map(ev_parse).collect::<Option<Vec<_>>>()?,
            right: j["right"].as_array()?.iter().map(ev_parse).collect::<Option<Vec<_>>>()?,
        })
    }
}

fn gen_conc_case(rng: &mut Rng) -> ConcCase {
    let nl = 40 + rng.below(260);
    let nr = 40 + rng.below(260);
    let nkeys = 2 + rng.below(30);
    let ts_dom = *rng.pick(&[20usize, 60, 200]);
    let ev = |rng: &mut Rng| Ev { key: if rng.chance(1, 12) { None } else { Some(rng.below(nkeys) as u8) }, ts: rng.below(ts_dom + 1) as u64, v: rng.range(0, 2) };
    ConcCase {
        w: *rng.pick(&[0u64, 1, 2, 5, 20]),
        cond: if rng.bool() { Cond::True } else { Cond::VLe },
        left: (0..nl).map(|_| ev(rng)).collect(),
        right: (0..nr).map(|_| ev(rng)).collect(),
        handler_spin_us: *rng.pick(&[0u64, 5, 20, 60]),
    }
}

/// (emitted pairs as (left index, right index) in handler order, panicked)
fn run_conc(c: &ConcCase) -> Result<Vec<(usize, usize)>, String> {
    let sink: Arc<Mutex<Vec<(usize, usize)>>> = Arc::new(Mutex::new(Vec::new()));
    let s2 = sink.clone();
    let spin = c.handler_spin_us;
    let mut m = StreamJoinManager::new();
    m.register_join(
        "j".to_string(),
        make_node(c.w, 0, c.cond),
        Box::new(move |je| {
            let idx = |e: &Option<StreamEvent>| e.as_ref().and_then(|e| e.id[1..].parse::<usize>().ok()).unwrap_or(usize::MAX);
            s2.lock().unwrap().push((idx(&je.left), idx(&je.right)));
            if spin > 0 {
                let t = std::time::Instant::now();
                while (t.elapsed().as_micros() as u64) < spin {
                    std::hint::spin_loop();
                }
            }
        }),
    );
    let m = Arc::new(m);
    let go = Arc::new(std::sync::Barrier::new(2));
    let res: Vec<Result<(), String>> = std::thread::scope(|sc| {
        let hs: Vec<_> = [('L', &c.left), ('R', &c.right)]
            .into_iter()
            .map(|(side, evs)| {
                let m = m.clone();
                let go = go.clone();
                sc.spawn(move || {
                    go.wait();
                    for (i, e) in evs.iter().enumerate() {
                        let ev = make_event(side, i, e, false, 0);
                        if let Err(p) = pan::catch(|| m.process_event(ev)) {
                            return Err(p.msg);
                        }
                        if i % 5 == 0 {
                            std::thread::yield_now();
                        }
                    }
                    Ok(())
                })
            })
            .collect();
        hs.into_iter().map(|h| h.join().unwrap_or_else(|_| Err("producer thread died".into()))).collect()
    });
    for r in res {
        r?;
    }
    let v = sink.lock().unwrap().clone();
    Ok(v)
}

fn judge_conc(c: &ConcCase, got: &[(usize, usize)]) -> Option<(String, String)> {
    let mut want: BTreeSet<(usize, usize)> = BTreeSet::new();
    for (i, l) in c.left.iter().enumerate() {
        for (j, r) in c.right.iter().enumerate() {
            if l.key.is_some() && l.key == r.key && abs_diff(l.ts, r.ts) <= c.w && cond_true(c.cond, l, r) {
                want.insert((i, j));
            }
        }
    }
    let gs: BTreeSet<(usize, usize)> = got.iter().copied().collect();
    if gs.len() != got.len() {
        let mut seen = BTreeSet::new();
        let dup = got.iter().find(|p| !seen.insert(**p)).unwrap();
        return Some(("a-pair-emitted-twice".into(), format!("pair (L{}, R{}) reached the result handler twice", dup.0, dup.1)));
    }
    if let Some(p) = gs.difference(&want).next() {
        return Some(("a-pair-outside-the-reference".into(), format!("pair (L{}, R{}) was emitted and is not a reference pair", p.0, p.1)));
    }
    let missing: Vec<&(usize, usize)> = want.difference(&gs).collect();
    if let Some(p) = missing.first() {
        return Some((
            "reference-pairs-missing-without-any-watermark-update".into(),
            format!("{} of {} reference pairs never reached the result handler (first: L{}, R{}); no watermark was advanced, so nothing can have been evicted", missing.len(), want.len(), p.0, p.1),
        ));
    }
    None
}

fn check_conc(c: &ConcCase, st: &mut Stats) {
    st.eval();
    st.count("concurrent_manager::runs(one producer thread per stream, 40..=300 events a side)");
    match run_conc(c) {
        Err(msg) => st.violation(Violation { clause: "no-panic".into(), sig: "C14|no-panic|concurrent-manager".into(), detail: format!("process_event panicked in a producer thread: {}", msg), case: c.to_json() }),
        Ok(got) => {
            st.add("concurrent_manager::pairs_emitted", got.len() as u64);
            // how interleaved was the run? count switches of "which side completed the pair"
            if got.len() > 1 {
                st.nontrivial(hash_of(&c.to_json().to_string()));
            }
            if let Some((cause, detail)) = judge_conc(c, &got) {
                st.violation(Violation {
                    clause: "concurrent-producers".into(),
                    sig: format!("C14|concurrent-producers|{}", cause),
                    detail: format!("StreamJoinManager fed by two threads ({} left, {} right events, window {} s): {}", c.left.len(), c.right.len(), c.w, detail),
                    case: c.to_json(),
                });
            }
        }
    }
}

/// Every sequence of length 0..=max_len over `kinds`.
fn all_seqs(kinds: &[Ev], max_len: usize) -> Vec<Vec<Ev>> {
    let mut out: Vec<Vec<Ev>> = vec![vec![]];
    let mut frontier: Vec<Vec<Ev>> = vec![vec![]];
    for _ in 0..max_len {
        let mut next = Vec::new();
        for s in &frontier {
            for k in kinds {
                let mut t = s.clone();
                t.push(k.clone());
                next.push(t);
            }
        }
        out.extend(next.iter().cloned());
        frontier = next;
    }
    out
}

struct C14;

impl Check for C14 {
    fn id(&self) -> &'static str {
        "C14"
    }
    fn rule(&self) -> String {
        "A 'pair' is (left sequence, right sequence, window w in whole seconds, join condition, driver = StreamJoinNode directly, through StreamJoinManager, or (1/8 of the random pairs) through a StreamJoinManager that also holds sibling joins sharing the left and/or right stream which are unregistered before or during the run, 5 such histories). For EVERY pair ALL merges of the two arrival orders are run (C(n+m,n), 70 for 4+4): once without watermark updates (emitted multiset must equal the reference join exactly; emitted sets are also compared directly between merges) and with watermark updates between arrivals (no duplicates, subset of the reference, a missing pair only if its first-arrived side was eligible for eviction at an update before the partner arrived). EXHAUSTIVE part: every pair of sequences of <=2+2 events over the stated small event domain x w in {0,1,2} x both conditions x all merges x {no watermark update; ONE update at every gap with every value 0..=ts_max+w+1}. RANDOM part: sequences of 0..=4 + 0..=4 events, 1..=3 keys, 1/6 of the events without key, in 1/5 of the pairs event ids are per-entity ids reused across timestamps, in 1/6 the window has a sub-second part (1..999 ms on top of the whole seconds; timestamps are whole seconds), in 1/20 every timestamp is shifted into the upper half of the u64 range (those pairs run without watermark updates), timestamps 0..=6 (or 0..=3), w in {0,1,2,5} (one pair in 30: u64::MAX, 2^63 or i64::MAX seconds, an unbounded window), condition true or l.v<=r.v; watermark variants per merge: 'track' (after every arrival update_watermark(max ts seen - lag), lag in {0,1,2}) and 1..=3 random non-decreasing updates at random gaps. A pair is non-trivial when its reference join is non-empty AND (some same-key pair is excluded by window/condition OR some event has no key); distinct by (w, condition, both sequences).".into()
    }
    fn assumptions(&self) -> Vec<String> {
        vec![
            "window and timestamps are given in the same unit (whole seconds, Duration::from_secs), following the node's own `duration.as_secs()` convention and its tests; the millisecond wording of StreamEvent is not used".into(),
            "every event carries a unique id (the node's matched-flags are keyed by id and timestamp)".into(),
            "'eligible for eviction' = watermark - ts > window at a watermark update after the event arrived and before its partner arrived; which eligible events are actually evicted is not prescribed (observed evictions are only counted)".into(),
            "in manager mode one watermark step calls update_watermark for the left and for the right stream with the same value".into(),
        ]
    }

    fn explore(&self, cli: &Cli, st: &mut Stats) {
        let nthreads = cli.threads;
        // ---------------- exhaustive small scope ----------------
        let thorough = cli.tier == Tier::Thorough;
        let ts_max: u64 = if thorough { 3 } else { 2 };
        let mut jobs: Vec<(Cond, u64, Vec<Ev>, usize)> = Vec::new(); // (cond, w, kinds, max_len)
        for cond in [Cond::True, Cond::VLe] {
            let mut kinds = Vec::new();
            let keys: Vec<Option<u8>> = match (cond, thorough) {
                (Cond::VLe, false) => vec![None, Some(0)],
                _ => vec![None, Some(0), Some(1)],
            };
            for k in &keys {
                for ts in 0..=ts_max {
                    for v in 0..=(if cond == Cond::VLe { 1 } else { 0 }) {
                        kinds.push(Ev { key: *k, ts, v });
                    }
                }
            }
            for w in [0u64, 1, 2] {
                jobs.push((cond, w, kinds.clone(), 2));
            }
        }
        for (cond, w, kinds, max_len) in &jobs {
            let seqs = all_seqs(kinds, *max_len);
            let seqs = &seqs;
            shards(cli, nthreads, st, |shard, _rng, st| {
                for (li, left) in seqs.iter().enumerate() {
                    if li % nthreads != shard {
                        continue;
                    }
                    if cli.expired() {
                        st.count("exhaustive_part_stopped_by_time_budget");
                        break;
                    }
                    for right in seqs.iter() {
                        let base = Case {
                            w: *w,
                            cond: *cond,
                            mode: Mode::Node,
                            left: left.clone(),
                            right: right.clone(),
                            steps: vec![],
                            steps2: None,
                            reuse_ids: false,
                            w_frac_ms: 0,
                            base: 0,
                        };
                        st.count("pairs_of_sequences");
                        st.count("pairs_of_sequences_exhaustive");
                        if pair_is_nontrivial(&base) {
                            st.nontrivial(hash_of(&(base.w, base.cond, &base.left, &base.right)));
                        }
                        let hi = ts_max as i64 + *w as i64 + 1;
                        for m in merges(left.len(), right.len()) {
                            check_case(&Case { steps: m.clone(), ..base.clone() }, st);
                            st.count("merges_run_without_watermark");
                            if m.is_empty() {
                                continue;
                            }
                            for gap in 0..=m.len() {
                                for wv in 0..=hi {
                                    let mut steps = m.clone();
                                    steps.insert(gap, Step::W(wv));
                                    check_case(&Case { steps, ..base.clone() }, st);
                                }
                            }
                        }
                    }
                }
            });
            if st.get("exhaustive_part_stopped_by_time_budget") > 0 {
                st.notes.push(format!("exhaustive sub-space (condition {:?}, window {}) was cut short by the soft time budget and is NOT claimed as exhaustive", cond, w));
                continue;
            }
            st.exhaustive.push(format!(
                "condition {:?}, window {}: all pairs of sequences of <=2+2 events over {} event kinds (keys {:?} x ts 0..={} x v) = {} pairs x all merges x (no watermark update + one update at every gap with every value 0..={})",
                cond,
                w,
                kinds.len(),
                kinds.iter().map(|k| k.key).collect::<BTreeSet<_>>(),
                ts_max,
                seqs.len() * seqs.len(),
                ts_max + w + 1
            ));
        }

        // ---------------- random pairs x all merges ----------------
        let total = cli.n(120_000, 2_400_000);
        let per = (total as usize).div_ceil(nthreads);
        let wm_variants = 2;
        shards(cli, nthreads, st, |_shard, rng, st| {
            for _ in 0..per {
                if cli.expired() {
                    st.count("stopped_by_time_budget");
                    break;
                }
                let base = random_pair(rng);
                explore_pair(&base, rng, st, wm_variants);
            }
            for _ in 0..(per / 400).max(4) {
                if cli.expired() {
                    break;
                }
                explore_long_pair(rng, st, 1);
            }
        });
        // ---------------- two producer threads on one manager ----------------
        let conc = cli.n(12, 300) as usize;
        shards(cli, (nthreads / 2).max(1), st, |_shard, rng, st| {
            for _ in 0..conc {
                if cli.expired() {
                    break;
                }
                let c = gen_conc_case(rng);
                check_conc(&c, st);
            }
        });
        if st.get("runs_with_watermark_updates") == 0 || st.get("runs_without_watermark_update") == 0 {
            st.inconclusive("one of the two run kinds (with / without watermark updates) was never executed");
        }
        if st.get("pairs_emitted") == 0 {
            st.inconclusive("the join never emitted a pair");
        }
        if st.get("missing_pairs_excused_by_eviction_eligibility") == 0 {
            st.inconclusive("no run ever lost a pair to eviction: the watermark clause was not exercised");
        }
    }

    fn replay(&self, _cli: &Cli, case: &Json) -> Vec<Violation> {
        if case["kind"].as_str() == Some("concurrent-manager") {
            let Some(c) = ConcCase::from_json(case) else {
                return vec![Violation { clause: "harness".into(), sig: "C14|harness|bad-case".into(), detail: "cannot decode case".into(), case: case.clone() }];
            };
            // schedule-dependent: re-execute
            for _ in 0..40 {
                let mut st = Stats::new();
                check_conc(&c, &mut st);
                if !st.violations.is_empty() {
                    return st.violations;
                }
            }
            return vec![];
        }
        let Some(c) = Case::from_json(case) else {
            return vec![Violation {
                clause: "harness".into(),
                sig: "C14|harness|bad-case".into(),
                detail: "cannot decode case".into(),
                case: case.clone(),
            }];
        };
        match pan::catch_frames(|| run_case(&c)) {
            Ok((ds, _)) => ds.iter().map(|d| to_violation(&c, d)).collect(),
            Err(p) => vec![panic_violation(&c, &p)],
        }
    }
}

fn main() {
    run_main(C14)
}
