//! C06 — the incremental RETE engine fires a rule exactly for live facts that satisfy it; the
//! working-memory views agree; handles are never reused.
//!
//! Rules are generated as GRL text in the well-typed core, parsed by the real parser, converted
//! by the real loader (hook `verif_convert_rule`) and their action closures are wrapped by a
//! recorder that sees exactly what the engine hands to actions. The oracle is the generator's
//! own condition AST under a three-valued reference evaluator plus a shadow working memory.

use rre_verif::*;

#[path = "../rete_common.rs"]
mod rete_common;
use rete_common::*;

const ID: &str = "C06";

fn sig(v: &Viol) -> String {
    // no "::" in signatures: KNOWN_FINDINGS.txt lines are split at the first "::"
    format!("{}|{}|{}", ID, v.clause, v.cause).replace("::", ".")
}

fn to_violation(c: &HistCase, v: &Viol) -> Violation {
    Violation { clause: v.clause.clone(), sig: sig(v), detail: v.detail.clone(), case: c.to_json() }
}

// ------------------------------------------------------------------------------------------
// generators
// ------------------------------------------------------------------------------------------

// ---- exhaustive family: one type, one field, two rules, alphabet of 12 operations

fn person(age: i64) -> Fields {
    let mut f = Fields::new();
    f.insert("age".into(), Val::I(age));
    f
}

fn exhaustive_programs() -> Vec<(&'static str, Vec<RuleSpec>)> {
    let gt5 = Cond::Leaf { field: "age".into(), op: Op::Gt, lit: Val::I(5) };
    let le5 = Cond::Not(Box::new(gt5.clone()));
    vec![
        (
            "P1: two Log-only no-loop rules (`Person.age > 5` salience 10, `!(Person.age > 5)` salience 5)",
            vec![
                RuleSpec { name: "Hi".into(), ty: "Person".into(), salience: 10, no_loop: true, cond: gt5.clone(), acts: vec![Act::Log], layout: 0 },
                RuleSpec { name: "Lo".into(), ty: "Person".into(), salience: 5, no_loop: true, cond: le5, acts: vec![Act::Log], layout: 0 },
            ],
        ),
        (
            "P2: `Person.age > 5` salience 10 sets Person.age = 3; `Person.age > 5` salience 5 logs",
            vec![
                RuleSpec { name: "Cap".into(), ty: "Person".into(), salience: 10, no_loop: true, cond: gt5.clone(), acts: vec![Act::Set { ty: "Person".into(), field: "age".into(), val: Val::I(3) }], layout: 0 },
                RuleSpec { name: "Big".into(), ty: "Person".into(), salience: 5, no_loop: true, cond: gt5, acts: vec![Act::Log], layout: 0 },
            ],
        ),
    ]
}

fn exhaustive_alphabet() -> Vec<HOp> {
    let mut a = Vec::new();
    for slot in 0..2 {
        for age in [3, 8] {
            a.push(HOp::Insert { slot, ty: "Person".into(), fields: person(age) });
        }
    }
    for slot in 0..2 {
        for age in [3, 8] {
            a.push(HOp::Update { slot, fields: person(age) });
        }
    }
    a.push(HOp::Retract { slot: 0 });
    a.push(HOp::Retract { slot: 1 });
    a.push(HOp::FireAll);
    a.push(HOp::Reset);
    a
}

// ------------------------------------------------------------------------------------------
// running, classifying, shrinking
// ------------------------------------------------------------------------------------------

/// VERIF_PROFILE=1 adds wall-time sums per phase to the evidence (never used for a verdict).
fn profiling() -> bool {
    static P: std::sync::OnceLock<bool> = std::sync::OnceLock::new();
    *P.get_or_init(|| std::env::var("VERIF_PROFILE").is_ok())
}

struct ShardState {
    shrunk_per_sig: std::collections::HashMap<String, u32>,
}

const SHRINK_PER_SIG_PER_SHARD: u32 = 3;

fn check_case(c: &HistCase, st: &mut Stats, ss: &mut ShardState) {
    st.eval();
    let opts = RunOpts::default();
    let t0 = std::time::Instant::now();
    let (viols, obs) = run_history(c, &opts);
    if profiling() {
        st.add("prof_us::run_history", t0.elapsed().as_micros() as u64);
        st.add("prof_us::parse", PARSE_NS.with(|c| c.replace(0)) / 1000);
    }
    if let Some(why) = &obs.skipped {
        st.count("skipped_not_judged(parser_or_loader_did_not_hand_back_the_program)");
        if st.notes.len() < 5 {
            st.notes.push(format!("skipped: {}", why));
        }
        return;
    }
    st.add("firings_observed", obs.firings);
    st.add("firings_whose_matched_fact_satisfied_the_rule", obs.firings_judged_true);
    st.add("fire_all_calls", obs.fire_alls);
    st.add("skipped_undefined::firings_on_facts_where_the_reference_is_undefined", obs.undefined_firings);
    st.add("skipped_undefined::first_fire_all_exactness_not_judged", obs.undefined_exactness);
    st.add("first_fire_all_exact_set_checked", obs.exactness_checked);
    st.add("later_fire_alls_held_to_upper_bounds_only", obs.later_fire_alls_upper_bound_only);
    st.add("later_fire_alls_firings_owed_(unfired_since_reset,_fact_new_since_previous_fire_all)", obs.later_fire_alls_owed_firings);
    st.add("rules_correctly_silent_in_first_fire_all", obs.rules_not_fired_when_unsatisfied);
    st.add("view_comparisons(4_views_x_every_issued_handle)", obs.view_checks);
    st.add("handles_issued", obs.handles_issued);
    st.add("working_memory_clear_calls", obs.working_memory_clears);
    st.add("firings_after_an_action_changed_working_memory", obs.firings_after_wm_change_by_action);
    st.add("retractions_requested_by_actions", obs.retractions_by_action);
    st.add("actions_that_modified_the_flattened_copy", obs.updates_by_action_observed);
    st.add("update_or_retract_of_dead_handle_rejected", obs.api_errors_on_dead_handles);
    st.max("max::actions_in_one_fire_all", obs.max_actions_in_one_fire_all);
    st.max("max::operations_in_one_history", c.ops.len() as u64);
    st.max("max::handles_issued_in_one_history", obs.handles_issued);
    if c.ops.len() >= 40 {
        st.count("long_histories(40..=200 operations, up to 150 facts)");
    }
    if obs.did_not_return {
        st.count("fire_all_exceeded_logical_step_bound(C07_concern)");
        st.inconclusive("a fire_all call exceeded the logical step bound (termination is C07's property); the history was not judged further");
    }
    // non-trivial: some rule fired AND some rule stayed silent in some fire_all
    let nrules = c.rules.len();
    let some_silent = obs.fired_seqs.iter().any(|s| {
        let set: std::collections::BTreeSet<usize> = s.iter().copied().collect();
        set.len() < nrules
    });
    if obs.firings > 0 && some_silent {
        st.nontrivial(hash_of(&c.to_json().to_string()));
        st.sample(|| c.to_json());
    }
    for v in &viols {
        let s0 = sig(v);
        st.count(&format!("raw_violation::{}", s0));
        let n = ss.shrunk_per_sig.entry(s0.clone()).or_insert(0);
        if *n >= SHRINK_PER_SIG_PER_SHARD {
            // same (clause, cause) seen often enough in this shard: counted, not shrunk again.
            // It still has to be classified: push the unshrunk case only if it is cheap to keep.
            st.count(&format!("violations_by_sig::{}", s0));
            continue;
        }
        *n += 1;
        let t1 = std::time::Instant::now();
        let small = shrink_history(c, &v.clause, &v.cause, &opts);
        if profiling() {
            st.add("prof_us::shrink", t1.elapsed().as_micros() as u64);
            st.add("prof_us::parse_in_shrink", PARSE_NS.with(|c| c.replace(0)) / 1000);
        }
        let (vs, _) = run_history_repeated(&small, &opts, 8);
        let explained = !v.cause.ends_with("unexplained");
        match vs.iter().find(|x| x.clause == v.clause && (!explained || x.cause == v.cause)).or_else(|| vs.iter().find(|x| x.clause == v.clause)) {
            Some(x) => st.violation(to_violation(&small, x)),
            None => st.violation(to_violation(c, v)),
        }
    }
}

struct C06;

impl Check for C06 {
    fn id(&self) -> &'static str {
        ID
    }
    fn rule(&self) -> String {
        "Programs: 1-4 single-type rules written as GRL text (3 fact types Person/Order/Sensor with int fields age,qty, string field tag, bool field vip; leaves int-field vs int-literal with == != < <= > >=, string-field vs string-literal with == != contains startsWith endsWith, bool-field == / != bool; && || ! to depth 3; salience from {0,0,5,5,10,20}; no-loop on/off; 4 text layouts), parsed by the real GRLParser, read back structurally (mismatch => skipped and counted), converted by GrlReteLoader::verif_convert_rule, actions wrapped by the recorder. Three modes: Log-only + all no-loop (clause c: first fire_all fires exactly the satisfied rules once; later fire_alls: upper bounds, plus a firing is owed by every rule that has not fired since the last reset and is satisfied by a live fact inserted or updated since the previous fire_all), modifying actions (`Type.field = literal;`, `retract($Type);`, `Retract(\"Type\");` incl. a constructed pair where a salience-10 rule falsifies or retracts the fact a lower-salience rule matched), no-loop mixed. Histories: 1-12 ops insert/update/retract/fire_all/reset over <=6 facts of <=3 types, sampled at random; plus EXHAUSTIVE enumeration of every history of the stated length over a 12-symbol alphabet (insert/update of 2 facts x age in {3,8}, retract of each, fire_all, reset) for two fixed 2-rule programs (an insert of a fact label that is already inserted and an update/retract of a label not yet inserted are skipped, so the enumeration contains every shorter effective history as well). Every firing is judged by the three-valued reference evaluator on the matched fact's fields as they appear in the flattened copy handed to the action (Undefined => counted, not judged); the four working-memory views are compared with the shadow for every handle ever issued after every op. A case is non-trivial when at least one rule fired and in at least one fire_all some rule did not fire; distinct by the whole case.".into()
    }
    fn assumptions(&self) -> Vec<String> {
        vec![
            "a single-type rule is about facts of its type: 'some live fact satisfies the rule' means a live fact of the rule's type whose fields make the condition True".into(),
            "the matched fact of a firing is the handle the engine injects for the rule's fact type into the copy handed to the action (TypedFacts::get_fact_handle); its contents 'at the moment of firing' are its `Type.<handle>.field` entries in that copy".into(),
            "an absent field, or a field whose kind differs from the literal's, makes the reference Undefined (case counted, not judged)".into(),
            "update/retract of an already retracted handle may return Ok or Err; only the views are judged afterwards".into(),
            "the engine iterates std HashMaps (per-process random state): replays run the case 32 times and report the union".into(),
        ]
    }
    fn devopt_scale(&self) -> Option<f64> {
        Some(0.1)
    }
    fn explore(&self, cli: &Cli, st: &mut Stats) {
        let nthreads = cli.threads;
        // ---- exhaustive
        let len = cli.tier.pick(5usize, 6usize);
        let alphabet = exhaustive_alphabet();
        let programs = exhaustive_programs();
        let na = alphabet.len();
        let total: u64 = (na as u64).pow(len as u32);
        let alphabet = &alphabet;
        let programs = &programs;
        shards(cli, nthreads, st, |shard, _rng, st| {
            let mut ss = ShardState { shrunk_per_sig: Default::default() };
            for (_pname, rules) in programs.iter() {
                let mut k = shard as u64;
                while k < total {
                    let mut ops = Vec::with_capacity(len);
                    let mut x = k;
                    for _ in 0..len {
                        ops.push(alphabet[(x % na as u64) as usize].clone());
                        x /= na as u64;
                    }
                    check_case(&HistCase { rules: rules.clone(), ops }, st, &mut ss);
                    k += nthreads as u64;
                }
            }
        });
        for (pname, _) in programs.iter() {
            st.exhaustive.push(format!("all {}^{} = {} histories of length {} (every prefix is monitored, so all shorter histories too) over {{insert/update fact0,fact1 with age 3|8, retract fact0|fact1, fire_all, reset}} for program {}", na, len, total, len, pname));
        }
        // ---- random
        let per = cli.n(2_500, 70_000);
        shards(cli, nthreads, st, |_shard, rng, st| {
            let mut ss = ShardState { shrunk_per_sig: Default::default() };
            for _ in 0..per {
                if cli.expired() {
                    st.count("stopped_by_time_budget");
                    break;
                }
                let c = gen_case(rng);
                check_case(&c, st, &mut ss);
            }
        });
    }
    fn replay(&self, cli: &Cli, case: &Json) -> Vec<Violation> {
        let Some(c) = HistCase::from_json(case) else {
            return vec![Violation { clause: "harness".into(), sig: format!("{}|harness|bad-case", ID), detail: "cannot decode case".into(), case: case.clone() }];
        };
        let (vs, obs) = run_history_repeated(&c, &RunOpts::default(), 32);
        if cli.verbose || cli.replay.is_some() {
            out!("  program:\n{}", program_text(&c.rules));
            for o in &c.ops {
                out!("  {}", o.to_json());
            }
            out!("  first run: firings={} fire_alls={} fired sequences (rule indexes)={:?} skipped={:?}", obs.firings, obs.fire_alls, obs.fired_seqs, obs.skipped);
        }
        vs.iter().map(|v| to_violation(&c, v)).collect()
    }
}

fn main() {
    run_main(C06)
}
