//! C13 — watermarks are monotone and every late event is accounted for.
//!
//! Step monitor over `WatermarkedStream`: after every `add_event` the watermark, its history,
//! the routing of the offered event and the late-data counters are compared with what the
//! statement prescribes, computed from the harness's own record of the offered timestamps.

use rre_verif::*;
use rust_rule_engine::streaming::event::StreamEvent;
use rust_rule_engine::streaming::watermark::{
    LateDataHandler, LateDataStrategy, LateEventDecision, Watermark, WatermarkGenerator, WatermarkStrategy, WatermarkedStream,
};
use std::collections::HashMap;
use std::time::Duration;

#[derive(Clone, Debug, PartialEq)]
enum Wm {
    Bounded(u64),
    Monotonic,
    /// BoundedOutOfOrder with a delay that does not fit u64 milliseconds ("never late"):
    /// 0 = Duration::MAX, 1 = Duration::from_secs(u64::MAX), 2 = Duration::from_millis(u64::MAX)
    BoundedHuge(u8),
}

fn huge_delay(k: u8) -> Duration {
    match k % 3 {
        0 => Duration::MAX,
        1 => Duration::from_secs(u64::MAX),
        _ => Duration::from_millis(u64::MAX),
    }
}
#[derive(Clone, Debug, PartialEq)]
enum Late {
    Drop,
    Allowed(u64),
    Side,
    Recompute,
}

#[derive(Clone, Debug)]
struct Case {
    wm: Wm,
    late: Late,
    base: u64,
    ts: Vec<u64>,
    /// the same offers made to a WatermarkGenerator + LateDataHandler pair driven by hand (the two
    /// components WatermarkedStream is assembled from), with `clear_side_output()` called by the
    /// consumer before the offers whose indices are listed
    clears: Option<Vec<usize>>,
}

impl Case {
    fn to_json(&self) -> Json {
        json!({
            "watermark": match &self.wm { Wm::Bounded(d) => json!({"bounded_out_of_order_ms": d}), Wm::Monotonic => json!("monotonic"), Wm::BoundedHuge(k) => {
                let name = ["Duration::MAX", "Duration::from_secs(u64::MAX)", "Duration::from_millis(u64::MAX)"][*k as usize % 3];
                json!({"bounded_out_of_order_huge": k, "delay": name})
            } },
            "late": match &self.late { Late::Drop => json!("drop"), Late::Allowed(l) => json!({"allowed_lateness_ms": l}), Late::Side => json!("side_output"), Late::Recompute => json!("recompute") },
            "base": self.base,
            "timestamps": self.ts,
            "components_driven_by_hand_with_clear_side_output_before_offers": self.clears,
        })
    }
    fn from_json(j: &Json) -> Option<Case> {
        let wm = match &j["watermark"] {
            Json::String(s) if s == "monotonic" => Wm::Monotonic,
            o if o.get("bounded_out_of_order_huge").is_some() => Wm::BoundedHuge(o.get("bounded_out_of_order_huge")?.as_u64()? as u8),
            o => Wm::Bounded(o.get("bounded_out_of_order_ms")?.as_u64()?),
        };
        let late = match &j["late"] {
            Json::String(s) if s == "drop" => Late::Drop,
            Json::String(s) if s == "side_output" => Late::Side,
            Json::String(s) if s == "recompute" => Late::Recompute,
            o => Late::Allowed(o.get("allowed_lateness_ms")?.as_u64()?),
        };
        Some(Case {
            wm,
            late,
            base: j["base"].as_u64().unwrap_or(0),
            ts: j["timestamps"].as_array()?.iter().filter_map(|v| v.as_u64()).collect(),
            clears: j.get("components_driven_by_hand_with_clear_side_output_before_offers").and_then(|v| v.as_array()).map(|a| a.iter().filter_map(|v| v.as_u64()).map(|v| v as usize).collect()),
        })
    }
    fn late_name(&self) -> &'static str {
        match self.late {
            Late::Drop => "drop",
            Late::Allowed(_) => "allowed-lateness",
            Late::Side => "side-output",
            Late::Recompute => "recompute",
        }
    }
}

struct Obs {
    late_events: u64,
    wm_advances: u64,
    boundary_events: u64,
}

fn strategies(c: &Case) -> (WatermarkStrategy, LateDataStrategy) {
    let ws = match &c.wm {
        Wm::Bounded(d) => WatermarkStrategy::BoundedOutOfOrder { max_delay: Duration::from_millis(*d) },
        Wm::BoundedHuge(k) => WatermarkStrategy::BoundedOutOfOrder { max_delay: huge_delay(*k) },
        Wm::Monotonic => WatermarkStrategy::MonotonicAscending,
    };
    let ls = match &c.late {
        Late::Drop => LateDataStrategy::Drop,
        Late::Allowed(l) => LateDataStrategy::AllowedLateness { max_lateness: Duration::from_millis(*l) },
        Late::Side => LateDataStrategy::SideOutput,
        Late::Recompute => LateDataStrategy::RecomputeWindows,
    };
    (ws, ls)
}

/// The two components driven the way WatermarkedStream drives them (is the event late against
/// the generator's current watermark? then the handler decides; otherwise the generator sees it),
/// plus a consumer that drains the side output now and then. Monitored after every offer: the
/// handler's decision, the cumulative counters (total_late counts every late event ever offered,
/// drained or not), the side-output buffer, watermark monotonicity.
fn run_components(c: &Case, clears: &[usize]) -> (Option<(String, String, String)>, Obs) {
    let (ws, ls) = strategies(c);
    let mut gen = WatermarkGenerator::new(ws);
    let mut h = LateDataHandler::new(ls);
    let mut obs = Obs { late_events: 0, wm_advances: 0, boundary_events: 0 };
    let (mut exp_late, mut exp_dropped, mut exp_allowed) = (0usize, 0usize, 0usize);
    let mut exp_side: Vec<String> = Vec::new();
    let mut drained = 0usize;
    for (i, &t) in c.ts.iter().enumerate() {
        if clears.contains(&i) {
            drained += h.side_output().len();
            h.clear_side_output();
            exp_side.clear();
        }
        let ts = c.base + t;
        let id = format!("e{}", i);
        let mut ev = StreamEvent::with_timestamp("T", HashMap::new(), "src", ts);
        ev.id = id.clone();
        let wm_before: Watermark = gen.current_watermark();
        let late = ts < wm_before.timestamp;
        if gen.is_late(&ev) != late {
            return (Some(("late-iff-below-watermark".into(), "WatermarkGenerator::is_late".into(), format!("offer #{} ts {} watermark {}: is_late returned {}", i, ts, wm_before.timestamp, !late))), obs);
        }
        if late {
            obs.late_events += 1;
            exp_late += 1;
            let lateness = wm_before.timestamp - ts;
            let want = match &c.late {
                Late::Drop => "drop",
                Late::Allowed(l) => {
                    if lateness <= *l {
                        "process"
                    } else {
                        "drop"
                    }
                }
                Late::Side => "side",
                Late::Recompute => "recompute",
            };
            match want {
                "drop" => exp_dropped += 1,
                "process" | "recompute" => exp_allowed += 1,
                _ => exp_side.push(id.clone()),
            }
            let got = match h.handle_late_event(ev, &wm_before) {
                LateEventDecision::Drop => "drop",
                LateEventDecision::Process(_) => "process",
                LateEventDecision::SideOutput(_) => "side",
                LateEventDecision::Recompute(_) => "recompute",
            };
            if got != want {
                let cause = match &c.late {
                    Late::Allowed(l) => format!("allowed-lateness:{}", if lateness == *l { "lateness-equals-bound" } else if lateness < *l { "lateness-below-bound" } else { "lateness-above-bound" }),
                    _ => c.late_name().to_string(),
                };
                return (Some(("routing".into(), cause, format!("offer #{} ts {} (watermark {}, lateness {}): handler decided {:?}, the strategy prescribes {:?}", i, ts, wm_before.timestamp, lateness, got, want))), obs);
            }
        } else {
            let _ = gen.process_event(&ev);
            let after = gen.current_watermark().timestamp;
            if after < wm_before.timestamp {
                return (Some(("watermark-monotone".into(), "after-on-time-event".into(), format!("offer #{} ts {}: watermark went from {} back to {}", i, ts, wm_before.timestamp, after))), obs);
            }
            if after > wm_before.timestamp {
                obs.wm_advances += 1;
            }
        }
        let st = h.stats();
        let got_side: Vec<String> = h.side_output().iter().map(|e| e.id.clone()).collect();
        if st.total_late != exp_late || st.dropped != exp_dropped || st.allowed != exp_allowed || st.side_output != exp_side.len() || got_side != exp_side || st.dropped + st.allowed + st.side_output + drained != exp_late {
            let cause = if drained > 0 { format!("{}|after-clear_side_output", c.late_name()) } else { c.late_name().to_string() };
            return (
                Some((
                    "conservation".into(),
                    cause,
                    format!(
                        "after offer #{}: handler stats {:?}, side buffer {:?}, {} side events drained by the consumer; expected total_late {} dropped {} allowed {} side buffer {:?}",
                        i, st, got_side, drained, exp_late, exp_dropped, exp_allowed, exp_side
                    ),
                )),
                obs,
            );
        }
    }
    (None, obs)
}

/// Run one case under the step monitor. Returns (first violation as (clause, cause, detail)), observations.
fn run_case(c: &Case) -> (Option<(String, String, String)>, Obs) {
    if let Some(clears) = &c.clears {
        return run_components(c, clears);
    }
    let (ws, ls) = strategies(c);
    let mut s = WatermarkedStream::new(ws, ls);
    let mut obs = Obs {
        late_events: 0,
        wm_advances: 0,
        boundary_events: 0,
    };
    let mut max_seen: Option<u64> = None;
    let mut offered = 0usize;
    // shadow routing: id -> where the statement says it must be
    let mut exp_events: Vec<String> = Vec::new();
    let mut exp_side: Vec<String> = Vec::new();
    let mut exp_dropped = 0usize;
    let mut exp_allowed = 0usize;
    let mut exp_late = 0usize;

    for (i, &t) in c.ts.iter().enumerate() {
        let ts = c.base + t;
        let id = format!("e{}", i);
        let mut ev = StreamEvent::with_timestamp("T", HashMap::new(), "src", ts);
        ev.id = id.clone();

        let wm_before = s.current_watermark().timestamp;
        let hist_before = s.watermark_history().len();
        let stats_before = s.late_stats();
        let r = s.add_event(ev);
        offered += 1;
        if let Err(e) = r {
            return (
                Some((
                    "accounting".into(),
                    "add_event-returned-error".into(),
                    format!("add_event #{} (ts {}) returned Err({})", i, ts, e),
                )),
                obs,
            );
        }
        let wm_after = s.current_watermark().timestamp;
        let stats = s.late_stats();
        max_seen = Some(max_seen.map_or(ts, |m| m.max(ts)));

        // (1) monotone
        let should_be_late = ts < wm_before;
        if ts == wm_before {
            obs.boundary_events += 1;
        }
        if wm_after < wm_before {
            return (
                Some((
                    "watermark-monotone".into(),
                    if should_be_late { "after-late-event" } else { "after-on-time-event" }.into(),
                    format!("event #{} ts {}: watermark went from {} back to {}", i, ts, wm_before, wm_after),
                )),
                obs,
            );
        }
        if wm_after > wm_before {
            obs.wm_advances += 1;
        }
        let hist = s.watermark_history();
        for w in hist.windows(2) {
            if w[1].timestamp < w[0].timestamp {
                return (
                    Some((
                        "watermark-monotone".into(),
                        "history-not-monotone".into(),
                        format!("watermark_history decreases: {:?}", hist.iter().map(|w| w.timestamp).collect::<Vec<_>>()),
                    )),
                    obs,
                );
            }
        }
        if let Some(last) = hist.last() {
            if last.timestamp > wm_after {
                return (
                    Some((
                        "watermark-monotone".into(),
                        "history-ahead-of-current".into(),
                        format!("last history entry {} is above current watermark {}", last.timestamp, wm_after),
                    )),
                    obs,
                );
            }
        }
        let _ = hist_before;

        // (2) lateness decision, as observed through the counters and the event lists
        let treated_late = stats.total_late > stats_before.total_late;
        if treated_late != should_be_late {
            let cause = if ts == wm_before {
                "timestamp-equals-watermark"
            } else if ts < wm_before {
                "timestamp-below-watermark"
            } else {
                "timestamp-above-watermark"
            };
            return (
                Some((
                    "late-iff-below-watermark".into(),
                    cause.into(),
                    format!(
                        "event #{} ts {} with watermark {} was {}treated as late (total_late {} -> {})",
                        i, ts, wm_before, if treated_late { "" } else { "not " }, stats_before.total_late, stats.total_late
                    ),
                )),
                obs,
            );
        }

        // expected routing
        if should_be_late {
            obs.late_events += 1;
            exp_late += 1;
            match &c.late {
                Late::Drop => exp_dropped += 1,
                Late::Allowed(l) => {
                    if wm_before - ts <= *l {
                        exp_allowed += 1;
                        exp_events.push(id.clone());
                    } else {
                        exp_dropped += 1;
                    }
                }
                Late::Side => exp_side.push(id.clone()),
                Late::Recompute => {
                    exp_allowed += 1;
                    exp_events.push(id.clone());
                }
            }
            // a late event must not move the watermark (it is below it, so max_seen is unchanged)
        } else {
            exp_events.push(id.clone());
            // (3) watermark value after an on-time event (bounded out-of-orderness)
            // (a delay beyond u64 milliseconds is larger than every timestamp: the floor, 0)
            let delay_ms: Option<u64> = match &c.wm {
                Wm::Bounded(d) => Some(*d),
                Wm::BoundedHuge(_) => Some(u64::MAX),
                Wm::Monotonic => None,
            };
            if let Some(d) = &delay_ms {
                let want = max_seen.unwrap().saturating_sub(*d);
                if wm_after != want {
                    let cause = if matches!(c.wm, Wm::BoundedHuge(_)) { "delay-beyond-u64-milliseconds" } else if max_seen.unwrap() < *d { "below-zero-floor" } else { "general" };
                    return (
                        Some((
                            "watermark-value".into(),
                            cause.into(),
                            format!(
                                "after on-time event #{} ts {}: watermark {} but max timestamp seen {} minus delay {} (floored at 0) is {}",
                                i, ts, wm_after, max_seen.unwrap(), d, want
                            ),
                        )),
                        obs,
                    );
                }
            }
        }

        // (4) routing: exactly once, in the place the strategy prescribes
        let got_events: Vec<String> = s.events().iter().map(|e| e.id.clone()).collect();
        let got_side: Vec<String> = s.side_output().iter().map(|e| e.id.clone()).collect();
        if got_events != exp_events || got_side != exp_side {
            let lateness = wm_before.saturating_sub(ts);
            let cause = match (&c.late, should_be_late) {
                (_, false) => "on-time-event".to_string(),
                (Late::Allowed(l), true) => format!(
                    "allowed-lateness:{}",
                    if lateness == *l { "lateness-equals-bound" } else if lateness < *l { "lateness-below-bound" } else { "lateness-above-bound" }
                ),
                (_, true) => c.late_name().to_string(),
            };
            return (
                Some((
                    "routing".into(),
                    cause,
                    format!(
                        "after event #{} ts {} (watermark before {}): events {:?} side_output {:?}; expected events {:?} side_output {:?}",
                        i, ts, wm_before, got_events, got_side, exp_events, exp_side
                    ),
                )),
                obs,
            );
        }

        // (5) statistics add up
        let bad_stats = stats.total_late != exp_late
            || stats.dropped != exp_dropped
            || stats.allowed != exp_allowed
            || stats.side_output != exp_side.len()
            || stats.total_late != stats.dropped + stats.allowed + stats.side_output
            || got_events.len() + stats.dropped + got_side.len() != offered;
        if bad_stats {
            return (
                Some((
                    "conservation".into(),
                    c.late_name().into(),
                    format!(
                        "after event #{}: stats {:?}, |events| {} |side| {} offered {}; expected total_late {} dropped {} allowed {} side {}",
                        i, stats, got_events.len(), got_side.len(), offered, exp_late, exp_dropped, exp_allowed, exp_side.len()
                    ),
                )),
                obs,
            );
        }
    }
    (None, obs)
}

fn to_violation(c: &Case, clause: &str, cause: &str, detail: &str) -> Violation {
    Violation {
        clause: clause.to_string(),
        sig: format!("C13|{}|{}", clause, cause),
        detail: detail.to_string(),
        case: c.to_json(),
    }
}

fn check_case(c: &Case, st: &mut Stats) {
    st.eval();
    let (v, obs) = match pan::catch_frames(|| run_case(c)) {
        Ok(r) => r,
        Err(p) => {
            st.violation(to_violation(
                c,
                "no-panic",
                &format!("{}|{}", p.class(), p.frame),
                &format!("panic: {} at {}:{}", p.msg, p.file, p.line),
            ));
            return;
        }
    };
    st.add("events_offered", c.ts.len() as u64);
    st.add("late_events_observed", obs.late_events);
    st.add("watermark_advances_observed", obs.wm_advances);
    st.add("events_exactly_on_watermark", obs.boundary_events);
    if obs.late_events > 0 && obs.wm_advances > 0 {
        st.nontrivial(hash_of(&format!("{:?}", c)));
        st.sample(|| c.to_json());
    }
    if let Some((clause, _cause, _detail)) = v {
        // shrink the timestamp list while the same clause keeps failing
        let mut fails = |ts: &[u64]| {
            let cc = Case { ts: ts.to_vec(), ..c.clone() };
            matches!(pan::catch(|| run_case(&cc)), Ok((Some((cl, _, _)), _)) if cl == clause)
        };
        let ts = shrink_list(&c.ts, &mut fails);
        let cc = Case { ts, ..c.clone() };
        if let Ok((Some((cl, cause, detail)), _)) = pan::catch(|| run_case(&cc)) {
            st.violation(to_violation(&cc, &cl, &cause, &detail));
        }
    }
}

fn late_configs() -> Vec<Late> {
    vec![
        Late::Drop,
        Late::Allowed(0),
        Late::Allowed(1),
        Late::Allowed(3),
        Late::Side,
        Late::Recompute,
    ]
}

struct C13;

impl Check for C13 {
    fn id(&self) -> &'static str {
        "C13"
    }
    fn rule(&self) -> String {
        "exhaustive: every timestamp sequence of length L over 0..=6 ms x bounded-out-of-order delays 0..=4 ms (+ monotonic) x 6 late-data configurations, step-monitored after every add_event (so every prefix is checked); the Side and Allowed(1) configurations once more through a WatermarkGenerator + LateDataHandler pair driven by hand with the consumer calling clear_side_output() before offers #2 and #4; long: for every late-data configuration one sequence of 1500 (thorough 6000) late events after one high instant, through WatermarkedStream and through the hand-driven components; random (1 case in 30 with one or two instants in the upper half of the u64 range; 1 case in 24 with a bounded-out-of-order delay beyond u64 milliseconds: Duration::MAX, from_secs(u64::MAX), from_millis(u64::MAX)): lengths 1..=12 over a dense domain, also on an epoch-sized base, one in four on a time scale of x100..x1000 (delays and lateness bounds of a second and more), one in three through the hand-driven components with clear_side_output() at random points; one more case in 6 with a delay / lateness bound that is not a round number (1001..1300, 4097, 65537, 86400001, random up to 101000) and events exactly at, one before and one after the instants the bound separates. A case is non-trivial when at least one event was late AND the watermark advanced at least once; distinct by (configuration, timestamp sequence).".into()
    }
    fn assumptions(&self) -> Vec<String> {
        vec![
            "AllowedLateness admits lateness <= bound (the type documents the bound as the maximum allowed lateness)".into(),
            "'treated as late' is observed through late_stats().total_late and the event/side-output lists".into(),
            "total_late counts every late event ever offered to the handler; draining the side output (clear_side_output) empties the buffer and stats().side_output but not total_late".into(),
        ]
    }
    fn devopt_scale(&self) -> Option<f64> {
        Some(0.1)
    }
    fn explore(&self, cli: &Cli, st: &mut Stats) {
        let len = cli.tier.pick(5usize, 8usize);
        let wms: Vec<Wm> = (0..=4).map(Wm::Bounded).chain([Wm::Monotonic]).collect();
        // exhaustive part, sharded by first timestamp x watermark config
        let mut jobs: Vec<(Wm, u64)> = Vec::new();
        for w in &wms {
            for first in 0..=6u64 {
                jobs.push((w.clone(), first));
            }
        }
        let jobs = &jobs;
        let nthreads = cli.threads;
        shards(cli, nthreads, st, |shard, _rng, st| {
            for (ji, (wm, first)) in jobs.iter().enumerate() {
                if ji % nthreads != shard {
                    continue;
                }
                for late in late_configs() {
                    let mut idx = vec![0u64; len - 1];
                    loop {
                        let mut ts = vec![*first];
                        ts.extend(idx.iter().copied());
                        let c = Case { wm: wm.clone(), late: late.clone(), base: 0, ts, clears: None };
                        check_case(&c, st);
                        // the same offers through the hand-driven components, side output drained before offer #2 (and #4)
                        if matches!(late, Late::Side | Late::Allowed(1)) {
                            let c2 = Case { clears: Some(vec![2, 4]), ..c };
                            check_case(&c2, st);
                        }
                        // odometer
                        let mut k = 0;
                        loop {
                            if k == idx.len() {
                                break;
                            }
                            idx[k] += 1;
                            if idx[k] <= 6 {
                                break;
                            }
                            idx[k] = 0;
                            k += 1;
                        }
                        if k == idx.len() {
                            break;
                        }
                    }
                }
            }
        });
        st.exhaustive.push(format!(
            "all timestamp sequences of length {} over 0..=6 x delays 0..=4 and monotonic x 6 late-data configurations",
            len
        ));
        // long sequences: thousands of late events under every late-data configuration (buffers and
        // counters that only change behaviour with their size)
        let long_n = cli.tier.pick(1_500usize, 6_000usize);
        let long_cfgs = late_configs();
        let long_cfgs = &long_cfgs;
        shards(cli, nthreads, st, |shard, _rng, st| {
            for (k, late) in long_cfgs.iter().enumerate() {
                if k % nthreads != shard {
                    continue;
                }
                // one high instant first, then `long_n` instants below the watermark it sets, then a
                // few on-time ones
                let mut ts: Vec<u64> = vec![10_000];
                ts.extend((0..long_n as u64).map(|i| 9_000 - (i % 7)));
                ts.extend([10_000, 10_001, 9_999]);
                st.count("long_sequences_(thousands_of_late_events)");
                st.max("max::events_in_one_sequence", ts.len() as u64);
                check_case(&Case { wm: Wm::Bounded(0), late: late.clone(), base: 0, ts: ts.clone(), clears: None }, st);
                check_case(&Case { wm: Wm::Bounded(0), late: late.clone(), base: 0, ts, clears: Some(vec![]) }, st);
            }
        });
        // random part
        let per = cli.n(40_000, 1_500_000);
        shards(cli, nthreads, st, |_shard, rng, st| {
            for _ in 0..per {
                if cli.expired() {
                    st.count("stopped_by_time_budget");
                    break;
                }
                let n = 1 + rng.below(12);
                let dom = *rng.pick(&[4u64, 8, 16, 40]);
                let base = if rng.chance(1, 4) { 1_790_000_000_000u64 } else { 0 };
                let wm = if rng.chance(1, 6) {
                    Wm::Monotonic
                } else if rng.chance(1, 20) {
                    Wm::BoundedHuge(rng.below(3) as u8)
                } else {
                    Wm::Bounded(rng.below(11) as u64)
                };
                let late = match rng.below(5) {
                    0 => Late::Drop,
                    1 => Late::Allowed(rng.below(6) as u64),
                    2 => Late::Side,
                    3 => Late::Recompute,
                    _ => Late::Allowed(rng.below(20) as u64),
                };
                let mut ts: Vec<u64> = (0..n).map(|_| rng.below(dom as usize + 1) as u64).collect();
                match rng.below(4) {
                    0 => ts.sort(),
                    1 => {
                        ts.sort();
                        ts.reverse()
                    }
                    _ => {}
                }
                // one case in four on a coarser time scale (bounds and lateness of a second and more)
                let scale = if rng.chance(1, 4) { *rng.pick(&[100u64, 250, 500, 1000]) } else { 1 };
                let wm = match wm {
                    Wm::Bounded(d) => Wm::Bounded(d * scale),
                    w => w,
                };
                let late = match late {
                    Late::Allowed(l) => Late::Allowed(l * scale),
                    l => l,
                };
                let ts: Vec<u64> = ts.iter().map(|t| t * scale).collect();
                let clears = if rng.chance(1, 3) { Some((0..n).filter(|_| rng.chance(1, 4)).collect()) } else { None };
                // one case in 30: one or two instants in the upper half of the u64 range (half the
                // range and more away from the others)
                let (base, ts) = if rng.chance(1, 30) {
                    let mut ts = ts;
                    for _ in 0..1 + rng.below(2) {
                        let k = rng.below(ts.len());
                        ts[k] = *rng.pick(&[1u64 << 63, (1u64 << 63) + 7, u64::MAX - 5, u64::MAX]);
                    }
                    (0, ts)
                } else {
                    (base, ts)
                };
                check_case(&Case { wm, late, base, ts, clears }, st);
                // one more case in 6: a delay / lateness bound that is NOT a round number (1001,
                // 1003 .. 1300, a few thousand and odd), with events exactly at, one before and
                // one after the instants that the bound separates
                if rng.chance(1, 6) {
                    let odd = |rng: &mut Rng| match rng.below(4) {
                        0 => 1001 + 2 * rng.below(12) as u64,
                        1 => 1000 + rng.below(301) as u64,
                        2 => *rng.pick(&[1118u64, 1235, 4097, 65_537, 86_400_001, 999, 1023, 1025]),
                        _ => 1000 + rng.below(100_000) as u64,
                    };
                    let d = odd(rng);
                    let l = odd(rng);
                    let wm = if rng.chance(1, 5) { Wm::Monotonic } else { Wm::Bounded(d) };
                    let late = match rng.below(4) {
                        0 => Late::Drop,
                        1 => Late::Side,
                        _ => Late::Allowed(l),
                    };
                    let dd = if matches!(wm, Wm::Bounded(_)) { d } else { 0 };
                    let h = d + l + 2 + rng.below(5000) as u64;
                    let mut ts = vec![h];
                    for _ in 0..2 + rng.below(8) {
                        let wmk = h - dd; // the watermark after h
                        let t = match rng.below(8) {
                            0 => wmk,
                            1 => wmk.saturating_sub(1),
                            2 => wmk + 1,
                            3 => wmk.saturating_sub(l),
                            4 => wmk.saturating_sub(l + 1),
                            5 => wmk.saturating_sub(l).saturating_add(1),
                            6 => h + 1 + rng.below(3) as u64,
                            _ => rng.below(h as usize + 1) as u64,
                        };
                        ts.push(t);
                    }
                    st.count("cases_with_a_delay_or_lateness_bound_that_is_not_a_round_number");
                    check_case(&Case { wm, late, base: 0, ts, clears: None }, st);
                }
            }
        });
    }
    fn replay(&self, _cli: &Cli, case: &Json) -> Vec<Violation> {
        let Some(c) = Case::from_json(case) else {
            return vec![Violation {
                clause: "harness".into(),
                sig: "C13|harness|bad-case".into(),
                detail: "cannot decode case".into(),
                case: case.clone(),
            }];
        };
        match pan::catch_frames(|| run_case(&c)) {
            Ok((Some((clause, cause, detail)), _)) => vec![to_violation(&c, &clause, &cause, &detail)],
            Ok((None, _)) => vec![],
            Err(p) => vec![to_violation(
                &c,
                "no-panic",
                &format!("{}|{}", p.class(), p.frame),
                &format!("panic: {} at {}:{}", p.msg, p.file, p.line),
            )],
        }
    }
}

fn main() {
    run_main(C13)
}
