//! C02 — firing order and rule attributes are honoured on every run.
//!
//! One online trace monitor per clause of the statement, all upper-bound / ordering clauses,
//! over histories of calls on ONE engine. Firings are observed at the API boundary through a
//! custom action handler (`Trace("name")`, last action of every rule) that also snapshots the
//! facts; pass boundaries come from hook H2 through the event observer; focus is re-read from
//! `get_active_agenda_group()` at every call boundary.

use chrono::{DateTime, Utc};
use rre_verif::grl::ast::*;
use rre_verif::grl::eval::*;
use rre_verif::grl::val::{Store, V};
use rre_verif::*;
use rust_rule_engine::verif_hooks::{self, Event};
use rust_rule_engine::{EngineConfig, Facts, GRLParser, KnowledgeBase, RustRuleEngine};
use std::cell::RefCell;
use std::collections::{BTreeMap, BTreeSet};

// all instants of this check are MILLISECONDS since the epoch (date windows and evaluation
// instants may fall inside a second)
const T0: i64 = 1_924_992_000_000; // 2031-01-01T00:00:00Z
const SEC: i64 = 1_000;
const DAY: i64 = 86_400 * SEC;

#[derive(Clone, Debug, PartialEq)]
enum Call {
    ExecAt(i64),
    ExecNow,
    /// `execute_with_callback` (the engine's second copy of the loop), evaluated "now"
    ExecCallback,
    SetFocus(String),
    Pop,
    Clear,
    Activate(String),
    ResetNoLoop,
    SetEnabled(usize, bool),
    WorkflowStep(String),
    /// `knowledge_base().remove_rule(name)`
    RemoveRule(usize),
    /// `knowledge_base().add_rule(..)` of a rule removed earlier: it becomes the newest rule
    ReAddRule(usize),
    /// `*engine.knowledge_base_mut() = <a new KnowledgeBase>` holding the rules that are present
    /// now, added in REVERSED order (same number of add_rule calls), with the enabled flags as
    /// first written
    ReplaceKb,
    /// `execute` in which the first action that runs takes longer than the engine's timeout (only
    /// in cases with `timeout_ms`): the call ends on the timeout error path
    ExecSlow,
    /// `execute` (or, odd index, `execute_with_callback`) during which the LAST action of rule
    /// #i (the harness's trace action; the rule's own actions have run) returns an error the
    /// first time that rule fires, so the call returns Err in the middle of a pass. Only rules
    /// without no-loop / lock-on-active / activation-group are chosen: whether a rule whose
    /// action failed "has fired" for those attributes is not stated.
    ExecFailing(usize),
}

#[derive(Clone, Debug)]
struct R {
    ast: RuleAst,
    salience: i32,
    effective: Option<i64>,
    expires: Option<i64>,
    enabled: bool,
}

#[derive(Clone, Debug)]
struct Case {
    rules: Vec<R>,
    store: Store,
    max_cycles: usize,
    calls: Vec<Call>,
    /// EngineConfig.timeout in milliseconds (None = no timeout)
    timeout_ms: Option<u64>,
    /// how the date windows reach the rules: None = the `date_effective` / `date_expires` fields
    /// are set to the instant; Some(minutes) = through `with_date_effective_str` /
    /// `with_date_expires_str` with an RFC 3339 text of the SAME instant written at that UTC offset
    dates_as_text_at_offset_min: Option<i32>,
}

fn call_json(c: &Call) -> Json {
    match c {
        Call::ExecAt(t) => json!({"execute_at_time_ms": t, "rel": format!("T0{:+}ms", t - T0)}),
        Call::ExecNow => json!("execute"),
        Call::ExecSlow => json!("execute_with_a_slow_first_action"),
        Call::ReplaceKb => json!("replace_the_knowledge_base_by_a_new_one_with_the_present_rules_in_reversed_order"),
        Call::ExecCallback => json!("execute_with_callback"),
        Call::SetFocus(g) => json!({"set_agenda_focus": g}),
        Call::Pop => json!("pop_agenda_focus"),
        Call::Clear => json!("clear_agenda_focus"),
        Call::Activate(g) => json!({"activate_agenda_group": g}),
        Call::ResetNoLoop => json!("reset_no_loop_tracking"),
        Call::SetEnabled(i, b) => json!({"set_rule_enabled": [i, b]}),
        Call::WorkflowStep(g) => json!({"execute_workflow_step": g}),
        Call::RemoveRule(i) => json!({"remove_rule": i}),
        Call::ReAddRule(i) => json!({"re_add_rule": i}),
        Call::ExecFailing(i) => json!({"execute_in_which_the_last_action_of_this_rule_fails_once": i}),
    }
}
fn call_from(j: &Json) -> Option<Call> {
    if let Some(s) = j.as_str() {
        return Some(match s {
            "execute" => Call::ExecNow,
            "execute_with_a_slow_first_action" => Call::ExecSlow,
            "replace_the_knowledge_base_by_a_new_one_with_the_present_rules_in_reversed_order" => Call::ReplaceKb,
            "execute_with_callback" => Call::ExecCallback,
            "pop_agenda_focus" => Call::Pop,
            "clear_agenda_focus" => Call::Clear,
            "reset_no_loop_tracking" => Call::ResetNoLoop,
            _ => return None,
        });
    }
    if let Some(i) = j.get("execute_in_which_the_last_action_of_this_rule_fails_once") {
        return Some(Call::ExecFailing(i.as_u64()? as usize));
    }
    if let Some(t) = j.get("execute_at_time_ms") {
        return Some(Call::ExecAt(t.as_i64()?));
    }
    // witnesses written before the unit became milliseconds
    if let Some(t) = j.get("execute_at_time") {
        return Some(Call::ExecAt(t.as_i64()? * SEC));
    }
    if let Some(g) = j.get("set_agenda_focus") {
        return Some(Call::SetFocus(g.as_str()?.into()));
    }
    if let Some(g) = j.get("activate_agenda_group") {
        return Some(Call::Activate(g.as_str()?.into()));
    }
    if let Some(g) = j.get("execute_workflow_step") {
        return Some(Call::WorkflowStep(g.as_str()?.into()));
    }
    if let Some(i) = j.get("remove_rule") {
        return Some(Call::RemoveRule(i.as_u64()? as usize));
    }
    if let Some(i) = j.get("re_add_rule") {
        return Some(Call::ReAddRule(i.as_u64()? as usize));
    }
    if let Some(a) = j.get("set_rule_enabled") {
        let a = a.as_array()?;
        return Some(Call::SetEnabled(a.first()?.as_u64()? as usize, a.get(1)?.as_bool()?));
    }
    None
}

impl Case {
    fn to_json(&self) -> Json {
        json!({
            "rules": self.rules.iter().map(|r| json!({
                "rule": rule_json(&r.ast),
                "salience": r.salience,
                "effective_ms": r.effective,
                "expires_ms": r.expires,
                "enabled": r.enabled,
            })).collect::<Vec<_>>(),
            "store": self.store.to_json(),
            "max_cycles": self.max_cycles,
            "calls": self.calls.iter().map(call_json).collect::<Vec<_>>(),
            "timeout_ms": self.timeout_ms,
            "dates_as_text_at_offset_min": self.dates_as_text_at_offset_min,
        })
    }
    fn from_json(j: &Json) -> Option<Case> {
        let mut rules = Vec::new();
        for r in j.get("rules")?.as_array()? {
            rules.push(R {
                ast: rule_from(r.get("rule")?)?,
                salience: r.get("salience")?.as_i64()? as i32,
                effective: r.get("effective_ms").and_then(|v| v.as_i64()).or_else(|| r.get("effective").and_then(|v| v.as_i64()).map(|t| t * SEC)),
                expires: r.get("expires_ms").and_then(|v| v.as_i64()).or_else(|| r.get("expires").and_then(|v| v.as_i64()).map(|t| t * SEC)),
                enabled: r.get("enabled")?.as_bool()?,
            });
        }
        Some(Case {
            rules,
            store: Store::from_json(j.get("store")?)?,
            max_cycles: j.get("max_cycles")?.as_u64()? as usize,
            calls: j.get("calls")?.as_array()?.iter().map(call_from).collect::<Option<Vec<_>>>()?,
            timeout_ms: j.get("timeout_ms").and_then(|v| v.as_u64()),
            dates_as_text_at_offset_min: j.get("dates_as_text_at_offset_min").and_then(|v| v.as_i64()).map(|v| v as i32),
        })
    }
}

#[derive(Clone, Debug)]
enum Tr {
    Pass,
    /// hook: the engine's agenda manager made this group the focused one (inside a run)
    Focus(String),
    Fire(String, Result<Store, String>),
}

thread_local! {
    static TRACE: RefCell<Vec<Tr>> = const { RefCell::new(Vec::new()) };
    /// the next Trace action sleeps this long (once)
    static SLOW_MS: std::cell::Cell<u64> = const { std::cell::Cell::new(0) };
    static FAIL_RULE: RefCell<Option<String>> = const { RefCell::new(None) };
}

struct StepBound;

#[derive(Default)]
struct Obs {
    setup_failed: bool,
    firings: u64,
    passes: u64,
    exec_calls: u64,
    blocked_disabled: u64,
    focus_changes_by_action: u64,
    focus_events: u64,
    hook_missing: bool,
    exec_err: u64,
    slow_calls: u64,
    kb_replacements: u64,
    dates_given_as_text: bool,
    injected_failures: u64,
    timeout_errs: u64,
    tie_pairs_seen: u64,
    loa_firings: u64,
    noloop_firings: u64,
    actgroup_firings: u64,
    dated_firings: u64,
    grouped_firings: u64,
}

type Verdict = Option<(&'static str, String, String)>;

fn group_of(r: &R) -> String {
    r.ast.attrs.agenda_group.clone().unwrap_or_else(|| "MAIN".to_string())
}

fn to_dt(ms: i64) -> DateTime<Utc> {
    DateTime::<Utc>::from_timestamp_millis(ms).expect("timestamp in range")
}

fn judge(case: &Case) -> (Verdict, Obs) {
    let mut obs = Obs::default();
    // ---- build the engine: text carries name/condition/actions; attributes are applied on the
    // parsed Rule so that this check does not depend on the parser's attribute handling (C04)
    let kb = KnowledgeBase::new("verif");
    let mut built: Vec<rust_rule_engine::Rule> = Vec::new();
    for r in &case.rules {
        let mut ast = r.ast.clone();
        ast.attrs = Attrs::default();
        ast.actions.push(Action::Call("Trace".into(), vec![Rhs::Lit(V::Str(r.ast.name.clone()))]));
        let text = fmt_rule(&ast);
        let mut parsed = match pan::catch(|| GRLParser::parse_rules(&text)) {
            Ok(Ok(v)) if v.len() == 1 => v,
            _ => {
                obs.setup_failed = true;
                return (None, obs);
            }
        };
        let mut rule = parsed.remove(0);
        rule.salience = r.salience;
        rule.no_loop = r.ast.attrs.no_loop;
        rule.lock_on_active = r.ast.attrs.lock_on_active;
        rule.agenda_group = r.ast.attrs.agenda_group.clone();
        rule.activation_group = r.ast.attrs.activation_group.clone();
        match case.dates_as_text_at_offset_min {
            None => {
                rule.date_effective = r.effective.map(to_dt);
                rule.date_expires = r.expires.map(to_dt);
            }
            Some(off) => {
                let text = |ms: i64| {
                    let tz = chrono::FixedOffset::east_opt(off * 60).expect("offset in range");
                    to_dt(ms).with_timezone(&tz).to_rfc3339_opts(chrono::SecondsFormat::Millis, off == 0 && ms % 2 == 0)
                };
                if let Some(ms) = r.effective {
                    rule = match rule.with_date_effective_str(&text(ms)) {
                        Ok(x) => x,
                        Err(_) => {
                            obs.setup_failed = true;
                            return (None, obs);
                        }
                    };
                }
                if let Some(ms) = r.expires {
                    rule = match rule.with_date_expires_str(&text(ms)) {
                        Ok(x) => x,
                        Err(_) => {
                            obs.setup_failed = true;
                            return (None, obs);
                        }
                    };
                }
                obs.dates_given_as_text = r.effective.is_some() || r.expires.is_some() || obs.dates_given_as_text;
            }
        }
        rule.enabled = r.enabled;
        built.push(rule.clone());
        if kb.add_rule(rule).is_err() {
            obs.setup_failed = true;
            return (None, obs);
        }
    }
    let mut engine = RustRuleEngine::with_config(
        kb,
        EngineConfig { max_cycles: case.max_cycles, timeout: case.timeout_ms.map(std::time::Duration::from_millis), enable_stats: false, debug_mode: false },
    );
    engine.register_action_handler("Trace", |params, facts: &Facts| {
        let nap = SLOW_MS.with(|s| s.replace(0));
        if nap > 0 {
            std::thread::sleep(std::time::Duration::from_millis(nap));
        }
        let name = match params.get("0") {
            Some(rust_rule_engine::Value::String(s)) => s.clone(),
            other => format!("{:?}", other),
        };
        let snap = Store::from_engine_map(&facts.get_all_facts());
        let fail = FAIL_RULE.with(|f| {
            let mut f = f.borrow_mut();
            if f.as_deref() == Some(name.as_str()) {
                *f = None;
                true
            } else {
                false
            }
        });
        TRACE.with(|t| t.borrow_mut().push(Tr::Fire(name, snap)));
        if fail {
            return Err(rust_rule_engine::RuleEngineError::EvaluationError { message: "injected action failure".into() });
        }
        Ok(())
    });
    let facts = case.store.to_facts();

    // ---- shadow state
    let n = case.rules.len();
    // rules currently in the knowledge base, in the order they were added
    let mut kb_order: Vec<usize> = (0..n).collect();
    let compute_order = |kb_order: &Vec<usize>| -> (Vec<usize>, BTreeMap<String, usize>) {
        let mut order: Vec<usize> = kb_order.clone();
        order.sort_by_key(|&i| (std::cmp::Reverse(case.rules[i].salience), kb_order.iter().position(|x| *x == i).unwrap_or(usize::MAX)));
        let rank_of = order.iter().enumerate().map(|(rk, &i)| (case.rules[i].ast.name.clone(), rk)).collect();
        (order, rank_of)
    };
    let (mut order, mut rank_of) = compute_order(&kb_order);
    let idx_of: BTreeMap<String, usize> = case.rules.iter().enumerate().map(|(i, r)| (r.ast.name.clone(), i)).collect();
    let mut enabled: Vec<bool> = case.rules.iter().map(|r| r.enabled).collect();
    let mut focus: BTreeSet<String> = BTreeSet::new();
    focus.insert(engine.get_active_agenda_group().to_string());
    // the focus stack as the API documents it: giving a group the focus moves it to the top,
    // pop returns to the group below (never below MAIN), clear leaves only MAIN
    let mut stack: Vec<String> = vec!["MAIN".to_string()];
    fn stack_focus(stack: &mut Vec<String>, g: &str) {
        stack.retain(|x| x != g);
        stack.push(g.to_string());
    }
    let mut noloop_fired: BTreeSet<String> = BTreeSet::new();
    let mut ever_fired: BTreeSet<String> = BTreeSet::new();
    // lock-on-active: firings since the last (possible) activation of the rule's group, and how that activation happened
    let mut loa_count: BTreeMap<String, u32> = BTreeMap::new();
    let mut last_activation: BTreeMap<String, &'static str> = BTreeMap::new();
    // groups activated through activate_agenda_group / ActivateAgendaGroup (queued inside the engine)
    let mut activated_by_queueing_api: BTreeSet<String> = BTreeSet::new();
    let mut current: Store = case.store.clone();
    let mut execs_since_noloop_reset: BTreeMap<String, u64> = BTreeMap::new();
    let mut exec_no: u64 = 0;

    let activate = |g: &str, how: &'static str, loa_count: &mut BTreeMap<String, u32>, last_activation: &mut BTreeMap<String, &'static str>| {
        for r in &case.rules {
            if group_of(r) == g {
                loa_count.insert(r.ast.name.clone(), 0);
            }
        }
        last_activation.insert(g.to_string(), how);
    };

    for (ci, call) in case.calls.iter().enumerate() {
        let mut exec_t: Option<Option<i64>> = None; // Some(Some(t)) at time, Some(None) = now
        match call {
            Call::SetFocus(g) => {
                engine.set_agenda_focus(g);
                let got = engine.get_active_agenda_group().to_string();
                if &got != g {
                    return (Some(("focus-call-not-honoured", "set_agenda_focus".into(), format!("call #{}: after set_agenda_focus({:?}) the active group is {:?}", ci, g, got))), obs);
                }
                focus = [got].into_iter().collect();
                stack_focus(&mut stack, g);
                activate(g, "set_agenda_focus", &mut loa_count, &mut last_activation);
            }
            Call::Activate(g) => {
                engine.activate_agenda_group(g.clone());
                let got = engine.get_active_agenda_group().to_string();
                if &got != g {
                    return (Some(("focus-call-not-honoured", "activate_agenda_group".into(), format!("call #{}: after activate_agenda_group({:?}) the active group is {:?}", ci, g, got))), obs);
                }
                focus = [got].into_iter().collect();
                activated_by_queueing_api.insert(g.clone());
                stack_focus(&mut stack, g);
                activate(g, "activate_agenda_group", &mut loa_count, &mut last_activation);
            }
            Call::Pop => {
                let _ = engine.pop_agenda_focus();
                let got = engine.get_active_agenda_group().to_string();
                if stack.len() > 1 {
                    stack.pop();
                }
                if stack.last() != Some(&got) {
                    return (
                        Some((
                            "focus-stack",
                            "pop-returns-to-the-wrong-group".into(),
                            format!("call #{}: pop_agenda_focus() made {:?} the active group; the focus history leaves the stack {:?}", ci, got, stack),
                        )),
                        obs,
                    );
                }
                // returning to a group is not an activation of it (O5): the lock stays
                focus = [got].into_iter().collect();
            }
            Call::Clear => {
                engine.clear_agenda_focus();
                let got = engine.get_active_agenda_group().to_string();
                if got != "MAIN" {
                    return (Some(("focus-call-not-honoured", "clear_agenda_focus".into(), format!("call #{}: after clear_agenda_focus() the active group is {:?}", ci, got))), obs);
                }
                focus = [got].into_iter().collect();
                stack = vec!["MAIN".to_string()];
            }
            Call::ResetNoLoop => {
                engine.reset_no_loop_tracking();
                noloop_fired.clear();
                execs_since_noloop_reset.clear();
            }
            Call::SetEnabled(i, b) => {
                if *i < n {
                    let _ = engine.knowledge_base().set_rule_enabled(&case.rules[*i].ast.name, *b);
                    enabled[*i] = *b;
                }
            }
            Call::ReplaceKb => {
                let fresh = KnowledgeBase::new("verif");
                let rev: Vec<usize> = kb_order.iter().rev().copied().collect();
                let mut ok = true;
                for i in &rev {
                    ok &= fresh.add_rule(built[*i].clone()).is_ok();
                }
                if ok {
                    *engine.knowledge_base_mut() = fresh;
                    kb_order = rev;
                    for i in &kb_order {
                        enabled[*i] = case.rules[*i].enabled;
                    }
                    (order, rank_of) = compute_order(&kb_order);
                    obs.kb_replacements += 1;
                }
            }
            Call::RemoveRule(i) => {
                if *i < n && kb_order.contains(i) {
                    let _ = engine.knowledge_base().remove_rule(&case.rules[*i].ast.name);
                    kb_order.retain(|x| x != i);
                    (order, rank_of) = compute_order(&kb_order);
                }
            }
            Call::ReAddRule(i) => {
                if *i < n && !kb_order.contains(i) {
                    if engine.knowledge_base().add_rule(built[*i].clone()).is_ok() {
                        kb_order.push(*i);
                        enabled[*i] = case.rules[*i].enabled;
                        (order, rank_of) = compute_order(&kb_order);
                    }
                }
            }
            Call::ExecAt(t) => exec_t = Some(Some(*t)),
            Call::ExecNow | Call::ExecCallback => exec_t = Some(None),
            Call::ExecFailing(i) => {
                if *i < n {
                    let a = &case.rules[*i].ast.attrs;
                    if !a.no_loop && !a.lock_on_active && a.activation_group.is_none() {
                        FAIL_RULE.with(|f| *f.borrow_mut() = Some(case.rules[*i].ast.name.clone()));
                    }
                }
                exec_t = Some(None);
            }
            Call::ExecSlow => {
                if let Some(t) = case.timeout_ms {
                    SLOW_MS.with(|s| s.set(t + 60));
                    obs.slow_calls += 1;
                }
                exec_t = Some(None);
            }
            Call::WorkflowStep(g) => {
                // set focus to g, then execute at the current time
                focus = [g.clone()].into_iter().collect();
                stack_focus(&mut stack, g);
                activate(g, "execute_workflow_step", &mut loa_count, &mut last_activation);
                exec_t = Some(None);
            }
        }
        let Some(t) = exec_t else { continue };
        exec_no += 1;
        obs.exec_calls += 1;
        // ---- run, collecting the trace
        TRACE.with(|tr| tr.borrow_mut().clear());
        let _ = verif_hooks::take_events();
        let step_bound = case.max_cycles + 1;
        let fire_bound = case.max_cycles * n.max(1) + 1;
        verif_hooks::set_event_observer(Some(Box::new(move |ev| {
            if let Event::AgendaFocus { group } = ev {
                TRACE.with(|tr| tr.borrow_mut().push(Tr::Focus(group.clone())));
                return;
            }
            let (p, f) = TRACE.with(|tr| {
                let mut tr = tr.borrow_mut();
                tr.push(Tr::Pass);
                (tr.iter().filter(|e| matches!(e, Tr::Pass)).count(), tr.iter().filter(|e| !matches!(e, Tr::Focus(_))).count())
            });
            if p > step_bound || f > step_bound + fire_bound + 2 {
                std::panic::panic_any(StepBound);
            }
        })));
        let res = pan::catch_frames(|| match (call, t) {
            (Call::WorkflowStep(g), _) => engine.execute_workflow_step(g, &facts).map(|_| ()),
            (Call::ExecCallback, _) => engine.execute_with_callback(&facts, |_name, _facts| {}).map(|_| ()),
            (Call::ExecFailing(i), _) if i % 2 == 1 => engine.execute_with_callback(&facts, |_name, _facts| {}).map(|_| ()),
            (_, Some(ts)) => engine.execute_at_time(&facts, to_dt(ts)).map(|_| ()),
            (_, None) => engine.execute(&facts).map(|_| ()),
        });
        verif_hooks::set_event_observer(None);
        let _ = verif_hooks::take_events();
        let trace: Vec<Tr> = TRACE.with(|tr| std::mem::take(&mut *tr.borrow_mut()));
        if FAIL_RULE.with(|f| f.borrow_mut().take()).is_none() && matches!(call, Call::ExecFailing(_)) && matches!(res, Ok(Err(_))) {
            obs.injected_failures += 1;
        }
        match &res {
            Ok(Ok(())) => {}
            Ok(Err(e)) => {
                obs.exec_err += 1;
                if format!("{}", e).contains("timeout") {
                    obs.timeout_errs += 1;
                }
            }
            Err(p) => {
                if trace.iter().filter(|e| matches!(e, Tr::Pass)).count() > step_bound {
                    // C03 owns termination; nothing more to judge here
                    return (None, obs);
                }
                return (
                    Some(("panic", format!("{}|{}", p.class(), p.frame), format!("call #{} panicked: {} at {}:{}", ci, p.msg, p.file, p.line))),
                    obs,
                );
            }
        }
        if !trace.iter().any(|e| matches!(e, Tr::Pass)) && trace.iter().any(|e| matches!(e, Tr::Fire(..))) {
            obs.hook_missing = true;
            return (None, obs);
        }
        // `t_eff`: the evaluation instant; "now" is decades before every generated window
        let t_eff: i64 = t.unwrap_or(T0 - 1000 * DAY);

        // ---- replay the trace through the clause monitors
        let mut last_rank: isize = -1;
        let mut last_salience: Option<i32> = None;
        let mut actgroup_fired: BTreeMap<String, String> = BTreeMap::new();
        // per pass: (rank, state after, focus after) of each firing, for the activation-group "highest" clause
        let mut pass_firings: Vec<(usize, Store, BTreeSet<String>)> = Vec::new();
        let mut pass_start_state = current.clone();
        let mut pass_start_focus = focus.clone();
        let mut pending_focus: Option<String> = None;
        // the engine's own focus as its agenda manager reports it through the hook: `eng_focus` is
        // the latest value seen in this run, `focus_window` every value the focus held since the
        // previous firing or pass head (a rule passed its gate somewhere in that stretch; its own
        // ActivateAgendaGroup actions run before its Trace action reports the firing)
        let mut eng_focus: Option<String> = None;
        let mut focus_window: BTreeSet<String> = focus.clone();
        for ev in &trace {
            match ev {
                Tr::Focus(g) => {
                    obs.focus_events += 1;
                    eng_focus = Some(g.clone());
                    focus_window.insert(g.clone());
                }
                Tr::Pass => {
                    if let Some(e) = &eng_focus {
                        focus_window = [e.clone()].into_iter().collect();
                    }
                    obs.passes += 1;
                    last_rank = -1;
                    last_salience = None;
                    actgroup_fired.clear();
                    pass_firings.clear();
                    if let Some(g) = pending_focus.take() {
                        focus = [g].into_iter().collect();
                    }
                    pass_start_state = current.clone();
                    pass_start_focus = focus.clone();
                }
                Tr::Fire(name, snap) => {
                    obs.firings += 1;
                    let (Some(&rank), Some(&ri)) = (rank_of.get(name), idx_of.get(name)) else {
                        return (Some(("unknown-rule-fired", "general".into(), format!("a rule named {:?} fired", name))), obs);
                    };
                    let r = &case.rules[ri];
                    let g = group_of(r);
                    // O1 order within the pass
                    if (rank as isize) <= last_rank {
                        let cause = if rank as isize == last_rank {
                            "same-rule-twice-in-a-pass"
                        } else if last_salience == Some(r.salience) {
                            "equal-salience-insertion-order"
                        } else {
                            "different-salience"
                        };
                        return (
                            Some((
                                "order-within-pass",
                                cause.into(),
                                format!("call #{}: rule {} (salience {}, rank {}) fired after a rule of rank {} in the same pass", ci, name, r.salience, rank, last_rank),
                            )),
                            obs,
                        );
                    }
                    if last_salience == Some(r.salience) {
                        obs.tie_pairs_seen += 1;
                    }
                    // O2 disabled / dates / focus
                    if !enabled[ri] {
                        return (Some(("disabled-rule-fired", "general".into(), format!("call #{}: disabled rule {} fired", ci, name))), obs);
                    }
                    if let Some(e) = r.effective {
                        if t_eff < e {
                            return (
                                Some(("fired-outside-date-window", "before-effective".into(), format!("call #{}: rule {} fired at {} before its effective date {}", ci, name, t_eff, e))),
                                obs,
                            );
                        }
                    }
                    if let Some(x) = r.expires {
                        if t_eff > x {
                            return (
                                Some(("fired-outside-date-window", "after-expires".into(), format!("call #{}: rule {} fired at {} after its expiry date {}", ci, name, t_eff, x))),
                                obs,
                            );
                        }
                    }
                    if r.effective.is_some() || r.expires.is_some() {
                        obs.dated_firings += 1;
                    }
                    if eng_focus.is_some() && !focus_window.contains(&g) {
                        return (
                            Some((
                                "fired-outside-focused-group",
                                "engine-focus-had-moved-on-within-the-pass".into(),
                                format!(
                                    "call #{}: rule {} of agenda group {:?} fired although the engine's agenda manager had moved the focus to {:?} before the previous firing ended (focus values since then: {:?})",
                                    ci, name, g, eng_focus, focus_window
                                ),
                            )),
                            obs,
                        );
                    }
                    if let Some(e) = &eng_focus {
                        focus_window = [e.clone()].into_iter().collect();
                    }
                    if !focus.contains(&g) {
                        let cause = if activated_by_queueing_api.contains(&g) {
                            "group-was-activated-earlier-and-focus-moved-on-since"
                        } else {
                            "general"
                        };
                        return (
                            Some((
                                "fired-outside-focused-group",
                                cause.into(),
                                format!("call #{}: rule {} of agenda group {:?} fired while the focused group was {:?}", ci, name, g, focus),
                            )),
                            obs,
                        );
                    }
                    if r.ast.attrs.agenda_group.is_some() {
                        obs.grouped_firings += 1;
                    }
                    // O3 no-loop
                    if r.ast.attrs.no_loop {
                        obs.noloop_firings += 1;
                        if noloop_fired.contains(name) {
                            let cause = if execs_since_noloop_reset.get(name) == Some(&exec_no) { "within-one-execute" } else { "across-execute-calls" };
                            return (
                                Some(("no-loop-rule-fired-twice", cause.into(), format!("call #{}: no-loop rule {} fired again without a reset of the tracking", ci, name))),
                                obs,
                            );
                        }
                        noloop_fired.insert(name.clone());
                        execs_since_noloop_reset.insert(name.clone(), exec_no);
                    }
                    // O4 activation groups
                    if let Some(ag) = &r.ast.attrs.activation_group {
                        obs.actgroup_firings += 1;
                        if let Some(prev) = actgroup_fired.get(ag) {
                            return (
                                Some((
                                    "activation-group-fired-twice-in-a-pass",
                                    "general".into(),
                                    format!("call #{}: rules {} and {} of activation group {:?} both fired in one pass", ci, prev, name, ag),
                                )),
                                obs,
                            );
                        }
                        // a higher-ranked member that was certainly eligible and true at its turn?
                        for &hi in order.iter().take(rank) {
                            let h = &case.rules[hi];
                            if h.ast.attrs.activation_group.as_ref() != Some(ag) {
                                continue;
                            }
                            let hrank = rank_of[&h.ast.name];
                            // state and focus at h's turn
                            let (state, foc) = match pass_firings.iter().rev().find(|(rk, _, _)| *rk < hrank) {
                                Some((_, s, f)) => (s.clone(), f.clone()),
                                None => (pass_start_state.clone(), pass_start_focus.clone()),
                            };
                            let certainly_eligible = enabled[hi]
                                && h.effective.map_or(true, |e| t_eff >= e)
                                && h.expires.map_or(true, |x| t_eff < x)
                                && foc.len() == 1
                                && foc.contains(&group_of(h))
                                && !(h.ast.attrs.no_loop && noloop_fired.contains(&h.ast.name))
                                && !(h.ast.attrs.lock_on_active && ever_fired.contains(&h.ast.name));
                            if certainly_eligible && eval_cond(&h.ast.cond, &state) == T3::True {
                                return (
                                    Some((
                                        "activation-group-not-highest",
                                        "general".into(),
                                        format!(
                                            "call #{}: {} fired for activation group {:?} although higher-ranked member {} was eligible and its condition `{}` held on {}",
                                            ci, name, ag, h.ast.name, fmt_cond(&h.ast.cond), state.to_json()
                                        ),
                                    )),
                                    obs,
                                );
                            }
                        }
                        actgroup_fired.insert(ag.clone(), name.clone());
                    }
                    // O5 lock-on-active
                    if r.ast.attrs.lock_on_active {
                        obs.loa_firings += 1;
                        let c = loa_count.entry(name.clone()).or_insert(0);
                        if *c >= 1 {
                            let how = last_activation.get(&g).copied().unwrap_or("initial-focus");
                            return (
                                Some((
                                    "lock-on-active-fired-twice-per-activation",
                                    format!("last-activation-by:{}", how),
                                    format!("call #{}: lock-on-active rule {} of group {:?} fired a second time since the last activation of its group (by {})", ci, name, g, how),
                                )),
                                obs,
                            );
                        }
                        *c += 1;
                    }
                    // effects of the firing on the shadow
                    ever_fired.insert(name.clone());
                    last_rank = rank as isize;
                    last_salience = Some(r.salience);
                    for a in &r.ast.actions {
                        if let Action::ActivateAgendaGroup(ng) = a {
                            // immediately or from the next pass on: both readings are accepted
                            focus.insert(ng.clone());
                            pending_focus = Some(ng.clone());
                            activated_by_queueing_api.insert(ng.clone());
                            stack_focus(&mut stack, ng);
                            obs.focus_changes_by_action += 1;
                            activate(ng, "ActivateAgendaGroup-action", &mut loa_count, &mut last_activation);
                        }
                    }
                    if let Ok(s) = snap {
                        current = s.clone();
                    }
                    pass_firings.push((rank, current.clone(), focus.clone()));
                }
            }
        }
        // ---- call boundary: re-read the focus from the engine
        let got = engine.get_active_agenda_group().to_string();
        if matches!(res, Ok(Ok(()))) && stack.last() != Some(&got) {
            return (
                Some((
                    "focus-stack",
                    "active-group-after-execute-is-not-the-top-of-the-stack".into(),
                    format!("call #{}: after the call the active group is {:?}; set/activate calls and ActivateAgendaGroup actions so far leave the stack {:?}", ci, got, stack),
                )),
                obs,
            );
        }
        if !matches!(res, Ok(Ok(()))) {
            // an aborted run may have applied only some of its actions: resynchronise
            stack_focus(&mut stack, &got);
        }
        focus = [got.clone()].into_iter().collect();
        if let Call::WorkflowStep(_) = call {
            activate(&got, "execute_workflow_step", &mut loa_count, &mut last_activation);
        }
        if let Ok(s) = Store::from_engine_map(&facts.get_all_facts()) {
            current = s;
        }
        for (i, e) in enabled.iter().enumerate() {
            if !*e && trace.iter().any(|t| matches!(t, Tr::Fire(nm, _) if nm == &case.rules[i].ast.name)) {
                obs.blocked_disabled += 0;
            }
        }
    }
    (None, obs)
}

fn viol(case: &Case, clause: &str, cause: &str, detail: &str) -> Violation {
    Violation { clause: clause.into(), sig: format!("C02|{}|{}", clause, cause), detail: detail.into(), case: case.to_json() }
}

fn fails_same(case: &Case, clause: &str) -> bool {
    matches!(pan::catch(|| judge(case)), Ok((Some((cl, _, _)), _)) if cl == clause)
}

fn shrink(case: &Case, clause: &'static str) -> Case {
    let mut best = case.clone();
    // calls
    {
        let b = best.clone();
        let mut f = |cs: &[Call]| fails_same(&Case { calls: cs.to_vec(), ..b.clone() }, clause);
        best.calls = shrink_list(&best.calls.clone(), &mut f);
    }
    // rules (SetEnabled indices refer to positions: only drop rules when no SetEnabled call remains)
    if !best.calls.iter().any(|c| matches!(c, Call::SetEnabled(..) | Call::RemoveRule(_) | Call::ReAddRule(_))) {
        let b = best.clone();
        let mut f = |rs: &[R]| !rs.is_empty() && fails_same(&Case { rules: rs.to_vec(), ..b.clone() }, clause);
        best.rules = shrink_list(&best.rules.clone(), &mut f);
    }
    // attributes that are not needed
    for i in 0..best.rules.len() {
        for k in 0..6 {
            let mut c = best.clone();
            let a = &mut c.rules[i];
            match k {
                0 => a.ast.attrs.no_loop = false,
                1 => a.ast.attrs.lock_on_active = false,
                2 => a.ast.attrs.activation_group = None,
                3 => {
                    a.effective = None;
                    a.expires = None
                }
                4 => a.salience = 0,
                _ => a.ast.attrs.agenda_group = None,
            }
            if fails_same(&c, clause) {
                best = c;
            }
        }
    }
    best
}

fn record(case: &Case, st: &mut Stats) {
    st.eval();
    let (v, obs) = match pan::catch_frames(|| judge(case)) {
        Ok(r) => r,
        Err(p) => {
            st.inconclusive(format!("harness panic in judge: {} at {}:{}", p.msg, p.file, p.line));
            return;
        }
    };
    if obs.setup_failed {
        st.count("skipped_setup_failed");
        return;
    }
    if obs.hook_missing {
        st.inconclusive("pass markers (hook H2) were not observed: order-within-pass clause undecided");
    }
    st.add("firings_observed", obs.firings);
    st.add("passes_observed", obs.passes);
    st.add("execute_calls", obs.exec_calls);
    st.add("execute_returned_err", obs.exec_err);
    st.add("execute_calls_with_a_slow_first_action", obs.slow_calls);
    st.add("knowledge_base_replaced_wholesale", obs.kb_replacements);
    st.add("execute_calls_that_returned_err_in_mid_pass_on_an_injected_action_failure", obs.injected_failures);
    if obs.dates_given_as_text {
        st.count("cases_whose_date_windows_went_through_the_rfc3339_text_builders(offsets Z,+02:00,-05:00,+05:30,+14:00,-12:00,+00:01)");
    }
    st.add("execute_calls_that_ended_on_the_timeout_error", obs.timeout_errs);
    st.add("equal_salience_successive_firings", obs.tie_pairs_seen);
    st.add("focus_changes_by_ActivateAgendaGroup_action", obs.focus_changes_by_action);
    st.add("agenda_focus_events_seen_inside_runs_through_the_hook", obs.focus_events);
    st.add("lock_on_active_firings", obs.loa_firings);
    st.add("no_loop_firings", obs.noloop_firings);
    st.add("activation_group_firings", obs.actgroup_firings);
    st.add("dated_rule_firings", obs.dated_firings);
    st.add("agenda_group_rule_firings", obs.grouped_firings);
    if obs.firings >= 2 && obs.passes >= 2 {
        st.nontrivial(hash_of(&format!("{:?}", case)));
        st.sample(|| case.to_json());
    }
    if let Some((clause, _, _)) = v {
        let c = shrink(case, clause);
        if let Ok((Some((cl, cause, detail)), _)) = pan::catch(|| judge(&c)) {
            st.violation(viol(&c, cl, &cause, &detail));
        }
    }
}

// ------------------------------------------------------------------ generation

const FLAGS: [&str; 4] = ["f0", "f1", "f2", "f3"];
const GROUPS: [&str; 3] = ["G1", "G2", "G3"];

fn flag_leaf(rng: &mut Rng) -> Cond {
    Cond::Leaf(Leaf { lhs: Lhs::Field(rng.pick(&FLAGS).to_string()), op: Op::Eq, rhs: Rhs::Lit(V::Bool(rng.bool())) })
}

fn gen_rule(rng: &mut Rng, idx: usize, n_groups: usize) -> R {
    let cond = match rng.below(4) {
        0 => Cond::And(Box::new(flag_leaf(rng)), Box::new(flag_leaf(rng))),
        1 => Cond::Or(Box::new(flag_leaf(rng)), Box::new(flag_leaf(rng))),
        _ => flag_leaf(rng),
    };
    let mut actions = Vec::new();
    for _ in 0..rng.below(3) {
        actions.push(Action::Set { target: rng.pick(&FLAGS).to_string(), rhs: Rhs::Lit(V::Bool(rng.bool())) });
    }
    if n_groups > 0 && rng.chance(1, 4) {
        actions.push(Action::ActivateAgendaGroup(GROUPS[rng.below(n_groups)].to_string()));
    }
    let window = match rng.below(8) {
        0 => (Some(T0), Some(T0 + 2 * DAY)),
        1 => (Some(T0 + DAY), None),
        2 => (None, Some(T0 + DAY)),
        3 => (Some(T0 + DAY), Some(T0 + 2 * DAY)),
        // boundaries inside a second
        4 => (Some(T0 + DAY + 500), Some(T0 + 2 * DAY + 500)),
        5 => (Some(T0 + 500), Some(T0 + DAY + 250)),
        _ => (None, None),
    };
    R {
        ast: RuleAst {
            name: format!("R{}", idx),
            quoted_name: true,
            description: None,
            attrs: Attrs {
                salience: None,
                no_loop: rng.bool(),
                lock_on_active: rng.bool(),
                agenda_group: if n_groups > 0 && rng.chance(2, 3) { Some(GROUPS[rng.below(n_groups)].to_string()) } else { None },
                activation_group: if rng.bool() { Some(rng.pick(&["X", "Y"]).to_string()) } else { None },
                date_effective: None,
                date_expires: None,
            },
            cond,
            actions,
        },
        salience: *rng.pick(&[-2, -1, 0, 0, 1, 1, i32::MAX, i32::MIN]),
        effective: window.0,
        expires: window.1,
        enabled: rng.chance(7, 8),
    }
}

fn gen_case(rng: &mut Rng) -> Case {
    // one case in 25 is wide: 21..=32 rules (many equal saliences in one list; sorting
    // algorithms change behaviour with the length of the list)
    let n = if rng.chance(1, 25) { 21 + rng.below(12) } else { 2 + rng.below(7) };
    let n_groups = rng.below(4);
    let rules: Vec<R> = (0..n).map(|i| gen_rule(rng, i, n_groups)).collect();
    let mut store = Store::new();
    for f in FLAGS {
        store.0.insert(f.to_string(), V::Bool(rng.bool()));
    }
    let n_calls = 1 + rng.below(7);
    let mut calls = Vec::new();
    let grp = |rng: &mut Rng| -> String {
        if n_groups == 0 || rng.chance(1, 5) { "MAIN".to_string() } else { GROUPS[rng.below(n_groups)].to_string() }
    };
    for _ in 0..n_calls {
        let c = match rng.below(20) {
            0 => Call::ExecCallback,
            1..=7 => {
                // a boundary instant, then an offset from it: exactly at, one millisecond / one
                // second either side, and inside the same second as a fractional boundary
                let base = *rng.pick(&[T0, T0 + DAY, T0 + 2 * DAY]);
                let off = *rng.pick(&[-SEC, -1, 0, 0, 1, SEC, 200, 250, 251, 499, 500, 501, 700, 999, 3 * DAY]);
                Call::ExecAt(base + off)
            }
            8 => match rng.below(3) {
                0 => Call::ExecNow,
                1 => Call::ExecCallback,
                _ => {
                    let ok: Vec<usize> = (0..n).filter(|i| {
                        let a = &rules[*i].ast.attrs;
                        !a.no_loop && !a.lock_on_active && a.activation_group.is_none()
                    }).collect();
                    if ok.is_empty() { Call::ExecNow } else { Call::ExecFailing(*rng.pick(&ok)) }
                }
            },
            9..=11 => Call::SetFocus(grp(rng)),
            12 => Call::Pop,
            13 => Call::Clear,
            14..=15 => Call::Activate(grp(rng)),
            16 => Call::ResetNoLoop,
            17 => Call::SetEnabled(rng.below(n), rng.bool()),
            18 => match rng.below(5) {
                0 | 1 => Call::RemoveRule(rng.below(n)),
                2 | 3 => Call::ReAddRule(rng.below(n)),
                _ => Call::ReplaceKb,
            },
            _ => Call::WorkflowStep(grp(rng)),
        };
        calls.push(c);
    }
    if !calls.iter().any(|c| matches!(c, Call::ExecAt(_) | Call::ExecNow | Call::ExecCallback | Call::WorkflowStep(_))) {
        calls.push(Call::ExecAt(T0 + DAY));
    }
    let dates_as_text_at_offset_min = if rng.chance(1, 4) { Some(*rng.pick(&[0i32, 120, -300, 330, 840, -720, 1])) } else { None };
    Case { rules, store, max_cycles: 1 + rng.below(5), calls, timeout_ms: None, dates_as_text_at_offset_min }
}

/// A history on an engine WITH a timeout in which one execute ends on the timeout error path
/// (its first action outlasts the timeout; the check sits at the head of the next pass), between
/// ordinary calls: whatever the engine remembers across calls (no-loop marks, focus, locks) must
/// survive that path like any other.
fn gen_timeout_case(rng: &mut Rng) -> Case {
    let mut c = gen_case(rng);
    c.timeout_ms = Some(40);
    c.max_cycles = 3 + rng.below(3);
    let plain = |rng: &mut Rng| if rng.bool() { Call::ExecNow } else { Call::ExecCallback };
    let mut calls = vec![plain(rng)];
    if rng.bool() {
        calls.push(plain(rng));
    }
    calls.push(Call::ExecSlow);
    calls.push(plain(rng));
    if rng.bool() {
        calls.push(plain(rng));
    }
    c.calls = calls;
    // undated, enabled rules in MAIN so that the ordinary calls do fire them
    for r in c.rules.iter_mut() {
        r.effective = None;
        r.expires = None;
        r.enabled = true;
        r.ast.attrs.agenda_group = None;
    }
    c
}

/// Exhaustive: 3 rules with fixed conditions/actions, every subset of the five attribute kinds
/// on each rule (2 rules vary, the third is the activator), one fixed call history.
fn attribute_grid() -> Vec<Case> {
    let mut out = Vec::new();
    let mk = |name: &str, cond_flag: &str, act: Vec<Action>| RuleAst {
        name: name.into(),
        quoted_name: true,
        description: None,
        attrs: Attrs::default(),
        cond: Cond::Leaf(Leaf { lhs: Lhs::Field(cond_flag.into()), op: Op::Eq, rhs: Rhs::Lit(V::Bool(true)) }),
        actions: act,
    };
    for mask_a in 0..32u32 {
        for mask_b in 0..32u32 {
            let mut rules = Vec::new();
            for (nm, mask, flag) in [("A", mask_a, "f0"), ("B", mask_b, "f1")] {
                let mut ast = mk(nm, flag, vec![Action::Set { target: "f2".into(), rhs: Rhs::Lit(V::Bool(true)) }]);
                ast.attrs.no_loop = mask & 1 != 0;
                ast.attrs.lock_on_active = mask & 2 != 0;
                ast.attrs.agenda_group = if mask & 4 != 0 { Some("G1".into()) } else { None };
                ast.attrs.activation_group = if mask & 8 != 0 { Some("X".into()) } else { None };
                let dated = mask & 16 != 0;
                rules.push(R {
                    ast,
                    salience: if nm == "A" { 1 } else { 1 },
                    effective: if dated { Some(T0) } else { None },
                    expires: if dated { Some(T0 + DAY) } else { None },
                    enabled: true,
                });
            }
            rules.push(R {
                ast: mk("ACT", "f2", vec![Action::ActivateAgendaGroup("G1".into())]),
                salience: 0,
                effective: None,
                expires: None,
                enabled: true,
            });
            let mut store = Store::new();
            for f in ["f0", "f1"] {
                store.0.insert(f.into(), V::Bool(true));
            }
            store.0.insert("f2".into(), V::Bool(false));
            out.push(Case {
                rules,
                store,
                max_cycles: 3,
                calls: vec![Call::ExecAt(T0 + 10), Call::SetFocus("G1".into()), Call::ExecAt(T0 + 10), Call::ExecAt(T0 + 2 * DAY), Call::Clear, Call::ExecAt(T0 + 10), Call::ResetNoLoop, Call::ExecCallback, Call::ExecCallback],
                timeout_ms: None,
                dates_as_text_at_offset_min: None,
            });
        }
    }
    out
}

struct C02;

impl Check for C02 {
    fn id(&self) -> &'static str {
        "C02"
    }
    fn rule(&self) -> String {
        "2-8 rules (one case in 25: 21-32 rules) over boolean flags that the actions flip (self- and mutually triggering), salience from {-2,-1,0,0,1,1,i32::MAX,i32::MIN} (ties on purpose), no-loop / lock-on-active with probability 1/2, 0-3 agenda groups, 2 activation groups, date windows around three instants, some with boundaries inside a second (instants are milliseconds; evaluation exactly at, one millisecond and one second before and after each boundary, and at several offsets inside the boundary's own second), 1/8 disabled, ActivateAgendaGroup actions; histories of 1-6 calls (execute_at_time, execute, execute_with_callback, set/pop/clear focus, activate_agenda_group, reset_no_loop_tracking, set_rule_enabled, remove_rule / re-add of a removed rule, wholesale replacement of the knowledge base through knowledge_base_mut() by a new one holding the present rules in reversed order, execute_workflow_step) on one engine, max_cycles 1-5; plus a few histories (3 per shard quick, 40 thorough) on an engine with a 40 ms timeout in which one execute ends on the timeout error path (its first action sleeps past the timeout) between ordinary calls; plus the exhaustive grid of all 32x32 attribute subsets on two rules with a fixed activator rule and call history. Non-trivial: at least 2 firings over at least 2 passes; distinct by the whole case.".into()
    }
    fn assumptions(&self) -> Vec<String> {
        vec![
            "attributes are set on the parsed Rule objects (not through GRL attribute syntax) so that the check is independent of C04's parser findings".into(),
            "the focused group at a call boundary is what get_active_agenda_group() reports; inside a run an ActivateAgendaGroup action may take effect immediately or at the next pass (both accepted), but the moment is the engine's own: hook events from AgendaManager::set_focus / pop_focus / clear_focus give the focus the engine holds, and a rule may only fire if its group held the focus at some moment since the previous firing or pass head".into(),
            "focus stack as documented on the API (set/activate moves the group to the top, pop returns to the group below but never below MAIN, clear leaves MAIN): after pop and after every completed execute the reported active group must be the top of that stack".into(),
            "date windows: firing strictly before `effective` or strictly after `expires` is a violation; exactly at `expires` is not judged".into(),
            "lock-on-active: an activation of a group is one set_agenda_focus / activate_agenda_group / execute_workflow_step call or one executed ActivateAgendaGroup action naming it (DESIGN O5); focus returning to a group through pop/clear is not an activation".into(),
            "activation-group 'highest' clause only judges higher-ranked members that were certainly eligible (enabled, inside the window, focus unambiguous, never blocked)".into(),
        ]
    }
    fn devopt_scale(&self) -> Option<f64> {
        Some(0.25)
    }
    fn explore(&self, cli: &Cli, st: &mut Stats) {
        let grid = attribute_grid();
        let g = &grid;
        let nthreads = cli.threads;
        shards(cli, nthreads, st, |shard, _rng, st| {
            for (i, c) in g.iter().enumerate() {
                if i % nthreads == shard {
                    record(c, st);
                }
            }
        });
        st.exhaustive.push("all 32x32 attribute subsets (no-loop, lock-on-active, agenda group, activation group, date window) on two equal-salience rules with a fixed activator rule and a fixed 9-call history".into());
        let per = cli.n(3_000, 150_000);
        shards(cli, nthreads, st, |_shard, rng, st| {
            for _ in 0..per {
                if cli.expired() {
                    st.count("stopped_by_time_budget");
                    break;
                }
                let c = gen_case(rng);
                record(&c, st);
            }
        });
        // histories with one execute that ends on the timeout error path (about 0.1 s each)
        let slow = cli.n(3, 40);
        shards(cli, nthreads, st, |_shard, rng, st| {
            for _ in 0..slow {
                if cli.expired() {
                    break;
                }
                let c = gen_timeout_case(rng);
                record(&c, st);
            }
        });
    }
    fn replay(&self, _cli: &Cli, case: &Json) -> Vec<Violation> {
        let Some(c) = Case::from_json(case) else {
            return vec![Violation { clause: "harness".into(), sig: "C02|harness|bad-case".into(), detail: "cannot decode case".into(), case: case.clone() }];
        };
        match judge(&c) {
            (Some((cl, cause, detail)), _) => vec![viol(&c, cl, &cause, &detail)],
            _ => vec![],
        }
    }
}

fn main() {
    run_main(C02)
}
