//! C15 — knowledge-base lookups, order and version stay consistent, sequentially and from
//! several threads.
//!
//! (1) Sequential step monitor: every sequence of the 25 mutating operations (4 names x 3
//!     saliences) up to a stated length, and random longer ones, against an ordered-list + version
//!     model of the statement; after the operations every read view is compared with the model.
//! (2) Concurrent history checker: 3 threads x 4 operations on one `Arc<KnowledgeBase>`, call and
//!     return stamped client-side from one atomic logical clock, every recorded history checked
//!     for linearizability against the same model (WGL search, memoised).
//! (3) Thorough tier: the same generator under Miri (`-Zmiri-many-seeds`) and in a
//!     ThreadSanitizer build (`/verif/miri`).

use rre_verif::*;
use std::collections::HashSet;
use std::sync::{Arc, Mutex};

#[path = "../c15_model.rs"]
mod c15_model;
#[path = "../c15_wide.rs"]
mod c15_wide;
#[path = "../dlwatch.rs"]
mod dlwatch;
#[path = "../sanit.rs"]
mod sanit;

use c15_model::*;

const THREADS: usize = 3;
const WIDE_NAMES: usize = 48;
/// a sequential child reports at most this many structural hashes of non-trivial cases
const CHILD_HASH_CAP: usize = 60_000;
const OPS_PER_THREAD: usize = 4;
const PERTURB_US: u64 = 200;
/// share of the soft wall-clock budget after which the native concurrent phase stops generating
const NATIVE_BUDGET_SHARE: f64 = 0.55;
/// executions of one program tried when shrinking / replaying a schedule-dependent violation
const SHRINK_TRIES: usize = 200;
const REPLAY_TRIES: usize = 30_000;
const MAX_REPORTED_PER_SHARD: usize = 12;
const MAX_CONC_REPORTED_PER_SHARD: usize = 1;

fn seq_case_json(ops: &[Op]) -> Json {
    seq_case_json_names(ops, 4)
}
fn seq_case_json_names(ops: &[Op], n_names: usize) -> Json {
    json!({"kind": "sequential", "names": n_names, "ops": ops.iter().map(|o| o.text()).collect::<Vec<_>>()})
}

fn violation(clause: &str, cause: &str, detail: &str, case: Json) -> Violation {
    Violation {
        clause: clause.to_string(),
        sig: format!("C15|{}|{}", clause, cause),
        detail: detail.to_string(),
        case,
    }
}

// ------------------------------------------------------------------------------------------
// sequences that also load rules through `add_rules_from_grl` (a batch of add_rule calls)
// ------------------------------------------------------------------------------------------

#[derive(Clone, Debug, PartialEq, Eq, Hash)]
enum GStep {
    Plain(Op),
    /// `add_rules_from_grl` of these (name, salience index) rules in this order: they are added
    /// one by one; the first duplicate name makes the call fail, what was added before it stays
    Grl(Vec<(u8, u8)>),
}

impl GStep {
    fn text(&self) -> String {
        match self {
            GStep::Plain(o) => o.text(),
            GStep::Grl(b) => format!("grl:{}", b.iter().map(|(n, s)| format!("{}/{}", NAMES[*n as usize], SALS[*s as usize])).collect::<Vec<_>>().join(",")),
        }
    }
    fn parse(t: &str) -> Option<GStep> {
        if let Some(rest) = t.strip_prefix("grl:") {
            let mut b = Vec::new();
            for item in rest.split(',') {
                let (n, s) = item.split_once('/')?;
                b.push((NAMES.iter().position(|x| *x == n)? as u8, SALS.iter().position(|x| x.to_string() == s)? as u8));
            }
            return Some(GStep::Grl(b));
        }
        Op::parse(t).map(GStep::Plain)
    }
}

fn grl_case_json(steps: &[GStep]) -> Json {
    json!({"kind": "sequential-with-grl-loads", "steps": steps.iter().map(|s| s.text()).collect::<Vec<_>>()})
}

/// Every view is compared with the model after every step; the version must have grown when a
/// step changed something and must not have moved when it changed nothing.
fn run_grl_steps(steps: &[GStep]) -> Option<(String, String, String)> {
    let kb = rust_rule_engine::KnowledgeBase::new("c15");
    let mut m = Model::new(kb.version());
    let mut reads = 0u64;
    let mut tag = 0u32;
    for (i, st) in steps.iter().enumerate() {
        let v_before = kb.version();
        let changed;
        match st {
            GStep::Plain(op) => {
                tag += 1;
                let res = exec(&kb, *op, tag);
                if let Res::Panic(c) = &res {
                    return Some(("operation-panicked".into(), c.clone(), format!("step {} {} panicked", i, st.text())));
                }
                let g0 = m.growth;
                if !m.apply(*op, tag, &res) {
                    return Some(("return-value".into(), "unexpected-result".into(), format!("step {} {} returned {}", i, st.text(), res.to_json())));
                }
                changed = m.growth > g0;
            }
            GStep::Grl(batch) => {
                let mut text = String::new();
                let mut tags = Vec::new();
                for (n, s) in batch {
                    // (the parser does not keep a description: rules loaded from text carry no tag)
                    tags.push(u32::MAX);
                    text.push_str(&format!("rule \"{}\" salience {} {{\n when x == 1\n then y = 1;\n}}\n", NAMES[*n as usize], SALS[*s as usize]));
                }
                let res = match std::panic::catch_unwind(std::panic::AssertUnwindSafe(|| kb.add_rules_from_grl(&text))) {
                    Ok(r) => r,
                    Err(_) => return Some(("operation-panicked".into(), "add_rules_from_grl".into(), format!("step {} {} panicked", i, st.text()))),
                };
                // the model: one add at a time, stop at the first duplicate
                let g0 = m.growth;
                let mut expect_ok = true;
                for ((n, s), t) in batch.iter().zip(&tags) {
                    if m.find(*n).is_some() {
                        expect_ok = false;
                        break;
                    }
                    m.apply(Op::Add { n: *n, s: *s }, *t, &Res::AddOk);
                }
                changed = m.growth > g0;
                let got_ok = matches!(res, Ok(k) if k == batch.len());
                if got_ok != expect_ok || (res.is_ok() && !got_ok) {
                    return Some((
                        if expect_ok { "return-value" } else { "duplicate-rejected-without-effect" }.into(),
                        if expect_ok { "grl-load-of-new-names-failed" } else { "grl-load-with-duplicate-name-reported-ok" }.into(),
                        format!("step {} {} returned {:?}", i, st.text(), res.map_err(|e| e.to_string())),
                    ));
                }
            }
        }
        let v_after = kb.version();
        if changed && v_after <= v_before {
            return Some(("version".into(), "unchanged-after-successful-change".into(), format!("step {} {} changed the store but the version went {} -> {}", i, st.text(), v_before, v_after)));
        }
        if !changed && v_after < v_before {
            return Some(("version".into(), "decreased".into(), format!("step {} {}: version went {} -> {}", i, st.text(), v_before, v_after)));
        }
        m.version_seen(v_after);
        if let Some((clause, cause, detail)) = observe_all(&kb, &m, 4, &mut reads) {
            let after_failed_load = matches!(st, GStep::Grl(_)) && !changed || matches!(st, GStep::Grl(b) if b.iter().any(|(n, _)| steps[..i].iter().any(|p| matches!(p, GStep::Plain(Op::Add { n: pn, .. }) if pn == n))));
            let cause = if after_failed_load { format!("{}|after-a-grl-load-that-hit-a-duplicate", cause) } else { cause };
            return Some((clause, cause, format!("after step {} {}: {}", i, st.text(), detail)));
        }
    }
    None
}

fn gen_grl_steps(rng: &mut Rng) -> Vec<GStep> {
    let len = 3 + rng.below(6);
    let nn = 3 + rng.below(2);
    (0..len)
        .map(|_| {
            let n = rng.below(nn) as u8;
            match rng.below(100) {
                0..=29 => GStep::Plain(Op::Add { n, s: pick_sal(rng) }),
                30..=59 => {
                    let k = 2 + rng.below(2);
                    GStep::Grl((0..k).map(|_| (rng.below(nn) as u8, pick_sal(rng))).collect())
                }
                60..=79 => GStep::Plain(Op::Remove { n }),
                80..=94 => GStep::Plain(Op::Enable { n, on: rng.bool() }),
                _ => GStep::Plain(Op::Clear),
            }
        })
        .collect()
}

fn check_grl_steps(steps: &[GStep], st: &mut Stats) {
    st.eval();
    st.count("seq_sequences_with_grl_batch_loads");
    if steps.iter().filter(|s| matches!(s, GStep::Grl(_))).count() >= 1 && steps.len() >= 4 {
        st.nontrivial(hash_of(&steps));
    }
    if let Some((clause, _, _)) = run_grl_steps(steps) {
        st.count("seq_failing_sequences");
        let mut fails = |ss: &[GStep]| matches!(run_grl_steps(ss), Some((c, _, _)) if c == clause);
        let small = shrink_list(steps, &mut fails);
        if let Some((cl, cause, detail)) = run_grl_steps(&small) {
            st.violation(violation(&cl, &cause, &detail, grl_case_json(&small)));
        }
    }
}

fn clone_case_json(steps: &[IStep]) -> Json {
    json!({"kind": "sequential-with-clones", "steps": steps.iter().map(|s| s.text()).collect::<Vec<_>>()})
}

/// 4..=12 steps over up to 3 instances: operations on the original, a clone (1-2 per history),
/// then operations on both sides.
fn gen_clone_steps(rng: &mut Rng) -> Vec<IStep> {
    let n = 4 + rng.below(9);
    let nn = 2 + rng.below(3);
    let mut insts = 1u8;
    let mut steps = Vec::new();
    for i in 0..n {
        if insts < 3 && i >= 1 && rng.chance(1, 4) {
            steps.push(IStep::Clone(rng.below(insts as usize) as u8));
            insts += 1;
            continue;
        }
        let k = rng.below(insts as usize) as u8;
        let nm = rng.below(nn) as u8;
        let op = match rng.below(100) {
            0..=49 => Op::Add { n: nm, s: pick_sal(rng) },
            50..=74 => Op::Remove { n: nm },
            75..=94 => Op::Enable { n: nm, on: rng.bool() },
            _ => Op::Clear,
        };
        steps.push(IStep::Do(k, op));
    }
    steps
}

/// Shrink a failing clone history by dropping steps (instances keep their numbers only if no
/// clone step is dropped, so clone steps are kept) and report it.
fn report_clone_steps(steps: &[IStep], clause: &str, st: &mut Stats) {
    let mut cur: Vec<IStep> = steps.to_vec();
    let fails = |s: &[IStep]| matches!(run_instances(s, 4).0, Some((ref c, _, _)) if c == clause);
    let mut changed = true;
    while changed {
        changed = false;
        let mut i = 0;
        while i < cur.len() {
            if matches!(cur[i], IStep::Clone(_)) {
                i += 1;
                continue;
            }
            let mut cand = cur.clone();
            cand.remove(i);
            if fails(&cand) {
                cur = cand;
                changed = true;
            } else {
                i += 1;
            }
        }
    }
    if let (Some((cl, cause, detail)), _) = run_instances(&cur, 4) {
        st.violation(violation(&cl, &cause, &detail, clone_case_json(&cur)));
    }
}

fn seq_nontrivial(o: &SeqObs) -> bool {
    o.max_rules >= 2 && (o.rejected_duplicates + o.missing_name_ops > 0 || o.ok_changes > o.max_rules as u64)
}

fn record_seq_obs(o: &SeqObs, st: &mut Stats) {
    st.add("seq_operations_executed", o.ops);
    st.add("seq_read_observations_compared", o.reads);
    st.add("seq_successful_changes", o.ok_changes);
    st.add("seq_duplicate_adds_rejected", o.rejected_duplicates);
    st.add("seq_missing_name_operations", o.missing_name_ops);
    st.add("seq_removals_leaving_rules_behind", o.removals_with_rules_left);
    st.add("seq_steps_with_equal_salience_neighbours", o.salience_ties);
    st.add("seq_version_moved_on_missing_name_op(allowed)", o.version_moved_on_missing_name_op);
}

/// Shrink a failing sequence (same clause keeps failing) and record it.
fn report_seq(ops: &[Op], clause: &str, st: &mut Stats) {
    report_seq_names(ops, clause, 4, st)
}
fn report_seq_names(ops: &[Op], clause: &str, n_names: usize, st: &mut Stats) {
    let mut fails = |c: &[Op]| matches!(run_seq_names(c, true, n_names).0, Some((cl, _, _)) if cl == clause);
    let small = shrink_list(ops, &mut fails);
    if let (Some((cl, cause, detail)), _) = run_seq_names(&small, true, n_names) {
        st.violation(violation(&cl, &cause, &detail, seq_case_json_names(&small, n_names)));
    }
}

struct C15;

impl C15 {
    /// The sequential phase runs in one single-threaded child process per shard: the library's
    /// schedule-point hook touches process-global state on every operation, which serialises
    /// threads of one process but not separate processes.
    fn explore_sequential(&self, cli: &Cli, st: &mut Stats) {
        let maxlen = cli.tier.pick(5usize, 6usize);
        let per = cli.n(12_000, 400_000);
        let n = cli.threads;
        // the children parse their own Cli: hand them the tier and what is left of the soft budget
        std::env::set_var("VERIF_TIER", cli.tier.name());
        std::env::set_var("VERIF_BUDGET_S", format!("{:.0}", (cli.budget_s - cli.start.elapsed().as_secs_f64()).max(1.0)));
        let results: Vec<Result<Json, String>> = std::thread::scope(|sc| {
            let hs: Vec<_> = (0..n)
                .map(|i| {
                    sc.spawn(move || {
                        let args: Vec<String> = vec!["seq".into(), i.to_string(), n.to_string(), maxlen.to_string(), per.to_string()];
                        let lim = child::Limits { cpu_s: 7200, as_bytes: Some(8 << 30), wall_s: 7200.0, stack_bytes: None };
                        match child::run_self(&args, b"", &lim) {
                            Ok(o) if o.ok() => serde_json::from_slice::<Json>(&o.stdout).map_err(|e| format!("unreadable result: {}", e)),
                            Ok(o) => Err(o.describe()),
                            Err(e) => Err(e.to_string()),
                        }
                    })
                })
                .collect();
            hs.into_iter().map(|h| h.join().unwrap_or_else(|_| Err("runner thread died".into()))).collect()
        });
        let mut cut_short = false;
        for (i, r) in results.into_iter().enumerate() {
            match r {
                Err(e) => st.inconclusive(format!("sequential shard {} (child process) gave no result: {}", i, e)),
                Ok(j) => {
                    st.evaluations += j["evaluations"].as_u64().unwrap_or(0);
                    if let Some(c) = j["counters"].as_object() {
                        for (k, v) in c {
                            if k.starts_with("max::") {
                                st.max(k, v.as_u64().unwrap_or(0));
                            } else {
                                st.add(k, v.as_u64().unwrap_or(0));
                            }
                        }
                    }
                    for h in j["distinct"].as_array().map(|a| a.as_slice()).unwrap_or(&[]) {
                        st.nontrivial(h.as_u64().unwrap_or(0));
                    }
                    for s in j["samples"].as_array().map(|a| a.as_slice()).unwrap_or(&[]) {
                        st.sample(|| s.clone());
                    }
                    for w in j["inconclusive"].as_array().map(|a| a.as_slice()).unwrap_or(&[]) {
                        st.inconclusive(w.as_str().unwrap_or("?"));
                    }
                    for v in j["violations"].as_array().map(|a| a.as_slice()).unwrap_or(&[]) {
                        st.violation(Violation {
                            clause: v["clause"].as_str().unwrap_or("").into(),
                            sig: v["sig"].as_str().unwrap_or("").into(),
                            detail: v["detail"].as_str().unwrap_or("").into(),
                            case: v["case"].clone(),
                        });
                    }
                    cut_short |= j["cut_short"].as_bool().unwrap_or(true);
                }
            }
        }
        if !cut_short && st.inconclusive.is_empty() {
            st.exhaustive.push(format!(
                "sequential: every sequence of length 1..={} over the 25 mutating operations (add 4 names x 3 saliences, remove x4, enable/disable x4, clear), all views compared with the model after the last operation of each (every prefix is itself an enumerated sequence), return value and version after every operation",
                maxlen
            ));
        }
    }

    /// One shard of the sequential phase (child process, single thread). Returns "cut short".
    fn seq_shard(&self, cli: &Cli, shard: usize, nshards: usize, maxlen: usize, per: u64, st: &mut Stats) -> bool {
        let alphabet = mutators();
        let k = alphabet.len();
        let mut reported = 0usize;
        let check = |ops: &[Op], st: &mut Stats, reported: &mut usize| {
            st.eval();
            let (f, o) = run_seq(ops, false);
            record_seq_obs(&o, st);
            if seq_nontrivial(&o) {
                if ops.len() <= 4 {
                    st.nontrivial(hash_of(ops));
                } else {
                    st.count("seq_nontrivial_sequences_of_length_5_or_more(distinct by enumeration)");
                }
                st.sample(|| seq_case_json(ops));
            }
            if let Some((clause, _, _)) = f {
                st.count("seq_failing_sequences");
                if *reported < MAX_REPORTED_PER_SHARD {
                    *reported += 1;
                    report_seq(ops, &clause, st);
                }
            }
        };
        if shard == 0 {
            for a in alphabet.iter() {
                check(&[*a], st, &mut reported);
            }
        }
        // jobs: the first two operations; every length 2..=maxlen
        for job in 0..k * k {
            if job % nshards != shard {
                continue;
            }
            let (a, b) = (alphabet[job / k], alphabet[job % k]);
            check(&[a, b], st, &mut reported);
            for len in 3..=maxlen {
                let mut idx = vec![0usize; len - 2];
                let mut ops = vec![a, b];
                ops.extend(idx.iter().map(|i| alphabet[*i]));
                loop {
                    check(&ops, st, &mut reported);
                    // odometer, last position fastest
                    let mut p = idx.len();
                    let mut wrapped = true;
                    while p > 0 {
                        p -= 1;
                        idx[p] += 1;
                        if idx[p] < k {
                            ops[p + 2] = alphabet[idx[p]];
                            wrapped = false;
                            break;
                        }
                        idx[p] = 0;
                        ops[p + 2] = alphabet[0];
                    }
                    if wrapped {
                        break;
                    }
                }
                if reported >= MAX_REPORTED_PER_SHARD && st.get("seq_failing_sequences") > 5_000 {
                    st.count("seq_enumeration_cut_short_after_many_failures");
                    return true;
                }
            }
        }
        // random, longer; every view after every step
        let lo = maxlen + 1;
        let mut rng = Rng::derive(cli.seed, 500 + shard as u64);
        for _ in 0..per {
            if cli.expired() {
                st.count("stopped_by_time_budget");
                break;
            }
            let len = if rng.chance(1, 8) { 9 + rng.below(8) } else { lo + rng.below(8 - lo + 1) };
            // bias: few names so that duplicates / removals / re-adds are frequent
            let nn = 2 + rng.below(3);
            let ops: Vec<Op> = (0..len)
                .map(|_| {
                    let n = rng.below(nn) as u8;
                    match rng.below(100) {
                        0..=44 => Op::Add { n, s: pick_sal(&mut rng) },
                        45..=69 => Op::Remove { n },
                        70..=92 => Op::Enable { n, on: rng.bool() },
                        _ => Op::Clear,
                    }
                })
                .collect();
            st.eval();
            st.count("seq_random_sequences");
            let (f, o) = run_seq(&ops, true);
            record_seq_obs(&o, st);
            if seq_nontrivial(&o) {
                if st.distinct.len() < CHILD_HASH_CAP {
                    st.nontrivial(hash_of(&ops));
                } else {
                    st.count("seq_nontrivial_random_sequences_beyond_the_per_shard_hash_cap(counted, not hashed)");
                }
            }
            if let Some((clause, _, _)) = f {
                st.count("seq_failing_sequences");
                if reported < MAX_REPORTED_PER_SHARD {
                    reported += 1;
                    report_seq(&ops, &clause, st);
                }
            }
        }
        // "wide" sequences: 48 names, long lists with many equal saliences (beyond the property's
        // 4-name bound; aimed at the insertion-order clause on lists too long for a small-sort)
        let per_wide = (per / 40).max(1);
        for _ in 0..per_wide {
            if cli.expired() {
                st.count("stopped_by_time_budget");
                break;
            }
            let len = 30 + rng.below(61);
            let ops: Vec<Op> = (0..len)
                .map(|_| {
                    let n = rng.below(WIDE_NAMES) as u8;
                    match rng.below(100) {
                        0..=69 => Op::Add { n, s: pick_sal(&mut rng) },
                        70..=84 => Op::Remove { n },
                        85..=98 => Op::Enable { n, on: rng.bool() },
                        _ => Op::Clear,
                    }
                })
                .collect();
            st.eval();
            st.count("seq_wide_sequences(48 names, 30..=90 operations)");
            let (f, o) = run_seq_names(&ops, false, WIDE_NAMES);
            record_seq_obs(&o, st);
            st.max("max::seq_rules_stored_at_once", o.max_rules as u64);
            if seq_nontrivial(&o) {
                if st.distinct.len() < CHILD_HASH_CAP {
                    st.nontrivial(hash_of(&ops));
                } else {
                    st.count("seq_nontrivial_random_sequences_beyond_the_per_shard_hash_cap(counted, not hashed)");
                }
            }
            if let Some((clause, _, _)) = f {
                st.count("seq_failing_sequences");
                if reported < MAX_REPORTED_PER_SHARD {
                    reported += 1;
                    report_seq_names(&ops, &clause, WIDE_NAMES, st);
                }
            }
        }
        // histories over a knowledge base and its clones
        let clone_per = cli.n(4_000, 150_000);
        for _ in 0..clone_per {
            if cli.expired() {
                break;
            }
            let steps = gen_clone_steps(&mut rng);
            st.eval();
            st.count("seq_histories_with_clones");
            let (f, o) = run_instances(&steps, 4);
            record_seq_obs(&o, st);
            if steps.iter().filter(|s| matches!(s, IStep::Clone(_))).count() > 0 && o.ok_changes >= 3 {
                if st.distinct.len() < CHILD_HASH_CAP {
                    st.nontrivial(hash_of(&steps));
                }
            }
            if let Some((clause, _, _)) = f {
                st.count("seq_failing_sequences");
                if reported < MAX_REPORTED_PER_SHARD {
                    reported += 1;
                    report_clone_steps(&steps, &clause, st);
                }
            }
        }
        // sequences that also load batches of rules from GRL text
        let grl_per = cli.n(4_000, 150_000);
        for _ in 0..grl_per {
            if cli.expired() {
                break;
            }
            let steps = gen_grl_steps(&mut rng);
            check_grl_steps(&steps, st);
        }
        false
    }

    fn explore_concurrent(&self, cli: &Cli, st: &mut Stats) {
        let per = cli.n(4_000, 40_000);
        let pos: Arc<Mutex<HashSet<u64>>> = Arc::new(Mutex::new(HashSet::new()));
        let wits: Arc<Mutex<HashSet<u64>>> = Arc::new(Mutex::new(HashSet::new()));
        sched::install(cli.seed, PERTURB_US);
        let (p2, w2) = (Arc::clone(&pos), Arc::clone(&wits));
        let cli2 = cli.clone();
        let blocked = dlwatch::shards_watched(cli, cli.threads, st, move |_shard, rng, st, slot| {
            let mut my_pos: HashSet<u64> = HashSet::new();
            let mut my_wits: HashSet<u64> = HashSet::new();
            let mut reported = 0usize;
            for _ in 0..per {
                if cli2.start.elapsed().as_secs_f64() > cli2.budget_s * NATIVE_BUDGET_SHARE {
                    st.count("stopped_by_time_budget");
                    break;
                }
                let p = gen_program(rng, THREADS, OPS_PER_THREAD);
                slot.enter(|| p.to_json().to_string());
                let h = run_program(&p, Some(PERTURB_US));
                slot.leave();
                st.eval();
                st.count("conc_histories_recorded");
                st.add("conc_operations_recorded", h.events.len() as u64);
                let overlap = h.overlapping_pairs();
                st.add("conc_overlapping_operation_pairs", overlap as u64);
                my_pos.insert(h.partial_order_hash());
                let mut steps = 0u64;
                let verdict = judge(&h, p.n_ops(), &mut steps);
                st.add("conc_wgl_search_steps", steps);
                match verdict {
                    HVerdict::Linearizable { witness } => {
                        st.count("conc_histories_linearizable");
                        my_wits.insert(witness);
                        let changed = h.events.iter().any(|e| {
                            e.thread > 0 && matches!((&e.op, &e.res), (Op::Add { .. }, Res::AddOk) | (Op::Remove { .. }, Res::Bool(true)) | (Op::Enable { .. }, Res::Bool(true)) | (Op::Clear, _))
                        });
                        if overlap > 0 && changed {
                            st.nontrivial(hash_of(&h.to_json().to_string()));
                            st.sample(|| json!({"kind": "concurrent", "program": p.to_json(), "history": h.to_json()}));
                        }
                    }
                    HVerdict::Inconclusive => {
                        st.count("conc_histories_undecided(step cap or lost thread)");
                        st.inconclusive("a concurrent history could not be decided within the search step cap (or a worker thread was lost)");
                    }
                    HVerdict::Violation { cause, detail } => {
                        st.count("conc_histories_not_linearizable");
                        if reported >= MAX_CONC_REPORTED_PER_SHARD && st.get("conc_histories_not_linearizable") > 200 {
                            st.count("conc_exploration_cut_short_after_many_failures");
                            break;
                        }
                        if reported < MAX_CONC_REPORTED_PER_SHARD {
                            reported += 1;
                            let (sp, sh, sc, sd) = shrink_program(&p, &h, &cause, &detail);
                            st.violation(violation(
                                "linearizability",
                                &sc,
                                &sd,
                                json!({"kind": "concurrent", "program": sp.to_json(), "history": sh.to_json()}),
                            ));
                        }
                    }
                }
            }
            p2.lock().unwrap().extend(my_pos);
            w2.lock().unwrap().extend(my_wits);
        });
        let (reached, perturbed) = sched::counters();
        sched::uninstall();
        for b in blocked {
            let case = b
                .case
                .as_deref()
                .and_then(|s| serde_json::from_str::<Json>(s).ok())
                .map(|p| json!({"kind": "concurrent", "program": p}))
                .unwrap_or(Json::Null);
            st.violation(violation("operations-return", "all-threads-blocked", &format!("shard {}: {}", b.shard, b.detail), case));
        }
        st.add("library_schedule_points_reached", reached);
        st.add("schedule_perturbations_applied", perturbed);
        if reached == 0 {
            st.inconclusive("the library's H5 schedule points were never reached (verif-hooks feature off?)");
        }
        st.add("conc_distinct_real_time_partial_orders", pos.lock().unwrap().len() as u64);
        st.add("conc_distinct_witness_linearisations", wits.lock().unwrap().len() as u64);
        if st.get("conc_overlapping_operation_pairs") == 0 {
            st.inconclusive("no two operations of different threads ever overlapped: nothing concurrent was observed");
        }
    }

    /// One writer, several readers, a few hundred stored rules (see c15_wide.rs).
    fn explore_wide(&self, cli: &Cli, st: &mut Stats) {
        let rounds = cli.n(8, 60) as usize;
        let writer_ops = cli.n(1_500, 4_000) as usize;
        let lanes = (cli.threads / 4).max(1);
        let sizes = [70usize, 130, 200, 65, 129, 520];
        let mut reported = false;
        for round in 0..rounds {
            if cli.expired() {
                st.count("stopped_by_time_budget");
                break;
            }
            // odd rounds under the seeded sleeps at the library's schedule points
            let perturbed = round % 2 == 1;
            if perturbed {
                sched::install(cli.seed, PERTURB_US);
            }
            let cfgs: Vec<c15_wide::WideCfg> = (0..lanes)
                .map(|l| c15_wide::WideCfg {
                    permanent: sizes[(round * lanes + l) % sizes.len()],
                    readers: 3,
                    writer_ops: if perturbed { writer_ops / 4 } else { writer_ops },
                    seed: cli.seed.wrapping_mul(7919).wrapping_add((round * lanes + l) as u64),
                })
                .collect();
            let outs: Vec<(c15_wide::WideObs, Option<c15_wide::WideFail>)> = std::thread::scope(|sc| {
                let hs: Vec<_> = cfgs.iter().map(|c| sc.spawn(move || c15_wide::run_wide(c))).collect();
                hs.into_iter().map(|h| h.join().unwrap_or_else(|_| (Default::default(), Some(c15_wide::WideFail { clause: "harness", cause: "run-died".into(), detail: String::new() })))).collect()
            });
            if perturbed {
                sched::uninstall();
            }
            for (cfg, (o, f)) in cfgs.iter().zip(outs) {
                st.eval();
                st.count("wide_runs(1 writer + 3 readers, 65..520 permanent rules)");
                st.add("wide_writer_operations", o.writer_ops);
                st.add("wide_reads_checked", o.reads);
                st.add("wide_reads_overlapping_a_writer_operation", o.reads_overlapping_a_write);
                for (i, v) in c15_wide::view_names().iter().enumerate() {
                    st.add(&format!("wide_reads::{}", v), o.reads_by_view[i]);
                }
                st.add("wide_distinct_states_read_by_a_listing(summed over readers)", o.distinct_states_read);
                st.max("max::wide_rules_in_one_listing", o.max_rules_listed);
                st.max("max::wide_writer_operations_overlapping_one_read", o.widest_interval);
                if o.reads_overlapping_a_write > 0 && f.is_none() {
                    st.nontrivial(hash_of(&cfg.to_json().to_string()));
                }
                if let Some(f) = f {
                    if f.clause == "harness" {
                        st.inconclusive(format!("wide concurrent run: {}", f.cause));
                    } else if !reported {
                        reported = true;
                        st.violation(violation(f.clause, &f.cause, &f.detail, cfg.to_json()));
                    }
                }
            }
            if reported {
                break;
            }
        }
        if st.get("wide_reads_overlapping_a_writer_operation") == 0 {
            st.inconclusive("wide concurrent runs: no read ever overlapped a writer operation");
        }
    }

    fn explore_sanitizers(&self, cli: &Cli, st: &mut Stats) {
        let root = cli.root.clone();
        // Miri: the same generator, 64 scheduler seeds x 20 histories
        let seeds = cli.n(1, 64).max(2) as u32;
        let args: Vec<String> = vec![cli.seed.to_string(), "20".into(), "0".into()];
        let v = sanit::miri_run(&root, "c15", "C15", &args, seeds, None, 1500);
        let a2 = args.clone();
        if let Some(out) = sanit::fold(st, "C15", "miri", v, |kind, report, line| {
            json!({"kind": "miri", "bin": "c15", "args": a2, "seeds": seeds, "report_kind": kind, "report": report, "workload_line": line})
        }) {
            let sums = sanit::summary_lines(&out, "C15");
            fold_summaries(st, "miri", &sums);
            if sums.len() < seeds as usize {
                st.inconclusive(format!("miri: only {} of {} seeds reported a summary", sums.len(), seeds));
            }
        }
        // ThreadSanitizer build of the stress workload
        match sanit::tsan_build(&root, 1200) {
            Err(e) => st.inconclusive(format!("tsan: {}", e)),
            Ok(dir) => {
                let procs = 8u64;
                let per = cli.n(250, 5_000);
                let args_list: Vec<Vec<String>> =
                    (0..procs).map(|k| vec![(cli.seed.wrapping_mul(1000) + k).to_string(), per.to_string(), "100".into()]).collect();
                let mut all = String::new();
                for (v, args) in sanit::tsan_run_many(&dir.join("c15"), "C15", &args_list, 1200).into_iter().zip(args_list.iter()) {
                    let a2 = args.clone();
                    if let Some(out) = sanit::fold(st, "C15", "tsan", v, |kind, report, line| {
                        json!({"kind": "tsan", "bin": "c15", "args": a2, "report_kind": kind, "report": report, "workload_line": line})
                    }) {
                        if sanit::summary_lines(&out, "C15").is_empty() {
                            st.inconclusive("tsan: a workload process printed no summary");
                        }
                        all.push_str(&out);
                    }
                }
                fold_summaries(st, "tsan", &sanit::summary_lines(&all, "C15"));
            }
        }
    }
}

fn fold_summaries(st: &mut Stats, tool: &str, sums: &[std::collections::HashMap<&str, &str>]) {
    let mut pos: HashSet<String> = HashSet::new();
    let mut wits: HashSet<String> = HashSet::new();
    st.add(&format!("{}_runs_completed", tool), sums.len() as u64);
    for s in sums {
        let num = |k: &str| s.get(k).and_then(|v| v.parse::<u64>().ok()).unwrap_or(0);
        st.add(&format!("{}_histories_checked", tool), num("histories"));
        st.add(&format!("{}_histories_linearizable", tool), num("linearizable"));
        st.add(&format!("{}_histories_with_overlap", tool), num("with_overlap"));
        st.add(&format!("{}_schedule_points_reached", tool), num("sched_points"));
        if num("inconclusive") > 0 {
            st.inconclusive(format!("{}: {} histories undecided within the step cap", tool, num("inconclusive")));
        }
        for h in s.get("po").unwrap_or(&"").split(',').filter(|x| !x.is_empty()) {
            pos.insert(h.to_string());
        }
        for h in s.get("wit").unwrap_or(&"").split(',').filter(|x| !x.is_empty()) {
            wits.insert(h.to_string());
        }
    }
    st.add(&format!("{}_distinct_real_time_partial_orders(first 64 per run)", tool), pos.len() as u64);
    st.add(&format!("{}_distinct_witness_linearisations(first 64 per run)", tool), wits.len() as u64);
}

/// Execute `p` up to `tries` times; the first history that is not linearizable (with the given
/// cause, if any) is returned.
fn find_violation(p: &Program, tries: usize, want_cause: Option<&str>) -> Option<(History, String, String)> {
    for _ in 0..tries {
        let h = run_program(p, Some(PERTURB_US));
        let mut steps = 0;
        if let HVerdict::Violation { cause, detail } = judge(&h, p.n_ops(), &mut steps) {
            if want_cause.map_or(true, |c| c == cause) {
                return Some((h, cause, detail));
            }
        }
    }
    None
}

/// Drop operations while the shrunk program still produces a non-linearizable history with the
/// same cause within SHRINK_TRIES executions.
fn shrink_program(p: &Program, h: &History, cause: &str, detail: &str) -> (Program, History, String, String) {
    let flat: Vec<(usize, Op)> = p
        .setup
        .iter()
        .map(|o| (0usize, *o))
        .chain(p.threads.iter().enumerate().flat_map(|(t, ops)| ops.iter().map(move |o| (t + 1, *o))))
        .collect();
    let nthreads = p.threads.len();
    let build = |items: &[(usize, Op)]| Program {
        setup: items.iter().filter(|(t, _)| *t == 0).map(|(_, o)| *o).collect(),
        threads: (1..=nthreads).map(|t| items.iter().filter(|(x, _)| *x == t).map(|(_, o)| *o).collect()).collect(),
    };
    let mut best: Option<(History, String, String)> = None;
    // one-at-a-time removal until a full pass removes nothing (at most ~n^2/2 candidates, n <= 14)
    let mut small = flat.clone();
    let mut i = 0;
    while i < small.len() {
        let mut cand = small.clone();
        cand.remove(i);
        match find_violation(&build(&cand), SHRINK_TRIES, Some(cause)) {
            Some(r) => {
                best = Some(r);
                small = cand;
                i = 0;
            }
            None => i += 1,
        }
    }
    match best {
        Some((sh, sc, sd)) if build(&small).n_ops() == sh.events.len() => (build(&small), sh, sc, sd),
        _ => (p.clone(), h.clone(), cause.to_string(), detail.to_string()),
    }
}

impl Check for C15 {
    fn id(&self) -> &'static str {
        "C15"
    }
    fn rule(&self) -> String {
        "sequential, EXHAUSTIVE: every sequence of length 1..=5 (quick) / 1..=6 (thorough) over the 25 mutating operations {add 4 names x 3 saliences, remove x4, enable x4, disable x4, clear}: return value and version checked after every operation, every read view (get_rule for all 4 names, get_rules, get_rule_names, rule_count, get_rules_by_salience+get_rule_by_index, get_statistics, version) compared with the ordered-list+version model after the last one; sequential, SAMPLED (saliences also i32::MIN / i32::MAX, 1 add in 6): random sequences of length 6..=8 (1 in 8: 9..=16) over 2-4 names with every view compared after every operation; plus 'wide' random sequences of 30..=90 operations over 48 names (beyond the stated 4-name bound; long lists with many equal saliences), views compared after the last operation; plus random sequences of 3..=8 steps over 3-4 names in which a third of the steps load a batch of 2-3 rules through add_rules_from_grl (added one by one; the first duplicate fails the call and what was added before it stays), every view compared after every step; plus random histories of 4..=12 steps over a knowledge base and 1-2 clones of it (`clone()` of any instance, then add / remove / enable / clear on either side), every view of EVERY instance compared with that instance's model after every step. A sequential case is non-trivial when at least 2 rules were stored at some point and it contains an operation other than a first-time add (rejected duplicate, missing-name operation, removal, enable/disable, clear); distinct by operation sequence (length>=5 exhaustive cases are counted, not hashed). Concurrent, SAMPLED: random programs of 3 threads x 4 operations (all ten operation kinds, 2-3 names, 0-2 set-up adds) on one Arc<KnowledgeBase> under seeded yields/sleeps at the library's schedule points and before every call; each recorded history (client-side call/return stamps from one atomic clock) is checked for linearizability (WGL search memoised on (linearised set, model state), step cap => inconclusive). A concurrent history is non-trivial when operations of different threads overlapped in real time and a worker-thread operation changed the store; distinct by recorded history. Concurrent, WIDE (beyond the stated 4-name bound): 1 writer thread running a seeded script of 1500 (quick) / 4000 (thorough) add / remove / enable / disable operations (hot rules entering in front, in the middle, at the end of a salience level and at the back; permanent rules removed and put back) on a knowledge base of 65..520 permanent rules while 3 reader threads call get_rules, get_rules_snapshot, get_rule_names, rule_count, get_statistics and get_rule; every answer must equal the view of one of the model states S_lo..S_hi (lo = writer operations finished before the call, hi = started before the return; exact for a single writer); every other run paces the writer to one operation per completed read (narrow intervals); half the rounds under the seeded sleeps at the library's schedule points. Thorough adds the same generator under Miri many-seeds (64 scheduler seeds x 20 histories) and a ThreadSanitizer build (8 processes x 5000 histories).".into()
    }
    fn assumptions(&self) -> Vec<String> {
        vec![
            "the version must strictly grow on add Ok / remove Ok(true) / set_rule_enabled Ok(true) / clear (also clear of an empty store and enabling an already enabled rule: the call succeeded); it must not change on a rejected duplicate; on remove/enable of a missing name it may stay or grow; growth need not be by one".into(),
            "'the rule most recently added under that name' is observed through a unique description stamped on every added rule".into(),
            "real-time order of a concurrent history = order of client-side stamps taken immediately before the call and immediately after the return from one SeqCst atomic counter (sound: an operation's effect lies between its stamps)".into(),
            "get_rules_by_salience+get_rule_by_index is two calls and is compared only sequentially".into(),
            "clone(): the clone is another knowledge base holding the rules the original lists at that moment, in that order; afterwards each instance follows its own operations only (an operation on one must not show in any view of the other); the clone's version is taken as observed and must grow from there".into(),
            "a schedule-dependent violation is replayed by re-executing its program up to 30000 times under perturbation (re-execution, not re-judging the recorded history)".into(),
        ]
    }
    fn explore(&self, cli: &Cli, st: &mut Stats) {
        let t0 = std::time::Instant::now();
        self.explore_sequential(cli, st);
        st.add("wall_ms_sequential_phase", t0.elapsed().as_millis() as u64);
        let t1 = std::time::Instant::now();
        self.explore_concurrent(cli, st);
        st.add("wall_ms_concurrent_phase", t1.elapsed().as_millis() as u64);
        let t1b = std::time::Instant::now();
        self.explore_wide(cli, st);
        st.add("wall_ms_wide_concurrent_phase", t1b.elapsed().as_millis() as u64);
        if cli.tier == Tier::Thorough {
            let t2 = std::time::Instant::now();
            self.explore_sanitizers(cli, st);
            st.add("wall_ms_sanitizer_phase", t2.elapsed().as_millis() as u64);
        }
    }
    fn worker(&self, cli: &Cli, args: &[String]) -> i32 {
        let num = |i: usize| args.get(i).and_then(|s| s.parse::<u64>().ok());
        match (args.first().map(|s| s.as_str()), num(1), num(2), num(3), num(4)) {
            (Some("seq"), Some(shard), Some(nshards), Some(maxlen), Some(per)) => {
                let mut st = Stats::new();
                let cut = match pan::catch_frames(|| self.seq_shard(cli, shard as usize, nshards as usize, maxlen as usize, per, &mut st)) {
                    Ok(c) => c,
                    Err(p) => {
                        st.inconclusive(format!("sequential shard panicked outside a monitored call: {} at {}:{}", p.msg, p.file, p.line));
                        true
                    }
                };
                let j = json!({
                    "evaluations": st.evaluations,
                    "counters": st.counters,
                    "distinct": st.distinct.iter().collect::<Vec<_>>(),
                    "samples": st.samples,
                    "inconclusive": st.inconclusive,
                    "violations": st.violations.iter().map(|v| json!({"clause": v.clause, "sig": v.sig, "detail": v.detail, "case": v.case})).collect::<Vec<_>>(),
                    "cut_short": cut,
                });
                out!("{}", j);
                0
            }
            _ => 2,
        }
    }
    fn replay(&self, cli: &Cli, case: &Json) -> Vec<Violation> {
        let bad = |why: &str| {
            vec![Violation { clause: "harness".into(), sig: "C15|harness|bad-case".into(), detail: why.into(), case: case.clone() }]
        };
        match case["kind"].as_str() {
            Some("sequential") => {
                let Some(ops) = case["ops"].as_array().and_then(|a| a.iter().map(|x| Op::parse(x.as_str()?)).collect::<Option<Vec<Op>>>()) else {
                    return bad("cannot decode ops");
                };
                let n_names = case["names"].as_u64().unwrap_or(4) as usize;
                match run_seq_names(&ops, true, n_names.clamp(4, 64)) {
                    (Some((cl, cause, detail)), _) => vec![violation(&cl, &cause, &detail, case.clone())],
                    (None, _) => vec![],
                }
            }
            Some("sequential-with-clones") => {
                let Some(steps) = case["steps"].as_array().and_then(|a| a.iter().map(|x| IStep::parse(x.as_str()?)).collect::<Option<Vec<IStep>>>()) else {
                    return bad("cannot decode steps");
                };
                match run_instances(&steps, 4) {
                    (Some((cl, cause, detail)), _) => vec![violation(&cl, &cause, &detail, case.clone())],
                    (None, _) => vec![],
                }
            }
            Some("sequential-with-grl-loads") => {
                let Some(steps) = case["steps"].as_array().and_then(|a| a.iter().map(|x| GStep::parse(x.as_str()?)).collect::<Option<Vec<GStep>>>()) else {
                    return bad("cannot decode steps");
                };
                match run_grl_steps(&steps) {
                    Some((cl, cause, detail)) => vec![violation(&cl, &cause, &detail, case.clone())],
                    None => vec![],
                }
            }
            Some("concurrent") => {
                let Some(p) = Program::from_json(&case["program"]) else {
                    return bad("cannot decode program");
                };
                if cli.verbose {
                    if let Some(h) = History::from_json(&case["history"]) {
                        let mut steps = 0;
                        let v = match judge(&h, h.events.len(), &mut steps) {
                            HVerdict::Linearizable { .. } => "linearizable".to_string(),
                            HVerdict::Inconclusive => "undecided".to_string(),
                            HVerdict::Violation { cause, detail } => format!("NOT linearizable ({}): {}", cause, detail),
                        };
                        out!("  recorded history: {}", v);
                    }
                }
                sched::install(cli.seed, PERTURB_US);
                let p2 = p.clone();
                let r = dlwatch::call_watched(move || find_violation(&p2, REPLAY_TRIES, None));
                sched::uninstall();
                match r {
                    Ok(Some((h, cause, detail))) => vec![violation(
                        "linearizability",
                        &cause,
                        &detail,
                        json!({"kind": "concurrent", "program": p.to_json(), "history": h.to_json()}),
                    )],
                    Ok(None) => vec![],
                    Err(dlwatch::WatchErr::Blocked(why)) => vec![violation("operations-return", "all-threads-blocked", &why, case.clone())],
                    Err(dlwatch::WatchErr::Died) => bad("the replay thread died"),
                }
            }
            Some("wide-concurrent") => {
                let Some(cfg) = c15_wide::WideCfg::from_json(case) else {
                    return bad("cannot decode the wide configuration");
                };
                // schedule-dependent: re-execute, alternately plain and under perturbation
                for t in 0..40 {
                    if t % 2 == 1 {
                        sched::install(cli.seed.wrapping_add(t), PERTURB_US);
                    }
                    let (_, f) = c15_wide::run_wide(&cfg);
                    if t % 2 == 1 {
                        sched::uninstall();
                    }
                    if let Some(f) = f {
                        if f.clause != "harness" {
                            return vec![violation(f.clause, &f.cause, &f.detail, case.clone())];
                        }
                    }
                }
                vec![]
            }
            Some(k @ ("miri" | "tsan")) => {
                let args: Vec<String> = case["args"].as_array().map(|a| a.iter().filter_map(|x| x.as_str().map(|s| s.to_string())).collect()).unwrap_or_default();
                let v = if k == "miri" {
                    sanit::miri_run(&cli.root, "c15", "C15", &args, case["seeds"].as_u64().unwrap_or(64) as u32, None, 1500)
                } else {
                    match sanit::tsan_build(&cli.root, 1200) {
                        Ok(dir) => sanit::tsan_run(&dir.join("c15"), "C15", &args, 1200),
                        Err(e) => sanit::SanVerdict::Inconclusive(e),
                    }
                };
                let mut st = Stats::new();
                let c2 = case.clone();
                sanit::fold(&mut st, "C15", k, v, move |_, _, _| c2);
                for w in &st.inconclusive {
                    out!("  replay inconclusive: {}", w);
                }
                st.violations
            }
            _ => bad("unknown case kind"),
        }
    }
}

fn main() {
    run_main(C15)
}
