//! C04 — parsing GRL yields exactly the rules that were written.
//!
//! Rule files are generated from the documented grammar together with their AST, rendered
//! under many layouts / comment placements, parsed by the three public entry points and
//! compared structurally (cmp.rs). Failing files are shrunk (rules, layout, comments,
//! attributes, condition, actions, string contents) and the signature is the clause plus the
//! features that survived shrinking.

use rre_verif::grl::ast::*;
use rre_verif::grl::cmp::*;
use rre_verif::grl::gen::{self, Hostile};
use rre_verif::grl::layout::*;
use rre_verif::grl::val::V;
use rre_verif::*;
use rust_rule_engine::GRLParser;
use std::collections::BTreeSet;

#[derive(Clone, Debug)]
struct Case {
    rules: Vec<RuleAst>,
    layout: LayoutSpec,
    attr_perm: u64,
    bare_bool_attrs: bool,
    /// stacked negations written `!!(x)` instead of `!(!(x))`
    adjacent_not: bool,
}

impl Case {
    fn text(&self) -> String {
        let marked: Vec<String> = self.rules.iter().map(|r| m_rule_opts(r, self.attr_perm, self.bare_bool_attrs, self.adjacent_not)).collect();
        apply_layout(&marked, &self.layout)
    }
    fn single_text(&self, i: usize) -> String {
        let spec = LayoutSpec { comments: vec![], ..self.layout.clone() };
        apply_layout(&[m_rule_opts(&self.rules[i], self.attr_perm, self.bare_bool_attrs, self.adjacent_not)], &spec)
    }
    fn to_json(&self) -> Json {
        json!({
            "rules": self.rules.iter().map(rule_json).collect::<Vec<_>>(),
            "layout": self.layout.to_json(),
            "attr_perm": self.attr_perm,
            "bare_bool_attrs": self.bare_bool_attrs,
            "adjacent_not": self.adjacent_not,
            "text": self.text(),
        })
    }
    fn from_json(j: &Json) -> Option<Case> {
        Some(Case {
            rules: j.get("rules")?.as_array()?.iter().map(rule_from).collect::<Option<Vec<_>>>()?,
            layout: LayoutSpec::from_json(j.get("layout")?)?,
            attr_perm: j.get("attr_perm")?.as_u64()?,
            bare_bool_attrs: j.get("bare_bool_attrs")?.as_bool()?,
            adjacent_not: j.get("adjacent_not").and_then(|v| v.as_bool()).unwrap_or(false),
        })
    }
}

#[derive(Clone, Debug)]
struct Fail {
    entry: &'static str,
    clause: String,
    rule: Option<usize>,
    detail: String,
}

fn compare_all(parsed: &[rust_rule_engine::Rule], rules: &[RuleAst], entry: &'static str) -> Option<Fail> {
    if parsed.len() != rules.len() {
        return Some(Fail {
            entry,
            clause: "rule-count".into(),
            rule: None,
            detail: format!(
                "wrote {} rules {:?}, parser returned {} {:?}",
                rules.len(),
                rules.iter().map(|r| &r.name).collect::<Vec<_>>(),
                parsed.len(),
                parsed.iter().map(|r| &r.name).collect::<Vec<_>>()
            ),
        });
    }
    for (i, (p, a)) in parsed.iter().zip(rules).enumerate() {
        if let Some((clause, exp, got)) = compare_rule(p, a) {
            return Some(Fail {
                entry,
                clause: clause.into(),
                rule: Some(i),
                detail: format!("rule #{} {:?}: {}: written {} / parsed {}", i, a.name, clause, exp, got),
            });
        }
    }
    None
}

/// Parse the file with every entry point and compare with the AST. First failure wins;
/// `parse_rules` is tried first so that the other entry points are only named when the failure
/// is specific to them.
fn judge(case: &Case) -> Option<Fail> {
    let text = case.text();
    match pan::catch_frames(|| GRLParser::parse_rules(&text)) {
        Ok(Ok(parsed)) => {
            if let Some(f) = compare_all(&parsed, &case.rules, "parse_rules") {
                return Some(f);
            }
        }
        Ok(Err(e)) => {
            return Some(Fail { entry: "parse_rules", clause: "parse-error".into(), rule: None, detail: format!("parse_rules returned Err({})", e) })
        }
        Err(p) => {
            return Some(Fail {
                entry: "parse_rules",
                clause: "panic".into(),
                rule: None,
                detail: format!("parse_rules panicked: {} at {}:{} [{}|{}]", p.msg, p.file, p.line, p.class(), p.frame),
            })
        }
    }
    match pan::catch_frames(|| GRLParser::parse_with_modules(&text)) {
        Ok(Ok(parsed)) => {
            if let Some(f) = compare_all(&parsed.rules, &case.rules, "parse_with_modules") {
                return Some(f);
            }
        }
        Ok(Err(e)) => {
            return Some(Fail { entry: "parse_with_modules", clause: "parse-error".into(), rule: None, detail: format!("parse_with_modules returned Err({})", e) })
        }
        Err(p) => {
            return Some(Fail { entry: "parse_with_modules", clause: "panic".into(), rule: None, detail: format!("parse_with_modules panicked: {} at {}:{}", p.msg, p.file, p.line) })
        }
    }
    for i in 0..case.rules.len() {
        let t = case.single_text(i);
        match pan::catch_frames(|| GRLParser::parse_rule(&t)) {
            Ok(Ok(parsed)) => {
                if let Some((clause, exp, got)) = compare_rule(&parsed, &case.rules[i]) {
                    return Some(Fail {
                        entry: "parse_rule",
                        clause: clause.into(),
                        rule: Some(i),
                        detail: format!("rule #{} parsed alone: {}: written {} / parsed {}", i, clause, exp, got),
                    });
                }
            }
            Ok(Err(e)) => {
                return Some(Fail { entry: "parse_rule", clause: "parse-error".into(), rule: Some(i), detail: format!("parse_rule on rule #{} alone returned Err({})", i, e) })
            }
            Err(p) => {
                return Some(Fail { entry: "parse_rule", clause: "panic".into(), rule: Some(i), detail: format!("parse_rule panicked: {} at {}:{}", p.msg, p.file, p.line) })
            }
        }
    }
    None
}

// ------------------------------------------------------------------ string classes

const HOSTILE_STRINGS: [&str; 29] = [
    "a;b", "x && y", "p || q", "end}", "{start", "f(x", "y)", "now then go", "say when ok", "the rule r1", "see //x", "a /* b",
    "a+=b", "k=v", "a,b", "a+b", "co-op", "naïve café", "salience 9", "no-loop", "it's", "lock-on-active",
    // whitespace inside a literal is content too
    "two  blanks", "tab\there", "nb\u{a0}sp", "em\u{2003}space", " leading blank", "trailing blank ", "a */ b",
];

fn string_class(s: &str) -> Option<&'static str> {
    for (needle, class) in [
        ("  ", "run-of-blanks"),
        ("\t", "tab"),
        ("\u{a0}", "non-ascii-space"),
        ("\u{2003}", "non-ascii-space"),
        ("//", "line-comment-marker"),
        ("/*", "block-comment-marker"),
        ("*/", "block-comment-end-marker"),
        ("+=", "plus-equals"),
        ("&&", "and-operator"),
        ("||", "or-operator"),
        (";", "semicolon"),
        ("}", "closing-brace"),
        ("{", "opening-brace"),
        ("(", "opening-paren"),
        (")", "closing-paren"),
        (" then ", "then-keyword"),
        (" when ", "when-keyword"),
        ("rule ", "rule-keyword"),
        ("salience", "salience-keyword"),
        ("no-loop", "no-loop-keyword"),
        ("lock-on-active", "lock-on-active-keyword"),
        (",", "comma"),
        ("=", "equals-sign"),
    ] {
        if s.contains(needle) {
            return Some(class);
        }
    }
    if s.chars().any(|c| "+-*/%".contains(c)) {
        return Some("arithmetic-char");
    }
    if s.contains('\'') {
        return Some("single-quote");
    }
    if !s.is_ascii() {
        return Some("non-ascii");
    }
    if s.starts_with(' ') || s.ends_with(' ') {
        return Some("blank-at-the-edge");
    }
    if s.starts_with('*') || s.ends_with('*') || s.is_empty() {
        return Some("asterisk-at-the-edge-or-empty");
    }
    None
}

/// Visit every string literal of a rule with its syntactic position; `f` may rewrite it.
fn visit_strings(r: &mut RuleAst, f: &mut dyn FnMut(&'static str, &mut String)) {
    fn v_val(v: &mut V, pos: &'static str, f: &mut dyn FnMut(&'static str, &mut String)) {
        match v {
            V::Str(s) => f(pos, s),
            V::Arr(a) => a.iter_mut().for_each(|x| v_val(x, pos, f)),
            _ => {}
        }
    }
    fn v_chain(c: &mut Chain, pos: &'static str, f: &mut dyn FnMut(&'static str, &mut String)) {
        if let Operand::Str(s) = &mut c.first {
            f(pos, s);
        }
        for (_, o) in c.rest.iter_mut() {
            if let Operand::Str(s) = o {
                f(pos, s);
            }
        }
    }
    fn v_rhs(r: &mut Rhs, pos: &'static str, f: &mut dyn FnMut(&'static str, &mut String)) {
        match r {
            Rhs::Lit(v) => v_val(v, pos, f),
            Rhs::Arith(c) => v_chain(c, pos, f),
            Rhs::FieldRef(_) => {}
        }
    }
    fn v_cond(c: &mut Cond, f: &mut dyn FnMut(&'static str, &mut String)) {
        match c {
            Cond::Leaf(l) => v_rhs(&mut l.rhs, "condition", f),
            Cond::And(a, b) | Cond::Or(a, b) => {
                v_cond(a, f);
                v_cond(b, f);
            }
            Cond::Not(a) => v_cond(a, f),
        }
    }
    if r.quoted_name {
        f("rule-name", &mut r.name);
    }
    if let Some(d) = &mut r.description {
        f("description", d);
    }
    if let Some(g) = &mut r.attrs.agenda_group {
        f("attribute-value", g);
    }
    if let Some(g) = &mut r.attrs.activation_group {
        f("attribute-value", g);
    }
    v_cond(&mut r.cond, f);
    for a in r.actions.iter_mut() {
        match a {
            Action::Set { rhs, .. } | Action::Append { rhs, .. } => v_rhs(rhs, "assignment", f),
            Action::Log(s) | Action::Retract(s) | Action::ActivateAgendaGroup(s) | Action::CompleteWorkflow(s) => f("call-argument", s),
            Action::ScheduleRule(_, s) => f("call-argument", s),
            Action::SetWorkflowData(..) => {}
            Action::Call(_, args) | Action::Method(_, _, args) => args.iter_mut().for_each(|x| v_rhs(x, "call-argument", f)),
        }
    }
}

// ------------------------------------------------------------------ tags (computed on the shrunk case)

fn tags(case: &Case, fail: &Fail) -> Vec<String> {
    let mut t: BTreeSet<String> = BTreeSet::new();
    if fail.entry != "parse_rules" {
        t.insert(format!("entry:{}", fail.entry));
    }
    for f in &case.layout.features {
        t.insert(format!("layout:{:?}", f));
    }
    for c in &case.layout.comments {
        let kind = match c.kind {
            CommentKind::Line => "line-comment",
            CommentKind::Trailing => "trailing-line-comment",
            CommentKind::Block => "block-comment",
            CommentKind::BlockTight => "block-comment-tight",
        };
        match string_class(&c.text) {
            Some(cl) => t.insert(format!("{}-containing:{}", kind, cl)),
            None => t.insert(kind.to_string()),
        };
    }
    if case.rules.len() > 1 {
        t.insert("several-rules".into());
    }
    if case.bare_bool_attrs {
        t.insert("bare-boolean-attribute-spelling".into());
    }
    if case.adjacent_not {
        t.insert("adjacent-negations".into());
    }
    for r in &case.rules {
        let mut r2 = r.clone();
        visit_strings(&mut r2, &mut |pos, s| {
            if let Some(cl) = string_class(s) {
                t.insert(format!("string[{}]:{}", pos, cl));
            } else if pos == "rule-name" && s.contains(' ') {
                t.insert("rule-name-with-space".into());
            }
        });
        if !r.quoted_name {
            t.insert("bare-rule-name".into());
        }
        if r.description.is_some() {
            t.insert("description".into());
        }
        match r.attrs.salience {
            Some(s) if s == i32::MIN => {
                t.insert("salience:i32-min".into());
            }
            Some(s) if s < 0 => {
                t.insert("salience:negative".into());
            }
            Some(s) if s == i32::MAX => {
                t.insert("salience:i32-max".into());
            }
            Some(_) => {
                t.insert("attr:salience".into());
            }
            None => {}
        }
        if r.attrs.no_loop {
            t.insert("attr:no-loop".into());
        }
        if r.attrs.lock_on_active {
            t.insert("attr:lock-on-active".into());
        }
        if r.attrs.agenda_group.is_some() {
            t.insert("attr:agenda-group".into());
        }
        if r.attrs.activation_group.is_some() {
            t.insert("attr:activation-group".into());
        }
        if r.attrs.date_effective.is_some() {
            t.insert("attr:date-effective".into());
        }
        if r.attrs.date_expires.is_some() {
            t.insert("attr:date-expires".into());
        }
        // condition shape
        fn shape(c: &Cond, t: &mut BTreeSet<String>, depth: usize) {
            match c {
                Cond::Leaf(l) => {
                    if matches!(l.lhs, Lhs::Arith(_)) {
                        t.insert("leaf:arithmetic-left-side".into());
                    }
                    match &l.rhs {
                        Rhs::Arith(_) => {
                            t.insert("leaf:arithmetic-right-side".into());
                        }
                        Rhs::FieldRef(_) => {
                            t.insert("leaf:field-reference".into());
                        }
                        Rhs::Lit(V::Arr(_)) => {
                            t.insert("leaf:array-literal".into());
                        }
                        Rhs::Lit(V::Float(_)) => {
                            t.insert("leaf:float-literal".into());
                        }
                        Rhs::Lit(V::Int(i)) if *i < 0 => {
                            t.insert("leaf:negative-literal".into());
                        }
                        Rhs::Lit(V::Str(s)) if s.is_empty() => {
                            t.insert("leaf:empty-string".into());
                        }
                        Rhs::Lit(V::Null) => {
                            t.insert("leaf:null".into());
                        }
                        _ => {}
                    }
                    if matches!(l.op, Op::Contains | Op::StartsWith | Op::EndsWith | Op::In) {
                        t.insert(format!("leaf:operator-{}", l.op.text()));
                    }
                }
                Cond::And(a, b) => {
                    t.insert("cond:and".into());
                    shape(a, t, depth + 1);
                    shape(b, t, depth + 1);
                }
                Cond::Or(a, b) => {
                    t.insert("cond:or".into());
                    shape(a, t, depth + 1);
                    shape(b, t, depth + 1);
                }
                Cond::Not(a) => {
                    t.insert("cond:not".into());
                    shape(a, t, depth + 1);
                }
            }
            if depth >= 3 {
                t.insert("cond:nesting>=4".into());
            }
        }
        shape(&r.cond, &mut t, 0);
        for a in &r.actions {
            match a {
                Action::Set { rhs, .. } => match rhs {
                    Rhs::Arith(_) => {
                        t.insert("action:set-arithmetic".into());
                    }
                    Rhs::FieldRef(_) => {
                        t.insert("action:set-field-reference".into());
                    }
                    _ => {}
                },
                Action::Append { .. } => {
                    t.insert("action:append".into());
                }
                Action::Log(_) => {
                    t.insert("action:log".into());
                }
                Action::Retract(_) => {
                    t.insert("action:retract".into());
                }
                Action::ActivateAgendaGroup(_) => {
                    t.insert("action:activate-agenda-group".into());
                }
                Action::ScheduleRule(..) => {
                    t.insert("action:schedule-rule".into());
                }
                Action::CompleteWorkflow(_) => {
                    t.insert("action:complete-workflow".into());
                }
                Action::SetWorkflowData(..) => {
                    t.insert("action:set-workflow-data".into());
                }
                Action::Call(..) => {
                    t.insert("action:custom-call".into());
                }
                Action::Method(..) => {
                    t.insert("action:method-call".into());
                }
            }
        }
        if r.actions.len() > 1 {
            t.insert("several-actions".into());
        }
    }
    t.into_iter().collect()
}

// ------------------------------------------------------------------ shrinking

fn simple_leaf() -> Cond {
    Cond::Leaf(Leaf { lhs: Lhs::Field("a".into()), op: Op::Eq, rhs: Rhs::Lit(V::Int(1)) })
}
fn simple_action() -> Action {
    Action::Set { target: "b".into(), rhs: Rhs::Lit(V::Int(1)) }
}

/// Shrinking keeps any failing file: the signature is the surviving cause, not the clause (the
/// same cause shows up as a parse error, a shorter action list or a lost rule depending on
/// what follows it).
fn same_fail(case: &Case, _clause: &str) -> Option<Fail> {
    judge(case)
}

/// All one-step simplifications of a case.
fn candidates(c: &Case) -> Vec<Case> {
    let mut out = Vec::new();
    // fewer rules
    if c.rules.len() > 1 {
        for i in 0..c.rules.len() {
            out.push(Case { rules: vec![c.rules[i].clone()], ..c.clone() });
        }
        for i in 0..c.rules.len() {
            let mut r = c.rules.clone();
            r.remove(i);
            out.push(Case { rules: r, ..c.clone() });
        }
    }
    // layout
    for i in 0..c.layout.features.len() {
        let mut l = c.layout.clone();
        l.features.remove(i);
        out.push(Case { layout: l, ..c.clone() });
    }
    if c.layout.mixed {
        out.push(Case { layout: LayoutSpec { mixed: false, ..c.layout.clone() }, ..c.clone() });
    }
    for i in 0..c.layout.comments.len() {
        let mut l = c.layout.clone();
        l.comments.remove(i);
        out.push(Case { layout: l, ..c.clone() });
    }
    for i in 0..c.layout.comments.len() {
        if string_class(&c.layout.comments[i].text).is_some() {
            let mut l = c.layout.clone();
            l.comments[i].text = "note".into();
            out.push(Case { layout: l, ..c.clone() });
        }
    }
    if c.bare_bool_attrs {
        out.push(Case { bare_bool_attrs: false, ..c.clone() });
    }
    if c.adjacent_not {
        out.push(Case { adjacent_not: false, ..c.clone() });
    }
    if c.attr_perm != 0 {
        out.push(Case { attr_perm: 0, ..c.clone() });
    }
    // per rule
    for (ri, r) in c.rules.iter().enumerate() {
        let mut with = |f: &dyn Fn(&mut RuleAst)| {
            let mut c2 = c.clone();
            f(&mut c2.rules[ri]);
            if c2.rules[ri] != *r {
                out.push(c2);
            }
        };
        with(&|r| r.description = None);
        with(&|r| r.attrs.salience = None);
        with(&|r| r.attrs.salience = r.attrs.salience.map(|s| if s < 0 { -1 } else { 1 }));
        with(&|r| r.attrs.no_loop = false);
        with(&|r| r.attrs.lock_on_active = false);
        with(&|r| r.attrs.agenda_group = None);
        with(&|r| r.attrs.activation_group = None);
        with(&|r| r.attrs.date_effective = None);
        with(&|r| r.attrs.date_expires = None);
        with(&|r| {
            r.name = "R".into();
            r.quoted_name = true
        });
        with(&|r| r.quoted_name = true);
        with(&|r| r.cond = simple_leaf());
        // condition sub-trees
        match &r.cond {
            Cond::And(a, b) | Cond::Or(a, b) => {
                let (a, b) = ((**a).clone(), (**b).clone());
                with(&|r| r.cond = a.clone());
                with(&|r| r.cond = b.clone());
            }
            Cond::Not(a) => {
                let a = (**a).clone();
                with(&|r| r.cond = a.clone());
            }
            Cond::Leaf(l) => {
                let l = l.clone();
                with(&|r| r.cond = Cond::Leaf(Leaf { rhs: Rhs::Lit(V::Int(1)), ..l.clone() }));
                with(&|r| r.cond = Cond::Leaf(Leaf { lhs: Lhs::Field("a".into()), ..l.clone() }));
                with(&|r| r.cond = Cond::Leaf(Leaf { op: Op::Eq, ..l.clone() }));
            }
        }
        // replace one side of a binary node by the simple leaf (keeps the operator)
        match &r.cond {
            Cond::And(a, b) => {
                let (a, b) = ((**a).clone(), (**b).clone());
                with(&|r| r.cond = Cond::And(Box::new(simple_leaf()), Box::new(b.clone())));
                with(&|r| r.cond = Cond::And(Box::new(a.clone()), Box::new(simple_leaf())));
            }
            Cond::Or(a, b) => {
                let (a, b) = ((**a).clone(), (**b).clone());
                with(&|r| r.cond = Cond::Or(Box::new(simple_leaf()), Box::new(b.clone())));
                with(&|r| r.cond = Cond::Or(Box::new(a.clone()), Box::new(simple_leaf())));
            }
            Cond::Not(_) => {
                with(&|r| r.cond = Cond::Not(Box::new(simple_leaf())));
            }
            _ => {}
        }
        // actions
        if r.actions.len() > 1 {
            for ai in 0..r.actions.len() {
                with(&|r| {
                    r.actions.remove(ai);
                });
            }
        }
        for ai in 0..r.actions.len() {
            with(&|r| r.actions[ai] = simple_action());
            if let Action::Set { target, .. } = &r.actions[ai] {
                let t = target.clone();
                with(&|r| r.actions[ai] = Action::Set { target: t.clone(), rhs: Rhs::Lit(V::Int(1)) });
            }
            if let Action::Call(n, args) | Action::Method(_, n, args) = &r.actions[ai] {
                if args.len() > 1 {
                    let (n, a0) = (n.clone(), args[0].clone());
                    with(&|r| r.actions[ai] = Action::Call(n.clone(), vec![a0.clone()]));
                }
            }
        }
        // hostile strings → benign
        let mut idx = 0usize;
        let mut r_probe = r.clone();
        let mut hostile_idx = Vec::new();
        visit_strings(&mut r_probe, &mut |_pos, s| {
            if string_class(s).is_some() || s.contains(' ') {
                hostile_idx.push(idx);
            }
            idx += 1;
        });
        for h in hostile_idx {
            with(&|r| {
                let mut k = 0usize;
                visit_strings(r, &mut |_pos, s| {
                    if k == h {
                        *s = "x".into();
                    }
                    k += 1;
                });
            });
        }
    }
    out
}

fn shrink(case: &Case, fail: &Fail) -> (Case, Fail) {
    let clause = fail.clause.clone();
    let mut best = case.clone();
    let mut bf = fail.clone();
    let mut budget = 8000usize;
    'outer: loop {
        for cand in candidates(&best) {
            if budget == 0 {
                break 'outer;
            }
            budget -= 1;
            if let Some(f) = same_fail(&cand, &clause) {
                best = cand;
                bf = f;
                continue 'outer;
            }
        }
        break;
    }
    (best, bf)
}

/// The features of the documented grammar that are "hostile" to a text-splitting parser. After
/// shrinking, the surviving hostile features are the cause; when none survives the failure is
/// on plain grammar and the signature spells out clause and remaining structure.
fn is_cause_tag(t: &str) -> bool {
    t.starts_with("string[")
        || t.contains("comment")
        || t.starts_with("layout:")
        || t == "salience:negative"
        || t == "salience:i32-min"
        || t == "bare-boolean-attribute-spelling"
        || t.starts_with("entry:")
}

/// Signatures of the open C04 findings as cause sets (loaded once).
fn known_cause_sets() -> &'static Vec<(String, BTreeSet<String>)> {
    static K: std::sync::OnceLock<Vec<(String, BTreeSet<String>)>> = std::sync::OnceLock::new();
    K.get_or_init(|| {
        let mut v: Vec<(String, BTreeSet<String>)> = load_findings(&find_root())
            .into_iter()
            .filter(|f| f.open && f.property == "C04" && !f.sig.starts_with("C04|plain-grammar|"))
            .filter_map(|f| f.sig.strip_prefix("C04|").map(|rest| (f.sig.clone(), rest.split('+').map(|x| x.to_string()).collect())))
            .collect();
        // larger sets first: the most specific listed explanation wins
        v.sort_by(|a, b| b.1.len().cmp(&a.1.len()).then(a.0.cmp(&b.0)));
        v
    })
}

/// A file that still carries several hostile features after shrinking (an interaction, or a
/// shrink that ran out of budget) is attributed to a listed finding whose features it contains:
/// a file tainted by a feature the parser is known to mishandle proves nothing new. Files whose
/// surviving features are not covered by any listed finding keep their full signature.
fn subsume(causes: &[String]) -> String {
    let full = format!("C04|{}", causes.join("+"));
    let set: BTreeSet<String> = causes.iter().cloned().collect();
    for (sig, ks) in known_cause_sets() {
        if *sig == full {
            return full;
        }
        if ks.is_subset(&set) {
            return sig.clone();
        }
    }
    full
}

fn to_violation(case: &Case, fail: &Fail) -> Violation {
    let t = tags(case, fail);
    let causes: Vec<String> = t
        .iter()
        .filter(|x| is_cause_tag(x))
        .map(|x| {
            // position coarsened to header / body: where exactly inside the body a literal sits
            // only changes which symptom appears
            x.replace("string[rule-name]", "string[header]")
                .replace("string[description]", "string[header]")
                .replace("string[attribute-value]", "string[header]")
                .replace("string[condition]", "string[when]")
                .replace("string[assignment]", "string[then]")
                .replace("string[call-argument]", "string[then]")
        })
        .collect::<BTreeSet<_>>()
        .into_iter()
        .collect();
    let sig = if causes.is_empty() {
        format!("C04|plain-grammar|{}|{}", fail.clause, if t.is_empty() { "minimal-rule".to_string() } else { t.join("+") })
    } else {
        subsume(&causes)
    };
    Violation { clause: fail.clause.clone(), sig, detail: fail.detail.clone(), case: case.to_json() }
}

// ------------------------------------------------------------------ generation

fn gen_action(rng: &mut Rng) -> Action {
    let h = Hostile::default();
    match rng.below(14) {
        0..=4 => gen::gen_set(rng, &h),
        5 => Action::Append { target: rng.pick(&["Order.notes", "tags", "Log.items"]).to_string(), rhs: Rhs::Lit(V::Str(rng.pick(&gen::STRS[..4]).to_string())) },
        6 => Action::Log(rng.pick(&["done", "Order approved", "step 2"]).to_string()),
        7 => Action::Retract(rng.pick(&["Session", "TempData", "Order"]).to_string()),
        8 => Action::ActivateAgendaGroup(rng.pick(&["validation", "processing"]).to_string()),
        9 => Action::ScheduleRule(*rng.pick(&[0u64, 500, 5000]), rng.pick(&["next-rule", "Cleanup"]).to_string()),
        10 => Action::CompleteWorkflow(rng.pick(&["order-flow", "wf1"]).to_string()),
        11 | 12 => {
            let n = rng.below(4);
            let args = (0..n)
                .map(|_| match rng.below(4) {
                    0 => Rhs::Lit(V::Int(*rng.pick(&[0i64, 7, 42]))),
                    1 => Rhs::Lit(V::Str(rng.pick(&["msg", "Order approved", "a"]).to_string())),
                    2 => Rhs::FieldRef(rng.pick(&["Order.total", "user.name", "x0"]).to_string()),
                    _ => Rhs::Lit(V::Bool(rng.bool())),
                })
                .collect();
            Action::Call(rng.pick(&["notify", "sendEmail", "set_status", "apply_discount"]).to_string(), args)
        }
        _ => {
            let n = rng.below(3);
            let args = (0..n)
                .map(|_| match rng.below(3) {
                    0 => Rhs::Lit(V::Int(*rng.pick(&[0i64, 7, 42]))),
                    1 => Rhs::Lit(V::Str(rng.pick(&["fast", "a"]).to_string())),
                    _ => Rhs::Lit(V::Bool(rng.bool())),
                })
                .collect();
            Action::Method(rng.pick(&["Car", "Order"]).to_string(), rng.pick(&["setSpeed", "update", "setStatus"]).to_string(), args)
        }
    }
}

fn gen_rule(rng: &mut Rng, idx: usize, allow_negative_salience: bool) -> RuleAst {
    let h = Hostile { array_contains: true, concat_lit_arith_char: false, undefined_mix: false, fact_name_literals: false };
    let depth = 1 + rng.below(5);
    let quoted = rng.chance(3, 4);
    let name = if quoted {
        match rng.below(4) {
            0 => format!("Rule {} check", idx),
            1 => format!("R{}-v2", idx),
            _ => format!("R{}", idx),
        }
    } else {
        match rng.below(3) {
            0 => format!("Check_{}", idx),
            _ => format!("R{}", idx),
        }
    };
    let salience = if rng.chance(2, 3) {
        if allow_negative_salience && rng.chance(1, 2) {
            Some(*rng.pick(&[-1, -5, -100, i32::MIN]))
        } else {
            Some(*rng.pick(&[0, 1, 10, 100, 65536, i32::MAX]))
        }
    } else {
        None
    };
    RuleAst {
        name,
        quoted_name: quoted,
        description: if rng.chance(1, 4) { Some(rng.pick(&["Age verification", "checks the order total", "v2"]).to_string()) } else { None },
        attrs: Attrs {
            salience,
            no_loop: rng.chance(1, 3),
            lock_on_active: rng.chance(1, 5),
            agenda_group: if rng.chance(1, 4) { Some(rng.pick(&["validation", "processing", "group two"]).to_string()) } else { None },
            activation_group: if rng.chance(1, 5) { Some(rng.pick(&["discounts", "shipping"]).to_string()) } else { None },
            date_effective: if rng.chance(1, 8) { Some(rng.pick(&["2025-12-01T00:00:00Z", "2024-02-29T12:30:00+02:00"]).to_string()) } else { None },
            date_expires: if rng.chance(1, 8) { Some(rng.pick(&["2025-12-31T23:59:59Z", "2031-01-01T00:00:00Z"]).to_string()) } else { None },
        },
        cond: gen::gen_cond(rng, depth, &h),
        actions: (0..1 + rng.below(4)).map(|_| gen_action(rng)).collect(),
    }
}

/// texts of tight block comments `/*text*/`: doc-comment and banner shapes
const TIGHT_COMMENT_TEXTS: [&str; 8] = ["", "*", "**", "* doc *", "* banner **", "*** box ***", "**** box ****", "x"];

const COMMENT_TEXTS: [&str; 10] = [
    "check customer tier", "TODO", "Greater than", "apply the discount; then stop", "this rule fires first", "see rule R0 below", "closing } later", "when in doubt", "a && b", "50% off",
];

fn gen_case(rng: &mut Rng) -> Case {
    let n = rng.below(9);
    let hostile_strings = rng.chance(1, 3);
    let allow_neg = rng.chance(1, 6);
    let mut rules: Vec<RuleAst> = (0..n).map(|i| gen_rule(rng, i, allow_neg)).collect();
    if hostile_strings {
        for r in rules.iter_mut() {
            visit_strings(r, &mut |pos, s| {
                if pos != "rule-name" && rng.chance(1, 5) {
                    *s = rng.pick(&HOSTILE_STRINGS).to_string();
                } else if pos == "rule-name" && rng.chance(1, 12) {
                    *s = format!("{} {}", s, rng.pick(&["no-loop", "when then", "salience 5", "(v2)"]));
                }
            });
        }
    }
    let mut features: Vec<LayoutFeature> = Vec::new();
    if rng.chance(3, 5) {
        for f in ALL_LAYOUT_FEATURES {
            // arithmetic/operator tightness are rarer: they interact with how expressions are recognised
            let p = match f {
                LayoutFeature::NoSpaceAroundArithmetic => 12,
                LayoutFeature::NoSpaceAroundOperators => 6,
                _ => 4,
            };
            if rng.chance(1, p) {
                features.push(f);
            }
        }
    }
    let mixed = !features.is_empty() && rng.bool();
    let mut comments = Vec::new();
    if rng.chance(1, 3) {
        for _ in 0..1 + rng.below(3) {
            comments.push(Comment {
                kind: match rng.below(3) {
                    0 => CommentKind::Line,
                    1 => CommentKind::Trailing,
                    _ => CommentKind::Block,
                },
                text: if rng.chance(1, 2) { COMMENT_TEXTS[rng.below(3)].to_string() } else { rng.pick(&COMMENT_TEXTS).to_string() },
                slot: rng.below(1000),
            });
            if rng.chance(1, 4) {
                let c = comments.last_mut().unwrap();
                c.kind = CommentKind::BlockTight;
                c.text = rng.pick(&TIGHT_COMMENT_TEXTS).to_string();
            }
        }
    }
    // comments that need line structure make no sense on a one-line layout
    if features.contains(&LayoutFeature::OneLine) {
        comments.retain(|c| matches!(c.kind, CommentKind::Block | CommentKind::BlockTight));
    }
    Case {
        rules,
        layout: LayoutSpec { features, mixed, seed: rng.next_u64() >> 1, comments },
        attr_perm: if rng.bool() { 0 } else { rng.next_u64() >> 1 },
        bare_bool_attrs: rng.chance(1, 4),
        adjacent_not: rng.chance(1, 3),
    }
}

/// Exhaustive single-feature sweep: each hostile string alone in each syntactic position, each
/// comment kind x text alone, each layout alone, on one fixed two-action rule.
fn feature_sweep() -> Vec<Case> {
    let base = RuleAst {
        name: "Base".into(),
        quoted_name: true,
        description: None,
        attrs: Attrs::default(),
        cond: Cond::And(
            Box::new(Cond::Leaf(Leaf { lhs: Lhs::Field("Order.status".into()), op: Op::Eq, rhs: Rhs::Lit(V::Str("open".into())) })),
            Box::new(Cond::Leaf(Leaf { lhs: Lhs::Field("Order.total".into()), op: Op::Gt, rhs: Rhs::Lit(V::Int(100)) })),
        ),
        actions: vec![
            Action::Set { target: "Order.note".into(), rhs: Rhs::Lit(V::Str("checked".into())) },
            Action::Log("order checked".into()),
            Action::Call("notify".into(), vec![Rhs::Lit(V::Str("ops".into())), Rhs::Lit(V::Int(1))]),
        ],
    };
    let plain = |r: RuleAst, layout: LayoutSpec| Case { rules: vec![r], layout, attr_perm: 0, bare_bool_attrs: false, adjacent_not: false };
    let mut out = vec![plain(base.clone(), LayoutSpec::canonical())];
    // strings × positions
    let positions = ["rule-name", "description", "attribute-value", "condition", "assignment", "call-argument"];
    for hs in HOSTILE_STRINGS {
        for pos in positions {
            let mut r = base.clone();
            if pos == "description" {
                r.description = Some("d".into());
            }
            if pos == "attribute-value" {
                r.attrs.agenda_group = Some("g".into());
            }
            let mut done = false;
            visit_strings(&mut r, &mut |p, s| {
                if p == pos && !done {
                    *s = hs.to_string();
                    done = true;
                }
            });
            out.push(plain(r, LayoutSpec::canonical()));
        }
    }
    // layouts
    for f in ALL_LAYOUT_FEATURES {
        out.push(plain(base.clone(), LayoutSpec { features: vec![f], mixed: false, seed: 0, comments: vec![] }));
        for seed in 1..=3u64 {
            out.push(plain(base.clone(), LayoutSpec { features: vec![f], mixed: true, seed, comments: vec![] }));
        }
    }
    for f in ALL_LAYOUT_FEATURES {
        for g in ALL_LAYOUT_FEATURES {
            if f < g {
                out.push(plain(base.clone(), LayoutSpec { features: vec![f, g], mixed: false, seed: 0, comments: vec![] }));
            }
        }
    }
    // comments: kind × text × a few slots
    for kind in [CommentKind::Line, CommentKind::Trailing, CommentKind::Block] {
        for text in COMMENT_TEXTS {
            for slot in 0..12usize {
                out.push(plain(base.clone(), LayoutSpec { features: vec![], mixed: false, seed: 0, comments: vec![Comment { kind: kind.clone(), text: text.to_string(), slot }] }));
            }
        }
    }
    for text in TIGHT_COMMENT_TEXTS {
        for slot in 0..12usize {
            out.push(plain(base.clone(), LayoutSpec { features: vec![], mixed: false, seed: 0, comments: vec![Comment { kind: CommentKind::BlockTight, text: text.to_string(), slot }] }));
        }
    }
    // attributes: each alone, each salience value, both spellings
    for sal in [0, 1, 10, i32::MAX, -1, -5, i32::MIN] {
        let mut r = base.clone();
        r.attrs.salience = Some(sal);
        out.push(plain(r, LayoutSpec::canonical()));
    }
    for k in 0..6 {
        for bare in [false, true] {
            let mut r = base.clone();
            match k {
                0 => r.attrs.no_loop = true,
                1 => r.attrs.lock_on_active = true,
                2 => r.attrs.agenda_group = Some("validation".into()),
                3 => r.attrs.activation_group = Some("discounts".into()),
                4 => r.attrs.date_effective = Some("2025-12-01T00:00:00Z".into()),
                _ => r.attrs.date_expires = Some("2025-12-31T23:59:59Z".into()),
            }
            let mut c = plain(r, LayoutSpec::canonical());
            c.bare_bool_attrs = bare;
            out.push(c);
        }
    }
    out
}

fn record(case: &Case, st: &mut Stats) {
    st.eval();
    let f = match pan::catch_frames(|| judge(case)) {
        Ok(f) => f,
        Err(p) => {
            st.inconclusive(format!("harness panic in judge: {} at {}:{}", p.msg, p.file, p.line));
            return;
        }
    };
    st.add("rules_written", case.rules.len() as u64);
    for f in &case.layout.features {
        st.count(&format!("layout_feature::{:?}", f));
    }
    if case.layout.features.is_empty() {
        st.count("layout_canonical");
    }
    st.add("comments_written", case.layout.comments.len() as u64);
    let mut hostile = 0u64;
    for r in &case.rules {
        let mut r2 = r.clone();
        visit_strings(&mut r2, &mut |_p, s| {
            if string_class(s).is_some() {
                hostile += 1;
            }
        });
    }
    st.add("hostile_string_literals_written", hostile);
    match f {
        None => {
            st.add("rules_parsed_equal_to_written", case.rules.len() as u64);
            if !case.rules.is_empty() {
                st.nontrivial(hash_of(&format!("{:?}", case)));
                st.sample(|| json!({"text": case.text()}));
            }
        }
        Some(fail) => {
            // Shrinking costs thousands of parses. Files that carry hostile features are shrunk
            // until the same raw feature set has been explained several times by signatures
            // already seen; files on plain grammar are always shrunk.
            let raw: Vec<String> = tags(case, &fail).into_iter().filter(|t| is_cause_tag(t)).collect();
            let key = format!("shrink_cache::{}", raw.join("+"));
            if !raw.is_empty() && st.get(&key) >= 4 {
                st.count("failing_files_not_shrunk_(raw_hostile_feature_set_already_explained_4_times)");
                return;
            }
            let (c, f) = match pan::catch(|| shrink(case, &fail)) {
                Ok(x) => x,
                Err(_) => (case.clone(), fail),
            };
            let v = to_violation(&c, &f);
            if !raw.is_empty() {
                if st.violations.iter().any(|x| x.sig == v.sig) {
                    st.count(&key);
                }
            }
            st.violation(v);
        }
    }
}

struct C04;

impl Check for C04 {
    fn id(&self) -> &'static str {
        "C04"
    }
    fn rule(&self) -> String {
        "rule files generated from the documented grammar with their AST: 0-8 rules; quoted/bare names; optional description; every attribute in shuffled order and both boolean spellings; salience incl. i32 extremes (negatives in 1/6 of files); condition trees to depth 5 over field/literal/field-reference/arithmetic leaves with every documented operator; literals of every type; actions Set/Append/Log/Retract/ActivateAgendaGroup/ScheduleRule/CompleteWorkflow/custom call/method call; 8 independent layout features on top of the canonical layout (one line, spaces inside parentheses, no space around operators, no space around arithmetic operators, one token per line, tabs, wide spaces, blank lines; applied everywhere or per position at random); //-line, trailing-// and /* */ comments at whitespace positions (1/3 of files); hostile string contents (22 metacharacter classes) in 1/3 of files; parsed by parse_rules, parse_with_modules and (rule by rule) parse_rule and compared structurally. Plus the exhaustive single-feature sweep (each hostile string in each of 6 syntactic positions, each comment kind x text x 12 slots, each layout, each attribute alone in both spellings, 7 salience values) on one fixed rule. Non-trivial: a non-empty file whose every rule was parsed equal to what was written; distinct by the whole case.".into()
    }
    fn assumptions(&self) -> Vec<String> {
        vec![
            "expected encodings: a bare identifier/path on the right is Value::Expression(path); an arithmetic leaf is one leaf carrying the same token sequence; And/Or chains are compared flattened (associativity is not observable)".into(),
            "Rule.description is not compared (the statement does not list it)".into(),
            "the grammar is the one of docs/core-features/GRL_SYNTAX.md plus the forms shown in README/examples (Retract(\"X\"), Log(\"..\"), custom calls, $Obj.method(..)); SetWorkflowData is left out (only a source comment documents it)".into(),
        ]
    }
    fn explore(&self, cli: &Cli, st: &mut Stats) {
        let sweep = feature_sweep();
        let s = &sweep;
        let nthreads = cli.threads;
        shards(cli, nthreads, st, |shard, _rng, st| {
            for (i, c) in s.iter().enumerate() {
                if i % nthreads == shard {
                    record(c, st);
                }
            }
        });
        st.exhaustive.push(format!("single-feature sweep: {} files (22 hostile strings x 6 positions, 3 comment kinds x 10 texts x 12 slots, 8 layout features alone (x4 placements) and in all 28 pairs, 7 salience values, 6 attributes x 2 spellings) on one fixed rule", sweep.len()));
        let per = cli.n(1_000, 25_000);
        shards(cli, nthreads, st, |_shard, rng, st| {
            for _ in 0..per {
                if cli.expired() {
                    st.count("stopped_by_time_budget");
                    break;
                }
                let c = gen_case(rng);
                record(&c, st);
            }
        });
    }
    fn replay(&self, _cli: &Cli, case: &Json) -> Vec<Violation> {
        let Some(c) = Case::from_json(case) else {
            return vec![Violation { clause: "harness".into(), sig: "C04|harness|bad-case".into(), detail: "cannot decode case".into(), case: case.clone() }];
        };
        match judge(&c) {
            Some(f) => {
                let (c2, f2) = shrink(&c, &f);
                vec![to_violation(&c2, &f2)]
            }
            None => vec![],
        }
    }
}

fn main() {
    run_main(C04)
}
