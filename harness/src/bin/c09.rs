//! C09 — backward chaining proves only derivable goals, and finds bounded proofs (DFS).
//!
//! Every generated case is ONE query against a fresh `BackwardEngine` (memoisation off; C11 owns
//! it). Three clauses, checked in this order on what the engine handed back:
//!   S1  provable  =>  the goal comparison is True on the facts handed back (reference evaluator)
//!   S2  provable  =>  the goal is satisfiable in the multi-valued forward closure of the rules
//!                     on the initial facts (an over-approximation: only flags answers that no
//!                     firing sequence whatsoever could justify)
//!   K   (DFS, max_solutions = 1) a definite derivation of height <= max_depth through
//!       conjunctive rules over single-valued fields exists  =>  provable
//! Err / panic are "no verdict" (counted), Undefined comparisons are skipped and counted.

#[path = "../bc_common.rs"]
mod bc_common;

use bc_common::*;
use rre_verif::*;
use rust_rule_engine::engine::rule::Rule;

pub const S1: &str = "S1-goal-true-in-returned-facts";
pub const S2: &str = "S2-goal-in-forward-closure";
pub const K: &str = "K-bounded-completeness-dfs";

#[derive(Clone, Debug)]
enum Verdict {
    Held { s_checked: bool, k_height: Option<usize> },
    NoVerdict(String),
    SkippedUndefined,
    Violation { clause: &'static str, detail: String },
}

fn show_facts(m: &std::collections::HashMap<String, rust_rule_engine::types::Value>) -> String {
    let mut v: Vec<String> = m.iter().map(|(k, v)| format!("{}={:?}", k, v)).collect();
    v.sort();
    format!("{{{}}}", v.join(", "))
}

fn judge(case: &QCase, obs: &QObs, clo: &Closure) -> Verdict {
    let (provable, solutions) = match &obs.outcome {
        Outcome::Answer { provable, solutions } => (*provable, *solutions),
        Outcome::Error(e) => return Verdict::NoVerdict(format!("Err: {}", e)),
        Outcome::Panic(p) => {
            // a query that panics has not reported the goal provable: where bounded completeness
            // demands "provable" (DFS, one solution, a definite derivation within the depth bound)
            // the panic breaks that clause; everywhere else it is no verdict
            if case.cfg.strat == Strat::Dfs && case.cfg.max_solutions == 1 && !case.cfg.memo && !clo.undefined_seen {
                if let Some(h) = definite_height(&case.kb, &case.facts, &case.goal, clo) {
                    if h <= case.cfg.max_depth {
                        return Verdict::Violation {
                            clause: K,
                            detail: format!(
                                "query `{}` (dfs, max_depth {}) PANICKED ({}) although a derivation of height {} exists through conjunctive rules over single-valued fields, from the initial facts {}",
                                case.goal.text(), case.cfg.max_depth, p, h, show_facts(&obs.before)
                            ),
                        };
                    }
                }
            }
            return Verdict::NoVerdict(format!("panic: {}", p));
        }
    };
    if provable {
        match eval_goal_on(&obs.after, &case.goal) {
            Tv::Undefined => return Verdict::SkippedUndefined,
            Tv::False => {
                return Verdict::Violation {
                    clause: S1,
                    detail: format!(
                        "query `{}` ({}, max_depth {}, max_solutions {}) reported provable ({} recorded solution(s)), but the comparison is false on the facts handed back {} (initial facts {})",
                        case.goal.text(), case.cfg.strat.name(), case.cfg.max_depth, case.cfg.max_solutions, solutions,
                        show_facts(&obs.after), show_facts(&obs.before)
                    ),
                }
            }
            Tv::True => {}
        }
        match clo.goal_sat(&case.goal) {
            Tv::Undefined => return Verdict::SkippedUndefined,
            Tv::False => {
                return Verdict::Violation {
                    clause: S2,
                    detail: format!(
                        "query `{}` ({}) reported provable, but no firing sequence of the rules on the initial facts {} can make it true (values ever derivable for {}: {:?}); facts handed back {}",
                        case.goal.text(), case.cfg.strat.name(), show_facts(&obs.before), case.goal.field,
                        clo.poss.get(&case.goal.field), show_facts(&obs.after)
                    ),
                }
            }
            Tv::True => {}
        }
        return Verdict::Held { s_checked: true, k_height: None };
    }
    // not provable: bounded completeness (DFS; the statement does not depend on how many solutions
    // are asked for, so max_solutions > 1 is judged as well)
    if case.cfg.strat == Strat::Dfs && !case.cfg.memo {
        if clo.undefined_seen {
            return Verdict::SkippedUndefined;
        }
        if let Some(h) = definite_height(&case.kb, &case.facts, &case.goal, clo) {
            if h <= case.cfg.max_depth {
                return Verdict::Violation {
                    clause: K,
                    detail: format!(
                        "query `{}` (dfs, max_depth {}) reported NOT provable although a derivation of height {} exists through conjunctive rules over single-valued fields, from the initial facts {}",
                        case.goal.text(), case.cfg.max_depth, h, show_facts(&obs.before)
                    ),
                };
            }
            return Verdict::Held { s_checked: false, k_height: Some(h) };
        }
    }
    Verdict::Held { s_checked: false, k_height: None }
}

/// WHY the oracle and the code disagree, as an explicit test on the (shrunk) witness.
fn cause(case: &QCase, obs: &QObs, clause: &str) -> &'static str {
    let solutions = match &obs.outcome {
        Outcome::Answer { solutions, .. } => *solutions,
        _ => 0,
    };
    if clause == K && matches!(obs.outcome, Outcome::Panic(_)) {
        return "query-panicked-instead-of-answering";
    }
    if clause == K {
        // the engine finds the operator of a goal pattern with `str::find` over the whole text,
        // trying `>=` and `<=` before `==`: a token inside the quoted literal is taken for the
        // operator
        if has_op_token(&case.goal.lit) {
            return "operator-token-inside-string-literal-of-goal";
        }
        // the engine turns the text `field == 5` of a goal or sub-goal into a comparison against
        // the float 5.0, which no Integer fact or conclusion equals. Atoms that can become such a
        // pattern: the goal itself, and rule-condition atoms on a field that some rule concludes
        // (the sub-goal is "derive it, then check the pattern").
        // the same split happens to the text a rule premise is turned into when it becomes a
        // sub-goal (`condition_to_goal_pattern` then `parse_goal_pattern`): a premise on a field
        // that some rule concludes, whose string literal holds an operator token
        if op_token_can_become_a_subgoal(case) {
            return "operator-token-inside-string-literal-of-sub-goal";
        }
        if int_eq_can_become_a_pattern(case) {
            return "integer-literal-of-goal-pattern-compared-as-float";
        }
        return "unexplained";
    }
    if clause == S2 {
        // every defect known so far hands back facts in which the goal is false (S1 fires
        // first); an answer that holds on the returned facts but is outside the closure has no
        // listed explanation
        return "unexplained";
    }
    // S1
    if case.cfg.max_solutions > 1 {
        // (the shrinker has already tried max_solutions = 1)
        return "multi-solution-search-rolls-back-the-solution-it-reports";
    }
    if solutions >= 1 && case.cfg.strat != Strat::Bfs {
        // max_solutions == 1: a solution is only ever recorded together with `return true, keep
        // the facts`, so a recorded solution next to returned facts that do not satisfy the goal
        // was recorded for another (sub-)goal
        return "solution-recorded-for-a-subgoal-counted-for-the-failed-parent";
    }
    if has_op_token(&case.goal.lit) {
        return "operator-token-inside-string-literal-of-goal";
    }
    if is_int_eq(&case.goal) {
        // no solution recorded: the goal was accepted by the direct check against the facts,
        // which compares the Integer fact with the literal as a float (`!=` always true)
        return "integer-literal-of-goal-pattern-compared-as-float";
    }
    "unexplained"
}

fn op_token_can_become_a_subgoal(case: &QCase) -> bool {
    case.kb.rules.iter().any(|r| {
        let mut v = Vec::new();
        r.cond.atoms(&mut v);
        v.into_iter()
            .any(|a| has_op_token(&a.lit) && case.kb.rules.iter().any(|c| c.sets.iter().any(|(f, _)| *f == a.field)))
    })
}

fn int_eq_can_become_a_pattern(case: &QCase) -> bool {
    if is_int_eq(&case.goal) {
        return true;
    }
    case.kb.rules.iter().any(|r| {
        let mut v = Vec::new();
        r.cond.atoms(&mut v);
        v.into_iter()
            .any(|a| is_int_eq(a) && case.kb.rules.iter().any(|c| c.sets.iter().any(|(f, _)| *f == a.field)))
    })
}

fn reps_for(case: &QCase, explore: bool) -> usize {
    if top_candidates(&case.kb, &case.goal) > 1 {
        if explore {
            3
        } else {
            24
        }
    } else {
        1
    }
}

/// Run the case up to `reps` times (the conclusion index hands candidate rules over in HashSet
/// order, so two engine instances may try them in different orders); the first violating run wins.
fn run_case(case: &QCase, rules: &[Rule], clo: &Closure, reps: usize) -> (Verdict, Option<QObs>) {
    let mut last: (Verdict, Option<QObs>) = (Verdict::NoVerdict("not run".into()), None);
    for _ in 0..reps.max(1) {
        let obs = match run_query_text(rules, &case.facts, &case.goal_text(), &case.cfg) {
            Ok(o) => o,
            Err(e) => return (Verdict::NoVerdict(e), None),
        };
        let v = judge(case, &obs, clo);
        let is_v = matches!(v, Verdict::Violation { .. });
        last = (v, Some(obs));
        if is_v {
            break;
        }
    }
    last
}

fn fails_same(case: &QCase, clause: &str, reps: usize) -> Option<(String, QObs)> {
    let rules = build_rules_direct(&case.kb);
    let clo = closure(&case.kb, &case.facts);
    match run_case(case, &rules, &clo, reps) {
        (Verdict::Violation { clause: c, detail }, Some(obs)) if c == clause => Some((detail, obs)),
        _ => None,
    }
}

fn shrink(case: &QCase, clause: &str) -> QCase {
    let mut cur = case.clone();
    let mut budget = 250usize;
    'outer: loop {
        for cand in query_simplifications(&cur) {
            if budget == 0 {
                break 'outer;
            }
            budget -= 1;
            let reps = if top_candidates(&cand.kb, &cand.goal) > 1 { 6 } else { 1 };
            if fails_same(&cand, clause, reps).is_some() {
                cur = cand;
                continue 'outer;
            }
        }
        break;
    }
    // rule names R0.. in order, so that equal witnesses serialise equally
    for (i, r) in cur.kb.rules.iter_mut().enumerate() {
        r.name = format!("R{}", i);
    }
    cur
}

fn violation_of(case: &QCase, clause: &str, detail: &str, obs: &QObs) -> Violation {
    Violation {
        clause: clause.to_string(),
        sig: format!("C09|{}|{}", clause, cause(case, obs, clause)),
        detail: detail.to_string(),
        case: case.to_json(),
    }
}

fn report(case: &QCase, clause: &'static str, detail: String, obs: QObs, st: &mut Stats) {
    let shrunk = shrink(case, clause);
    // the shrunk case must reproduce through the real parser, else the original is reported
    if let Ok(rules) = parse_kb(&shrunk.kb) {
        let clo = closure(&shrunk.kb, &shrunk.facts);
        if let (Verdict::Violation { clause: c, detail: d }, Some(o)) = run_case(&shrunk, &rules, &clo, 32) {
            if c == clause {
                st.violation(violation_of(&shrunk, clause, &d, &o));
                return;
            }
        }
    }
    st.count("shrunk_case_did_not_reproduce_through_parser");
    st.violation(violation_of(case, clause, &detail, &obs));
}

fn check_case(case: &QCase, rules: &[Rule], st: &mut Stats) {
    let clo = closure(&case.kb, &case.facts);
    let reps = reps_for(case, true);
    let (verdict, obs) = run_case(case, rules, &clo, reps);
    st.eval();
    st.count(&format!("queries_{}", case.cfg.strat.name()));
    if reps > 1 {
        st.count("cases_with_several_top_level_candidates_(run_3x)");
    }
    let cands = top_candidates(&case.kb, &case.goal);
    if let Some(o) = &obs {
        match o.provable() {
            Some(true) => st.count("answers_provable"),
            Some(false) => st.count("answers_not_provable"),
            None => {}
        }
        if o.undo_after > o.undo_before {
            st.count("queries_that_left_undo_frames_open");
            st.max("max::undo_frames_left_open", (o.undo_after - o.undo_before) as u64);
        }
        st.max("max::goals_explored_in_one_query", o.goals_explored as u64);
        if clo.derived > 0 && cands > 0 && o.provable().is_some() {
            st.nontrivial(hash_of(case));
            st.sample(|| case.to_json());
        }
    }
    match verdict {
        Verdict::Held { s_checked, k_height } => {
            if s_checked {
                st.count("S1_S2_checked_on_provable_answers");
            }
            if let Some(h) = k_height {
                st.count("K_derivation_exists_but_deeper_than_max_depth");
                st.max("max::definite_derivation_height_seen", h as u64);
            }
            // a provable DFS answer for which the reference also has a bounded derivation
            if let Some(o) = &obs {
                if o.provable() == Some(true) && case.cfg.strat == Strat::Dfs && case.cfg.max_solutions == 1 {
                    if let Some(h) = definite_height(&case.kb, &case.facts, &case.goal, &clo) {
                        if h <= case.cfg.max_depth {
                            st.count("K_checked_(bounded_derivation_exists_and_was_found)");
                            st.count(&format!("K_checked_height_{}", h));
                        }
                    }
                }
            }
        }
        Verdict::NoVerdict(why) => {
            st.count("no_verdict_(Err_or_panic)");
            if let Some(rest) = why.strip_prefix("panic: ") {
                // which panic, by its class and frame (`msg at file:line [class|frame]`)
                let tag = rest.rsplit_once('[').map(|(_, t)| t.trim_end_matches(']').to_string()).unwrap_or_else(|| "unclassified".into());
                st.count(&format!("query_panicked_(no_answer_to_judge)::{}{}", if is_devopt_build() { "devopt-build::" } else { "" }, tag));
            }
            if st.notes.len() < 10 {
                st.notes.push(format!("no verdict: {}", why.chars().take(200).collect::<String>()));
            }
        }
        Verdict::SkippedUndefined => st.count("skipped_undefined"),
        Verdict::Violation { clause, detail } => {
            st.count(&format!("violations_before_shrinking_{}", clause));
            if let Some(o) = obs {
                report(case, clause, detail, o, st);
            }
        }
    }
}

// ---------------------------------------------------------------------------------------------
// the fixed family that is enumerated completely
// ---------------------------------------------------------------------------------------------

fn family_pool() -> Vec<RuleG> {
    let t = |f: &str| Cond::Atom(Atom { field: f.into(), op: Op::Eq, lit: Lit::B(true) });
    let and = |a: Cond, b: Cond| Cond::And(Box::new(a), Box::new(b));
    let or = |a: Cond, b: Cond| Cond::Or(Box::new(a), Box::new(b));
    let r = |cond: Cond, f: &str, v: bool| RuleG { name: String::new(), salience: 0, cond, sets: vec![(f.into(), Lit::B(v))] };
    vec![
        r(t("A"), "B", true),
        r(t("B"), "T.b", true),
        r(t("A"), "T.b", true),
        r(t("T.b"), "A", true),
        r(and(t("A"), t("B")), "T.b", true),
        r(t("A"), "B", false),
        r(t("B"), "T.b", false),
        r(or(t("A"), t("B")), "T.b", true),
        // thorough only from here
        r(t("B"), "A", true),
        r(t("T.b"), "B", true),
        r(Cond::Atom(Atom { field: "B".into(), op: Op::Ne, lit: Lit::B(true) }), "T.b", true),
        r(and(t("A"), t("T.b")), "B", true),
    ]
}

fn family_goals() -> Vec<Atom> {
    let mut g = Vec::new();
    for f in ["A", "B", "T.b"] {
        for op in [Op::Eq, Op::Ne] {
            for v in [true, false] {
                g.push(Atom { field: f.into(), op, lit: Lit::B(v) });
            }
        }
    }
    g
}

// ---------------------------------------------------------------------------------------------
// Miri on the BFS strategy (the crate's only `unsafe`)
// ---------------------------------------------------------------------------------------------

fn run_miri(cli: &Cli, st: &mut Stats) {
    // two aliasing models: Stacked Borrows (default) and Tree Borrows, different seeds
    for (model, flags, seed) in [
        ("stacked-borrows", "-Zmiri-disable-isolation", cli.seed),
        ("tree-borrows", "-Zmiri-disable-isolation -Zmiri-tree-borrows", cli.seed.wrapping_add(1)),
    ] {
        run_miri_once(cli, st, model, flags, seed);
    }
}

fn run_miri_once(cli: &Cli, st: &mut Stats, model: &str, flags: &str, seed: u64) {
    let workloads = "60";
    let dir = cli.root.join("miri-bc");
    if !dir.join("Cargo.toml").exists() {
        st.inconclusive("miri: <root>/miri-bc is missing");
        return;
    }
    let target = std::env::var("VERIF_MIRI_TARGET")
        .map(std::path::PathBuf::from)
        .unwrap_or_else(|_| cli.root.join("target").join("miri-bc"));
    let mut cmd = std::process::Command::new("cargo");
    cmd.current_dir(&dir)
        .env("CARGO_TARGET_DIR", &target)
        .env("MIRIFLAGS", flags)
        .env_remove("RUSTFLAGS")
        .env_remove("LD_PRELOAD")
        .args(["+nightly", "miri", "run", "--offline", "--quiet", "--"])
        .arg(seed.to_string())
        .arg(workloads);
    let out = match cmd.output() {
        Ok(o) => o,
        Err(e) => {
            st.inconclusive(format!("miri ({}): cannot start cargo: {}", model, e));
            return;
        }
    };
    let stdout = String::from_utf8_lossy(&out.stdout).to_string();
    let stderr = String::from_utf8_lossy(&out.stderr).to_string();
    if stderr.contains("Undefined Behavior") {
        let text: String = stderr
            .lines()
            .skip_while(|l| !l.contains("Undefined Behavior"))
            .take(40)
            .collect::<Vec<_>>()
            .join("\n");
        st.violation(Violation {
            clause: "miri-bfs-unsafe".into(),
            sig: "C09|miri-bfs-unsafe|undefined-behaviour-reported".into(),
            detail: format!("[{}] {}", model, text),
            case: json!({"miri": true, "model": model, "flags": flags, "seed": seed, "workloads": workloads}),
        });
        return;
    }
    if !out.status.success() {
        let lines: Vec<&str> = stderr.lines().collect();
        let tail = lines[lines.len().saturating_sub(12)..].join(" | ");
        st.inconclusive(format!(
            "miri ({}): build or run failed (exit {:?}): {}",
            model,
            out.status.code(),
            tail.chars().take(600).collect::<String>()
        ));
        return;
    }
    // the workload prints one summary line
    let mut ok = false;
    for l in stdout.lines() {
        if let Some(rest) = l.strip_prefix("MIRI-BC ok ") {
            ok = true;
            for kv in rest.split_whitespace() {
                if let Some((k, v)) = kv.split_once('=') {
                    if let Ok(n) = v.parse::<u64>() {
                        st.add(&format!("miri_{}", k), n);
                    }
                }
            }
        }
    }
    if !ok {
        st.inconclusive(format!("miri ({}): workload finished without its summary line", model));
    } else {
        st.count(&format!("miri_bfs_run_clean_{}", model));
    }
}

// ---------------------------------------------------------------------------------------------

struct C09;

impl Check for C09 {
    fn id(&self) -> &'static str {
        "C09"
    }
    fn rule(&self) -> String {
        "random: Horn-style KBs of 1..=8 rules generated as GRL text (parsed by the real parser; the parsed rules must equal the generator's AST or the KB is skipped) over 8 typed fields (4 flat, 4 dotted `T.x`/`U.x`; bool/string/int literals; conditions And/Or to depth 2): an intended chain of depth 1..=6 plus distractors (wrong-value conclusions, dead ends, 2- and 3-cycles, alternative routes, parents with two sub-goals, arbitrary rules), 14 queries per KB (ordering goals on integers are also asked with the literal in exponent notation, `0.5e1` for 5): initial facts with/without the chain root and side facts (flat or nested objects), atomic goals `field op literal` over the six comparison operators aimed at / away from the chain, max_depth 0..=6, strategies dfs/bfs/iterative 6:2:2, max_solutions 1 (5/6) or 3 (1/6), memoisation off. Integer ==/!= atoms (1/6), string predicates (1/5), positive saliences (1/3), nested facts (1/6), a string value containing, or ending in, an operator token (`a>=b`, `a>=`, `<=`) as fact and goal literal (1/30), one fact of the wrong type (1/40, oracle Undefined) are each on in a minority of KBs. A case with two or more top-level candidate rules is run 3x (candidate order comes from a HashSet). exhaustive: every ordered triple from a fixed pool of bool rules (8 quick / 12 thorough; chains, cycles, And, Or, wrong-value, `!=`) x 12 goals x max_depth (0,1,2,6 quick / 0..=6 thorough) x strategy (dfs quick / all three thorough) x initial facts ({A}, {} thorough). A case is non-trivial when the reference closure derives at least one fact that is not initial AND the engine has at least one candidate rule for the goal AND the engine answered; distinct by structural hash of (rules, facts, goal, config). thorough additionally runs a Miri workload on the BFS strategy (direct Goal trees with sub-goals through the raw-pointer queue, and BFS queries).".into()
    }
    fn assumptions(&self) -> Vec<String> {
        vec![
            "height of a derivation: initial facts 0, one rule application +1; a goal already true in the facts has height 0".into(),
            "K is only judged when every field the derivation reads is single-valued in the multi-valued closure (a `!=` atom additionally needs a field whose presence never changes), DFS, max_solutions = 1".into(),
            "cross-type comparisons, and a dotted path present both nested and flat with different values, are Undefined: skipped and counted".into(),
            "Err of query() is 'no verdict' (counted); a panic is 'no verdict' for the soundness clauses and a violation of bounded completeness where that clause applies (a query that panics has not reported a derivable goal provable)".into(),
            "the engine's answer may depend on HashSet iteration order of the conclusion index; a violation seen in any run of a case is a violation (replay runs a case up to 24 times)".into(),
        ]
    }

    fn devopt_scale(&self) -> Option<f64> {
        Some(0.15)
    }
    fn explore(&self, cli: &Cli, st: &mut Stats) {
        let nthreads = cli.threads;
        // ---- exhaustive family ----
        let pool = family_pool();
        let npool = cli.tier.pick(8usize, 12usize);
        let depths: Vec<usize> = cli.tier.pick(vec![0, 1, 2, 6], (0..=6).collect());
        let strats: Vec<Strat> = cli.tier.pick(vec![Strat::Dfs], vec![Strat::Dfs, Strat::Bfs, Strat::Iter]);
        let fact_sets: Vec<FactsG> = cli.tier.pick(
            vec![FactsG { nested: false, values: vec![("A".into(), Lit::B(true))] }],
            vec![
                FactsG { nested: false, values: vec![("A".into(), Lit::B(true))] },
                FactsG { nested: false, values: vec![] },
            ],
        );
        let goals = family_goals();
        let (pool_r, depths_r, strats_r, facts_r, goals_r) = (&pool, &depths, &strats, &fact_sets, &goals);
        shards(cli, nthreads, st, |shard, _rng, st| {
            let mut idx = 0usize;
            for i in 0..npool {
                for j in 0..npool {
                    for k in 0..npool {
                        idx += 1;
                        if idx % nthreads != shard {
                            continue;
                        }
                        let mut rules = vec![pool_r[i].clone(), pool_r[j].clone(), pool_r[k].clone()];
                        for (n, r) in rules.iter_mut().enumerate() {
                            r.name = format!("R{}", n);
                        }
                        let kb = Kb { rules };
                        let parsed = match parse_kb(&kb) {
                            Ok(p) => p,
                            Err(e) => {
                                st.count("skipped_parser_mismatch");
                                if st.notes.len() < 10 {
                                    st.notes.push(format!("parser mismatch: {}", e));
                                }
                                continue;
                            }
                        };
                        st.count("family_kbs");
                        for f in facts_r {
                            for g in goals_r {
                                for &d in depths_r {
                                    for &s in strats_r {
                                        let case = QCase {
                                            kb: kb.clone(),
                                            facts: f.clone(),
                                            goal: g.clone(),
                                            cfg: Cfg { max_depth: d, strat: s, max_solutions: 1, memo: false },
                                            goal_spelling: None,
                                        };
                                        check_case(&case, &parsed, st);
                                    }
                                }
                            }
                        }
                    }
                }
            }
        });
        st.exhaustive.push(format!(
            "all {}^3 ordered triples of the fixed pool of bool rules x 12 goals x max_depth {:?} x strategies {:?} x {} initial fact set(s)",
            npool,
            depths,
            strats.iter().map(|s| s.name()).collect::<Vec<_>>(),
            fact_sets.len()
        ));

        // ---- random ----
        let kbs_per_shard = cli.n(800, 20_000);
        shards(cli, nthreads, st, |_shard, rng, st| {
            for _ in 0..kbs_per_shard {
                if cli.expired() {
                    st.count("stopped_by_time_budget");
                    break;
                }
                let feat = Feat::random(rng);
                let plan = gen_plan(rng, feat);
                let parsed = match parse_kb(&plan.kb) {
                    Ok(p) => p,
                    Err(e) => {
                        st.count("skipped_parser_mismatch");
                        if st.notes.len() < 10 {
                            st.notes.push(format!("parser mismatch: {} in\n{}", e, plan.kb.grl()));
                        }
                        continue;
                    }
                };
                st.count("random_kbs");
                if feat.int_eq {
                    st.count("random_kbs_with_integer_equalities");
                }
                st.max("max::rules_in_a_kb", plan.kb.rules.len() as u64);
                for _ in 0..14 {
                    let facts = gen_facts(rng, &plan);
                    let goal = gen_goal(rng, &plan);
                    let multi = rng.chance(1, 6);
                    let cfg = gen_cfg(rng, &plan, multi);
                    let mut case = QCase { kb: plan.kb.clone(), facts, goal, cfg, goal_spelling: None };
                    check_case(&case, &parsed, st);
                    // the same question with its integer literal spelled `0.5e1`-style (ordering goals
                    // only: integer equality goals are the subject of an open finding)
                    if let (Lit::I(i), Op::Lt | Op::Le | Op::Gt | Op::Ge) = (&case.goal.lit, case.goal.op) {
                        if *i != 0 && rng.chance(1, 2) {
                            case.goal_spelling = Some(exponent_spelling(*i));
                            st.count("queries_with_the_goal_literal_in_exponent_notation");
                            check_case(&case, &parsed, st);
                        }
                    }
                }
            }
        });

        if cli.tier == Tier::Thorough {
            run_miri(cli, st);
        }
    }

    fn replay(&self, _cli: &Cli, case: &Json) -> Vec<Violation> {
        if case.get("miri").is_some() {
            let mut st = Stats::new();
            run_miri(_cli, &mut st);
            for w in &st.inconclusive {
                err!("C09 replay (miri): inconclusive: {}", w);
            }
            return st.violations;
        }
        let Some(c) = QCase::from_json(case) else {
            return vec![Violation {
                clause: "harness".into(),
                sig: "C09|harness|bad-case".into(),
                detail: "cannot decode case".into(),
                case: case.clone(),
            }];
        };
        let rules = match parse_kb(&c.kb) {
            Ok(r) => r,
            Err(e) => {
                err!("C09 replay: the GRL text does not parse into the rules of the case ({}); nothing to judge", e);
                return vec![];
            }
        };
        let clo = closure(&c.kb, &c.facts);
        let reps = reps_for(&c, false);
        match run_case(&c, &rules, &clo, reps) {
            (Verdict::Violation { clause, detail }, Some(obs)) => vec![violation_of(&c, clause, &detail, &obs)],
            (v, _) => {
                if _cli.verbose {
                    err!("C09 replay: {:?}", v);
                }
                vec![]
            }
        }
    }
}

fn main() {
    run_main(C09)
}
