//! C10 — a failed proof leaves the facts untouched; undo frames on `Facts` are transactional.
//!
//! (a) query level: every C09-style query that comes back `provable == false` must hand the
//!     caller's facts back exactly as they were (deep equality of `get_all_facts()`);
//!     the number of undo frames left open (hook H4) goes into the evidence only.
//! (b) `Facts` API: a stack-of-snapshots model (`begin` pushes a copy of the store, `commit`
//!     pops, `rollback` pops and restores; both are no-ops without an open frame) is compared
//!     with the whole real store after EVERY operation of begin / commit / rollback / set /
//!     set_nested / remove sequences over 3 keys: all sequences up to a stated length, random
//!     ones up to length 10.

#[path = "../bc_common.rs"]
mod bc_common;

use bc_common::*;
use rre_verif::*;
use rust_rule_engine::backward::BackwardEngine;
use rust_rule_engine::engine::rule::Rule;
use rust_rule_engine::types::{ActionType, Value};
use rust_rule_engine::Facts;
use std::collections::{BTreeMap, HashMap};

// =============================================================================================
// (b) the Facts undo API against a stack of snapshots
// =============================================================================================

/// "a.x" is a FLAT key of its own (Facts::set does not split the name; the backward executor
/// stores every conclusion like that) whose name extends the key "a"
/// the exhaustive alphabet uses the first four; the others occur in random sequences only
const KEYS: [&str; 10] = ["a", "b", "c", "a.x", "d", "e", "g", "h", "k", "m"];

/// value domain of the model: an integer, or an object with integer members
#[derive(Clone, Debug, PartialEq, Eq, Hash, PartialOrd, Ord)]
enum MVal {
    Int(i64),
    Obj(BTreeMap<String, i64>),
}

impl MVal {
    fn to_value(&self) -> Value {
        match self {
            MVal::Int(i) => Value::Integer(*i),
            MVal::Obj(m) => Value::Object(m.iter().map(|(k, v)| (k.clone(), Value::Integer(*v))).collect()),
        }
    }
    fn from_value(v: &Value) -> Option<MVal> {
        match v {
            Value::Integer(i) => Some(MVal::Int(*i)),
            Value::Object(m) => {
                let mut o = BTreeMap::new();
                for (k, v) in m {
                    match v {
                        Value::Integer(i) => {
                            o.insert(k.clone(), *i);
                        }
                        _ => return None,
                    }
                }
                Some(MVal::Obj(o))
            }
            _ => None,
        }
    }
    fn to_json(&self) -> Json {
        match self {
            MVal::Int(i) => json!(i),
            MVal::Obj(m) => json!(m),
        }
    }
    fn from_json(j: &Json) -> Option<MVal> {
        match j {
            Json::Number(n) => n.as_i64().map(MVal::Int),
            Json::Object(m) => {
                let mut o = BTreeMap::new();
                for (k, v) in m {
                    o.insert(k.clone(), v.as_i64()?);
                }
                Some(MVal::Obj(o))
            }
            _ => None,
        }
    }
}

#[derive(Clone, Debug, PartialEq, Eq, Hash)]
enum FOp {
    Begin,
    Commit,
    Rollback,
    Set(usize, MVal),
    /// set_nested("<key>.f", Integer(v))
    SetNested(usize, i64),
    /// set_nested("<key>", Integer(v)): a path WITHOUT a dot (a plain top-level write)
    SetTop(usize, i64),
    Remove(usize),
}

impl FOp {
    fn to_json(&self) -> Json {
        match self {
            FOp::Begin => json!(["begin"]),
            FOp::Commit => json!(["commit"]),
            FOp::Rollback => json!(["rollback"]),
            FOp::Set(k, v) => json!(["set", KEYS[*k], v.to_json()]),
            FOp::SetNested(k, v) => json!(["set_nested", format!("{}.f", KEYS[*k]), v]),
            FOp::SetTop(k, v) => json!(["set_nested_with_an_undotted_path", KEYS[*k], v]),
            FOp::Remove(k) => json!(["remove", KEYS[*k]]),
        }
    }
    fn from_json(j: &Json) -> Option<FOp> {
        let a = j.as_array()?;
        let key = |s: &str| KEYS.iter().position(|k| *k == s);
        Some(match a.first()?.as_str()? {
            "begin" => FOp::Begin,
            "commit" => FOp::Commit,
            "rollback" => FOp::Rollback,
            "set" => FOp::Set(key(a.get(1)?.as_str()?)?, MVal::from_json(a.get(2)?)?),
            "set_nested" => FOp::SetNested(key(a.get(1)?.as_str()?.strip_suffix(".f")?)?, a.get(2)?.as_i64()?),
            "set_nested_with_an_undotted_path" => FOp::SetTop(key(a.get(1)?.as_str()?)?, a.get(2)?.as_i64()?),
            "remove" => FOp::Remove(key(a.get(1)?.as_str()?)?),
            _ => return None,
        })
    }
    fn written_key(&self) -> Option<usize> {
        match self {
            FOp::Set(k, _) | FOp::SetNested(k, _) | FOp::SetTop(k, _) | FOp::Remove(k) => Some(*k),
            _ => None,
        }
    }
}

/// The alphabet of the exhaustive part: 3 + 3 keys x (2 set values + 2 nested values + remove) + set / remove of the flat key "a.x" = 20 ops.
fn alphabet() -> Vec<FOp> {
    let mut v = vec![FOp::Begin, FOp::Commit, FOp::Rollback];
    for k in 0..3 {
        v.push(FOp::Set(k, MVal::Int(1)));
        v.push(FOp::Set(k, MVal::Obj(BTreeMap::from([("f".to_string(), 0)]))));
        v.push(FOp::SetNested(k, 1));
        v.push(FOp::SetNested(k, 2));
        v.push(FOp::Remove(k));
    }
    v.push(FOp::Set(3, MVal::Int(1)));
    v.push(FOp::Remove(3));
    v
}

type Store = BTreeMap<String, MVal>;

fn initial_stores() -> Vec<Store> {
    vec![
        Store::new(),
        Store::from([
            ("a".to_string(), MVal::Obj(BTreeMap::from([("f".to_string(), 0)]))),
            ("b".to_string(), MVal::Int(0)),
        ]),
    ]
}

#[derive(Clone, Debug)]
struct FCase {
    init: Store,
    ops: Vec<FOp>,
}

impl FCase {
    fn to_json(&self) -> Json {
        json!({
            "kind": "facts-api",
            "initial": self.init.iter().map(|(k, v)| json!([k, v.to_json()])).collect::<Vec<_>>(),
            "ops": self.ops.iter().map(|o| o.to_json()).collect::<Vec<_>>(),
        })
    }
    fn from_json(j: &Json) -> Option<FCase> {
        let mut init = Store::new();
        for e in j.get("initial")?.as_array()? {
            let e = e.as_array()?;
            init.insert(e.first()?.as_str()?.to_string(), MVal::from_json(e.get(1)?)?);
        }
        let mut ops = Vec::new();
        for o in j.get("ops")?.as_array()? {
            ops.push(FOp::from_json(o)?);
        }
        Some(FCase { init, ops })
    }
}

#[derive(Clone, Copy, Debug, PartialEq, Eq)]
enum First {
    Direct,
    CommittedInner,
}

/// per open frame of the MODEL: the store when it began, and how each key was first written
/// since then (directly in this frame, or inside a nested frame that was later committed)
struct MFrame {
    snapshot: Store,
    first: BTreeMap<usize, First>,
}

#[derive(Default)]
struct FObs {
    rollbacks_of_changed_frames: u64,
    max_depth: u64,
    nested_commits: u64,
    depth_mismatch: u64,
}

fn read_store(f: &Facts) -> Result<Store, String> {
    let mut s = Store::new();
    for (k, v) in f.get_all_facts() {
        match MVal::from_value(&v) {
            Some(m) => {
                s.insert(k, m);
            }
            None => return Err(format!("key {} holds {:?}, a value no operation wrote", k, v)),
        }
    }
    Ok(s)
}

const CL_ROLLBACK: &str = "rollback-restores-the-store-of-frame-begin";
const CL_EFFECT: &str = "operation-effect";

/// Run one op sequence under the step monitor.
fn run_fcase(c: &FCase) -> (Option<(String, String, String)>, FObs) {
    let facts = Facts::new();
    for (k, v) in &c.init {
        facts.set(k, v.to_value());
    }
    let mut model: Store = c.init.clone();
    let mut stack: Vec<MFrame> = Vec::new();
    let mut obs = FObs::default();
    for (i, op) in c.ops.iter().enumerate() {
        // what the rolled-back frame looked like, for the cause predicate
        let mut rolled: Option<MFrame> = None;
        match op {
            FOp::Begin => {
                facts.begin_undo_frame();
                stack.push(MFrame { snapshot: model.clone(), first: BTreeMap::new() });
            }
            FOp::Commit => {
                facts.commit_undo_frame();
                if let Some(fr) = stack.pop() {
                    if let Some(parent) = stack.last_mut() {
                        obs.nested_commits += 1;
                        for (k, _) in fr.first {
                            parent.first.entry(k).or_insert(First::CommittedInner);
                        }
                    }
                }
            }
            FOp::Rollback => {
                facts.rollback_undo_frame();
                if let Some(fr) = stack.pop() {
                    if fr.snapshot != model {
                        obs.rollbacks_of_changed_frames += 1;
                    }
                    model = fr.snapshot.clone();
                    rolled = Some(fr);
                }
            }
            FOp::Set(k, v) => {
                facts.set(KEYS[*k], v.to_value());
                model.insert(KEYS[*k].to_string(), v.clone());
            }
            FOp::SetNested(k, v) => {
                let r = facts.set_nested(&format!("{}.f", KEYS[*k]), Value::Integer(*v));
                // documented: "Set a nested fact property"; an absent root or a root that is not
                // an object is an error and changes nothing
                let expect_ok = match model.get_mut(KEYS[*k]) {
                    // "a.x.f" is looked up as member x of the object a, which no op ever creates
                    _ if KEYS[*k].contains('.') => false,
                    Some(MVal::Obj(m)) => {
                        m.insert("f".to_string(), *v);
                        true
                    }
                    _ => false,
                };
                if r.is_ok() != expect_ok {
                    return (
                        Some((
                            CL_EFFECT.into(),
                            "set_nested-result".into(),
                            format!("op #{} {:?}: returned {:?}, expected {}", i, op, r.is_ok(), expect_ok),
                        )),
                        obs,
                    );
                }
            }
            FOp::SetTop(k, v) => {
                // only for keys without a dot: then the path has one segment and the write is a
                // plain top-level insert (facts.rs: "Simple key, just set it")
                if !KEYS[*k].contains('.') {
                    let r = facts.set_nested(KEYS[*k], Value::Integer(*v));
                    model.insert(KEYS[*k].to_string(), MVal::Int(*v));
                    if r.is_err() {
                        return (Some((CL_EFFECT.into(), "set_nested-result".into(), format!("op #{} {:?}: set_nested with a one-segment path returned {:?}", i, op, r))), obs);
                    }
                }
            }
            FOp::Remove(k) => {
                facts.remove(KEYS[*k]);
                model.remove(KEYS[*k]);
            }
        }
        if let (Some(k), Some(top)) = (op.written_key(), stack.last_mut()) {
            top.first.entry(k).or_insert(First::Direct);
        }
        obs.max_depth = obs.max_depth.max(stack.len() as u64);
        if facts.verif_undo_depth() != stack.len() {
            obs.depth_mismatch += 1;
        }
        let real = match read_store(&facts) {
            Ok(s) => s,
            Err(e) => return (Some((CL_EFFECT.into(), "foreign-value".into(), format!("after op #{} {:?}: {}", i, op, e))), obs),
        };
        if real != model {
            let diff: Vec<usize> = (0..KEYS.len()).filter(|k| real.get(KEYS[*k]) != model.get(KEYS[*k])).collect();
            let (clause, cause) = match (&rolled, op) {
                (Some(fr), _) => {
                    // WHY: the implementation logs a key's previous value in the innermost open
                    // frame only; committing that frame throws the log away, so the enclosing
                    // frame cannot restore a key that was first written inside it
                    let all_inner = !diff.is_empty() && diff.iter().all(|k| fr.first.get(k) == Some(&First::CommittedInner));
                    (
                        CL_ROLLBACK,
                        if all_inner { "key-first-written-inside-a-committed-inner-frame" } else { "unexplained" },
                    )
                }
                (None, FOp::Rollback) => (CL_EFFECT, "rollback-without-open-frame-changed-the-store"),
                (None, FOp::Commit) => (CL_EFFECT, "commit-changed-the-store"),
                (None, FOp::Begin) => (CL_EFFECT, "begin-changed-the-store"),
                (None, _) => (CL_EFFECT, "write-operation"),
            };
            return (
                Some((
                    clause.into(),
                    cause.into(),
                    format!(
                        "after op #{} {:?} of {:?} (initial {:?}): store is {:?}, the snapshot model says {:?}",
                        i,
                        op,
                        c.ops.iter().map(|o| o.to_json().to_string()).collect::<Vec<_>>().join(" "),
                        c.init,
                        real,
                        model
                    ),
                )),
                obs,
            );
        }
    }
    (None, obs)
}

fn fviolation(c: &FCase, clause: &str, cause: &str, detail: &str) -> Violation {
    Violation {
        clause: clause.to_string(),
        sig: format!("C10|{}|{}", clause, cause),
        detail: detail.to_string(),
        case: c.to_json(),
    }
}

fn check_fcase(c: &FCase, st: &mut Stats) {
    st.eval();
    st.count("facts_api_sequences");
    let (v, obs) = match pan::catch_frames(|| run_fcase(c)) {
        Ok(r) => r,
        Err(p) => {
            st.violation(fviolation(c, "no-panic", &format!("{}|{}", p.class(), p.frame), &format!("panic: {} at {}:{}", p.msg, p.file, p.line)));
            return;
        }
    };
    st.add("facts_api_operations", c.ops.len() as u64);
    st.add("rollbacks_of_frames_in_which_the_store_changed", obs.rollbacks_of_changed_frames);
    st.add("nested_commits", obs.nested_commits);
    st.max("max::open_frames", obs.max_depth);
    st.add("undo_depth_hook_disagrees_with_model_(informational)", obs.depth_mismatch);
    if obs.rollbacks_of_changed_frames > 0 {
        st.nontrivial(hash_of(&(&c.init, &c.ops)));
        if obs.nested_commits > 0 || c.ops.len() > 6 {
            st.sample(|| c.to_json());
        }
    }
    if let Some((clause, _, _)) = v {
        // shrink: drop operations, then try the empty initial store
        let mut fails = |ops: &[FOp]| {
            let cc = FCase { init: c.init.clone(), ops: ops.to_vec() };
            matches!(pan::catch(|| run_fcase(&cc)), Ok((Some((cl, _, _)), _)) if cl == clause)
        };
        let ops = shrink_list(&c.ops, &mut fails);
        let mut cc = FCase { init: c.init.clone(), ops };
        let empty = FCase { init: Store::new(), ops: cc.ops.clone() };
        if matches!(pan::catch(|| run_fcase(&empty)), Ok((Some((cl, _, _)), _)) if cl == clause) {
            cc = empty;
        }
        if let Ok((Some((cl, cause, detail)), _)) = pan::catch(|| run_fcase(&cc)) {
            st.violation(fviolation(&cc, &cl, &cause, &detail));
        }
    }
}

// =============================================================================================
// (a) failed queries
// =============================================================================================

const CL_QUERY: &str = "failed-proof-leaves-facts-untouched";

fn show_facts(m: &HashMap<String, Value>) -> String {
    let mut v: Vec<String> = m.iter().map(|(k, v)| format!("{}={:?}", k, v)).collect();
    v.sort();
    format!("{{{}}}", v.join(", "))
}

/// Some(detail) when the query failed and the facts changed.
fn judge_query(case: &QCase, obs: &QObs) -> Option<String> {
    if obs.provable() == Some(false) && obs.after != obs.before {
        return Some(format!(
            "query `{}` ({}, max_depth {}, max_solutions {}) reported NOT provable, but the caller's facts changed from {} to {}",
            case.goal.text(),
            case.cfg.strat.name(),
            case.cfg.max_depth,
            case.cfg.max_solutions,
            show_facts(&obs.before),
            show_facts(&obs.after)
        ));
    }
    None
}

fn query_cause(case: &QCase, obs: &QObs) -> &'static str {
    if case.cfg.strat == Strat::Bfs {
        // BFS executes every candidate rule whose conditions hold and never opens an undo
        // frame: whatever those rules concluded stays, also when the goal is not reached
        let changed_keys_are_conclusions = obs
            .after
            .iter()
            .filter(|(k, v)| obs.before.get(*k) != Some(*v))
            .all(|(k, v)| case.kb.rules.iter().any(|r| r.sets.iter().any(|(f, l)| f == k && l.value() == *v)));
        if changed_keys_are_conclusions && obs.before.keys().all(|k| obs.after.contains_key(k)) {
            return "bfs-keeps-the-conclusions-of-rules-it-tried";
        }
    }
    "unexplained"
}

fn qreps(case: &QCase, explore: bool) -> usize {
    if top_candidates(&case.kb, &case.goal) > 1 {
        if explore {
            3
        } else {
            24
        }
    } else {
        1
    }
}

fn run_qcase(case: &QCase, rules: &[Rule], reps: usize) -> (Option<String>, Option<QObs>) {
    let mut last = (None, None);
    for _ in 0..reps.max(1) {
        let Ok(obs) = run_query_text(rules, &case.facts, &case.goal_text(), &case.cfg) else {
            return (None, None);
        };
        let v = judge_query(case, &obs);
        let hit = v.is_some();
        last = (v, Some(obs));
        if hit {
            break;
        }
    }
    last
}

fn qviolation(case: &QCase, detail: &str, obs: &QObs) -> Violation {
    let mut j = case.to_json();
    j["kind"] = json!("query");
    Violation {
        clause: CL_QUERY.to_string(),
        sig: format!("C10|{}|{}", CL_QUERY, query_cause(case, obs)),
        detail: detail.to_string(),
        case: j,
    }
}

fn shrink_q(case: &QCase) -> QCase {
    let mut cur = case.clone();
    let mut budget = 250usize;
    'outer: loop {
        for cand in query_simplifications(&cur) {
            if budget == 0 {
                break 'outer;
            }
            budget -= 1;
            let reps = if top_candidates(&cand.kb, &cand.goal) > 1 { 6 } else { 1 };
            let rules = build_rules_direct(&cand.kb);
            if run_qcase(&cand, &rules, reps).0.is_some() {
                cur = cand;
                continue 'outer;
            }
        }
        break;
    }
    for (i, r) in cur.kb.rules.iter_mut().enumerate() {
        r.name = format!("R{}", i);
    }
    cur
}

fn check_qcase(case: &QCase, rules: &[Rule], st: &mut Stats) {
    let reps = qreps(case, true);
    let (v, obs) = run_qcase(case, rules, reps);
    st.eval();
    st.count("queries");
    let Some(o) = obs else {
        st.count("no_verdict_(engine_not_built)");
        return;
    };
    match o.provable() {
        Some(true) => st.count("queries_provable_(clause_does_not_apply)"),
        Some(false) => {
            st.count("queries_not_provable_(facts_compared)");
            st.count(&format!("queries_not_provable_{}", case.cfg.strat.name()));
            if o.undo_after > o.undo_before {
                st.count("failed_queries_that_left_undo_frames_open");
                st.max("max::undo_frames_left_open_by_a_failed_query", (o.undo_after - o.undo_before) as u64);
            }
            // non-trivial: the attempt could derive something before failing
            let clo = closure(&case.kb, &case.facts);
            let prefix = case.goal.field.rsplit_once('.').map(|(p, _)| p.to_string());
            let tried = case.kb.rules.iter().any(|r| {
                clo.fireable.contains(&r.name)
                    && r.sets.iter().any(|(f, _)| *f == case.goal.field || prefix.as_ref().map(|p| f.starts_with(p.as_str())).unwrap_or(false))
            });
            if tried {
                st.count("failed_queries_with_a_fireable_candidate_rule");
                st.nontrivial(hash_of(case));
                st.sample(|| case.to_json());
            }
        }
        None => st.count("no_verdict_(Err_or_panic)"),
    }
    if o.undo_after > o.undo_before {
        st.count("queries_that_left_undo_frames_open_(any_answer)");
    }
    if let Some(detail) = v {
        st.count("query_violations_before_shrinking");
        let shrunk = shrink_q(case);
        if let Ok(r) = parse_kb(&shrunk.kb) {
            if let (Some(d), Some(o2)) = run_qcase(&shrunk, &r, 32) {
                st.violation(qviolation(&shrunk, &d, &o2));
                return;
            }
        }
        st.count("shrunk_case_did_not_reproduce_through_parser");
        st.violation(qviolation(case, &detail, &o));
    }
}


// =============================================================================================
// (a2) failed queries whose rules also have side-effect actions (Append / Retract / extra Set)
// =============================================================================================

/// An extra action put on the parsed rule `rule` (before its conclusions when `first`): the
/// fields it touches occur in no condition, so the proof search itself is unaffected.
#[derive(Clone, Debug, PartialEq, Eq, Hash)]
struct Side {
    rule: usize,
    /// 0 = Append to Aux.items, 1 = Retract of Aux.gone, 2 = Set of Aux.note,
    /// 3 = a method call on an object that does not exist (the action FAILS: the rule's execution
    /// returns Err after whatever ran before it)
    kind: u8,
    first: bool,
}

#[derive(Clone, Debug, PartialEq, Eq, Hash)]
struct SCase {
    q: QCase,
    side: Vec<Side>,
    /// Aux.items (an array), Aux.gone and Aux.note exist before the query
    aux_present: bool,
    /// the query is `NOT <goal>`
    negated: bool,
}

impl SCase {
    fn to_json(&self) -> Json {
        let mut j = self.q.to_json();
        j["kind"] = json!("query-with-side-effect-actions");
        j["side_effect_actions"] = Json::Array(
            self.side
                .iter()
                .map(|s| {
                    let text = ["Append Aux.items += \"x\"", "Retract Aux.gone", "Set Aux.note = 7", "MethodCall Aux.nobody.touch() (fails: no such object)"][s.kind as usize % 4];
                    json!({"rule_index": s.rule, "action": text, "kind": s.kind, "before_the_conclusions": s.first})
                })
                .collect(),
        );
        j["aux_facts_present_before_the_query"] = json!(self.aux_present);
        j["query_text"] = json!(self.text());
        j["negated"] = json!(self.negated);
        j
    }
    fn from_json(j: &Json) -> Option<SCase> {
        let q = QCase::from_json(j)?;
        let mut side = Vec::new();
        for s in j.get("side_effect_actions")?.as_array()? {
            side.push(Side { rule: s.get("rule_index")?.as_u64()? as usize, kind: s.get("kind")?.as_u64()? as u8, first: s.get("before_the_conclusions")?.as_bool()? });
        }
        Some(SCase { q, side, aux_present: j.get("aux_facts_present_before_the_query")?.as_bool()?, negated: j.get("negated").and_then(|v| v.as_bool()).unwrap_or(false) })
    }
    fn text(&self) -> String {
        if self.negated {
            format!("NOT {}", self.q.goal.text())
        } else {
            self.q.goal.text()
        }
    }
}

fn with_side_effects(rules: &[Rule], side: &[Side]) -> Vec<Rule> {
    let mut rules = rules.to_vec();
    for s in side {
        let Some(r) = rules.get_mut(s.rule) else { continue };
        let a = match s.kind % 4 {
            0 => ActionType::Append { field: "Aux.items".into(), value: Value::String("x".into()) },
            1 => ActionType::Retract { object: "Aux.gone".into() },
            2 => ActionType::Set { field: "Aux.note".into(), value: Value::Integer(7) },
            _ => ActionType::MethodCall { object: "Aux.nobody".into(), method: "touch".into(), args: vec![] },
        };
        if s.first {
            r.actions.insert(0, a);
        } else {
            r.actions.push(a);
        }
    }
    rules
}

fn run_scase_once(c: &SCase, rules: &[Rule]) -> Option<QObs> {
    let rules = with_side_effects(rules, &c.side);
    let kb = make_kb(&rules).ok()?;
    let mut engine = BackwardEngine::with_config(kb, c.q.cfg.engine());
    let mut f = make_facts(&c.q.facts);
    if c.aux_present {
        f.set("Aux.items", Value::Array(vec![Value::String("seed".into())]));
        f.set("Aux.gone", Value::Integer(1));
        f.set("Aux.note", Value::Integer(0));
    }
    Some(run_query_on(&mut engine, &mut f, &c.text()))
}

fn run_scase(c: &SCase, rules: &[Rule], reps: usize) -> (Option<String>, Option<QObs>) {
    let mut last = (None, None);
    for _ in 0..reps.max(1) {
        let Some(obs) = run_scase_once(c, rules) else { return (None, None) };
        let v = judge_query(&c.q, &obs).map(|d| if c.negated { d.replacen("query `", "query `NOT ", 1) } else { d });
        let hit = v.is_some();
        last = (v, Some(obs));
        if hit {
            break;
        }
    }
    last
}

fn sviolation(c: &SCase, detail: &str, obs: &QObs) -> Violation {
    let changed: Vec<&String> = obs.after.keys().chain(obs.before.keys()).filter(|k| obs.before.get(*k) != obs.after.get(*k)).collect();
    let cause = if !changed.is_empty() && changed.iter().all(|k| k.starts_with("Aux.")) {
        let mut kinds: Vec<&str> = Vec::new();
        for k in &changed {
            let n = match k.as_str() {
                "Aux.items" => "Append",
                "Aux.gone" => "Retract",
                _ => "Set",
            };
            let _ = c.side.iter().any(|s| s.kind % 4 == 3);
            if !kinds.contains(&n) {
                kinds.push(n);
            }
        }
        kinds.sort();
        format!("side-effect-action-not-undone:{}", kinds.join("+"))
    } else if c.side.iter().any(|s| s.kind % 4 == 3) {
        "after-an-action-of-a-candidate-rule-failed".to_string()
    } else if c.negated {
        "negated-query".to_string()
    } else {
        query_cause(&c.q, obs).to_string()
    };
    Violation { clause: CL_QUERY.to_string(), sig: format!("C10|{}|{}", CL_QUERY, cause), detail: detail.to_string(), case: c.to_json() }
}

fn check_scase(c: &SCase, rules: &[Rule], st: &mut Stats) {
    let reps = qreps(&c.q, true);
    let (v, obs) = run_scase(c, rules, reps);
    st.eval();
    st.count(if c.negated { "negated_queries" } else { "queries_over_rules_with_side_effect_actions" });
    let Some(o) = obs else { return };
    if c.negated && o.provable() == Some(false) {
        st.count("negated_queries_not_provable_(facts_compared)");
        let clo = closure(&c.q.kb, &c.q.facts);
        if c.q.kb.rules.iter().any(|r| clo.fireable.contains(&r.name)) {
            st.count("failed_negated_queries_with_a_fireable_rule");
            st.nontrivial(hash_of(c));
        }
    } else if o.provable() == Some(false) {
        st.count("side_effect_queries_not_provable_(facts_compared)");
        let clo = closure(&c.q.kb, &c.q.facts);
        if c.side.iter().any(|s| c.q.kb.rules.get(s.rule).map(|r| clo.fireable.contains(&r.name)).unwrap_or(false)) {
            st.count("failed_side_effect_queries_where_a_rule_carrying_one_was_fireable");
            st.nontrivial(hash_of(c));
            st.sample(|| c.to_json());
        }
    }
    if let Some(detail) = v {
        // shrink: drop side-effect actions, then rules that carry none
        let mut cur = c.clone();
        let fails = |x: &SCase| {
            let r = build_rules_direct(&x.q.kb);
            run_scase(x, &r, 6).0.is_some()
        };
        let mut changed = true;
        while changed {
            changed = false;
            for i in 0..cur.side.len() {
                let mut n = cur.clone();
                n.side.remove(i);
                if fails(&n) {
                    cur = n;
                    changed = true;
                    break;
                }
            }
            if changed {
                continue;
            }
            for i in (0..cur.q.kb.rules.len()).rev() {
                if cur.q.kb.rules.len() <= 1 {
                    break;
                }
                let mut n = cur.clone();
                n.q.kb.rules.remove(i);
                n.side.retain(|s| s.rule != i);
                for s in n.side.iter_mut() {
                    if s.rule > i {
                        s.rule -= 1;
                    }
                }
                if fails(&n) {
                    cur = n;
                    changed = true;
                    break;
                }
            }
        }
        if let Ok(r) = parse_kb(&cur.q.kb) {
            if let (Some(d), Some(o2)) = run_scase(&cur, &r, 32) {
                st.violation(sviolation(&cur, &d, &o2));
                return;
            }
        }
        st.violation(sviolation(c, &detail, &o));
    }
}

// =============================================================================================

struct C10;

impl Check for C10 {
    fn id(&self) -> &'static str {
        "C10"
    }
    fn rule(&self) -> String {
        "(b) Facts API, exhaustive: ALL sequences of length L (5 quick, 6 thorough) over the 20-operation alphabet begin / commit / rollback / set(k, 1 | {f:0}) / set_nested(k.f, 1 | 2) / remove(k), k in {a,b,c}, plus set / remove of the FLAT key \"a.x\" (a name that extends the key a), from 2 initial stores ({} and {a:{f:0}, b:0}); the whole store is compared with the stack-of-snapshots model after every operation, so every prefix (every shorter sequence) is checked too. random: lengths 6..=10 over the same alphabet plus set_nested with an undotted path (a plain top-level write), begin/commit/rollback weighted up; one sequence in 5 has 12..=40 operations over 10 keys (a frame records many distinct keys before it closes). A sequence is non-trivial when it rolls back at least one frame in which the store had changed; distinct by (initial store, operations). (a) queries: the C09 generator (Horn KBs of 1..=8 rules from GRL text, chains to depth 6 with wrong-value conclusions, dead ends, cycles, parents with two sub-goals; 14 queries per KB; dfs/bfs/iterative; max_depth 0..=6; max_solutions 1 or 3); every answer `provable == false` is judged; non-trivial when some candidate rule of the goal is fireable in the reference closure (the attempt could derive something before failing). (a2) one in three of those queries is asked again over the same rules with 1-3 side-effect actions added to the parsed rules (Append to an array, Retract of a key, Set of an unrelated key, a method call that fails; before or after the rule's conclusions; the touched keys Aux.* occur in no condition; present before the query in 3/4 of the cases). (a3) one query in three is also asked negated (`NOT goal`, which fails exactly when the goal can be derived, i.e. after rules ran).".into()
    }
    fn assumptions(&self) -> Vec<String> {
        vec![
            "commit and rollback without an open frame are no-ops; begin and commit never change the store".into(),
            "set_nested on an absent root or on a root that is not an object returns Err and changes nothing (facts.rs documents FieldNotFound / TypeMismatch)".into(),
            "only values (or absence) of keys are compared, as the statement says; the per-key type tags of Facts are not".into(),
            "open undo frames after a query (hook H4) are reported in the evidence, they are not a violation by themselves".into(),
        ]
    }

    fn devopt_scale(&self) -> Option<f64> {
        Some(0.05)
    }
    fn explore(&self, cli: &Cli, st: &mut Stats) {
        let nthreads = cli.threads;
        // ---- (b) exhaustive ----
        let alpha = alphabet();
        let len = cli.tier.pick(5usize, 6usize);
        let inits = initial_stores();
        let (alpha_r, inits_r) = (&alpha, &inits);
        let n = alpha.len();
        // shard by the first two operations
        shards(cli, nthreads, st, |shard, _rng, st| {
            let mut job = 0usize;
            for init in inits_r {
                for i0 in 0..n {
                    for i1 in 0..n {
                        job += 1;
                        if job % nthreads != shard {
                            continue;
                        }
                        let mut idx = vec![0usize; len - 2];
                        loop {
                            let mut ops = vec![alpha_r[i0].clone(), alpha_r[i1].clone()];
                            ops.extend(idx.iter().map(|&i| alpha_r[i].clone()));
                            check_fcase(&FCase { init: init.clone(), ops }, st);
                            let mut k = 0;
                            loop {
                                if k == idx.len() {
                                    break;
                                }
                                idx[k] += 1;
                                if idx[k] < n {
                                    break;
                                }
                                idx[k] = 0;
                                k += 1;
                            }
                            if k == idx.len() {
                                break;
                            }
                        }
                    }
                }
            }
        });
        st.exhaustive.push(format!(
            "Facts undo API: all {}^{} operation sequences of length {} (hence every shorter one as a prefix) over begin/commit/rollback/set/set_nested/remove x 3 keys x 2 values plus set/remove of the flat key \"a.x\", from 2 initial stores",
            n, len, len
        ));

        // ---- (b) random to length 10 ----
        let per = cli.n(60_000, 2_000_000);
        shards(cli, nthreads, st, |_shard, rng, st| {
            for _ in 0..per {
                if cli.expired() {
                    st.count("stopped_by_time_budget");
                    break;
                }
                // one sequence in 5 is long and wide: 12..=40 operations over 10 keys (a frame
                // may record many distinct keys before it closes)
                let wide = rng.chance(1, 5);
                let l = if wide { 12 + rng.below(29) } else { 6 + rng.below(5) };
                let init = rng.pick(inits_r).clone();
                let ops: Vec<FOp> = (0..l)
                    .map(|_| {
                        if rng.chance(if wide { 1 } else { 2 }, 5) {
                            alpha_r[rng.below(3)].clone()
                        } else if wide {
                            let k = rng.below(KEYS.len());
                            match rng.below(6) {
                                0 | 1 => FOp::Set(k, MVal::Int(1 + rng.below(3) as i64)),
                                2 => FOp::Set(k, MVal::Obj(BTreeMap::from([("f".to_string(), 0)]))),
                                3 => FOp::SetNested(k, 1 + rng.below(2) as i64),
                                4 => FOp::SetTop(k, 5 + rng.below(3) as i64),
                                _ => FOp::Remove(k),
                            }
                        } else if rng.chance(1, 8) {
                            FOp::SetTop(rng.below(3), 5 + rng.below(3) as i64)
                        } else {
                            alpha_r[3 + rng.below(n - 3)].clone()
                        }
                    })
                    .collect();
                if wide {
                    st.count("frames::wide_sequences(12..=40 operations over 10 keys)");
                }
                check_fcase(&FCase { init, ops }, st);
            }
        });

        // ---- (a) failed queries ----
        let kbs_per_shard = cli.n(800, 10_000);
        shards(cli, nthreads, st, |_shard, rng, st| {
            for _ in 0..kbs_per_shard {
                if cli.expired() {
                    st.count("stopped_by_time_budget");
                    break;
                }
                let feat = Feat::random(rng);
                let plan = gen_plan(rng, feat);
                let Ok(parsed) = parse_kb(&plan.kb) else {
                    st.count("skipped_parser_mismatch");
                    continue;
                };
                for _ in 0..14 {
                    let facts = gen_facts(rng, &plan);
                    // aim at failing proofs: goals away from what the chain concludes are more frequent here
                    let goal = if rng.chance(1, 3) {
                        let (f, v) = rng.pick(&plan.chain).clone();
                        unsat_atom(rng, &f, &v, &Feat { str_preds: false, ..plan.feat })
                    } else {
                        gen_goal(rng, &plan)
                    };
                    let multi = rng.chance(1, 6);
                    let mut cfg = gen_cfg(rng, &plan, multi);
                    if rng.chance(1, 4) {
                        cfg.strat = Strat::Bfs;
                    }
                    let case = QCase { kb: plan.kb.clone(), facts, goal, cfg, goal_spelling: None };
                    check_qcase(&case, &parsed, st);
                    if rng.chance(1, 3) && !plan.kb.rules.is_empty() {
                        // the same query over the same rules carrying 1-3 side-effect actions
                        let nside = 1 + rng.below(3);
                        let side = (0..nside).map(|_| Side { rule: rng.below(plan.kb.rules.len()), kind: rng.below(4) as u8, first: rng.bool() }).collect();
                        let sc = SCase { q: case.clone(), side, aux_present: rng.chance(3, 4), negated: false };
                        check_scase(&sc, &parsed, st);
                    }
                    if rng.chance(1, 3) {
                        // `NOT goal`: it fails exactly when the goal can be derived, i.e. after rules ran
                        let g = if rng.bool() { case.goal.clone() } else { gen_goal(rng, &plan) };
                        let sc = SCase { q: QCase { goal: g, ..case.clone() }, side: vec![], aux_present: false, negated: true };
                        check_scase(&sc, &parsed, st);
                    }
                }
            }
        });
    }

    fn replay(&self, cli: &Cli, case: &Json) -> Vec<Violation> {
        let kind = case.get("kind").and_then(|k| k.as_str()).unwrap_or("");
        if kind == "facts-api" {
            let Some(c) = FCase::from_json(case) else {
                return vec![Violation { clause: "harness".into(), sig: "C10|harness|bad-case".into(), detail: "cannot decode case".into(), case: case.clone() }];
            };
            return match pan::catch_frames(|| run_fcase(&c)) {
                Ok((Some((clause, cause, detail)), _)) => vec![fviolation(&c, &clause, &cause, &detail)],
                Ok((None, _)) => vec![],
                Err(p) => vec![fviolation(&c, "no-panic", &format!("{}|{}", p.class(), p.frame), &format!("panic: {} at {}:{}", p.msg, p.file, p.line))],
            };
        }
        if kind == "query-with-side-effect-actions" {
            let Some(c) = SCase::from_json(case) else {
                return vec![Violation { clause: "harness".into(), sig: "C10|harness|bad-case".into(), detail: "cannot decode case".into(), case: case.clone() }];
            };
            let Ok(rules) = parse_kb(&c.q.kb) else { return vec![] };
            return match run_scase(&c, &rules, qreps(&c.q, false)) {
                (Some(detail), Some(obs)) => vec![sviolation(&c, &detail, &obs)],
                _ => vec![],
            };
        }
        let Some(c) = QCase::from_json(case) else {
            return vec![Violation { clause: "harness".into(), sig: "C10|harness|bad-case".into(), detail: "cannot decode case".into(), case: case.clone() }];
        };
        let rules = match parse_kb(&c.kb) {
            Ok(r) => r,
            Err(e) => {
                err!("C10 replay: the GRL text does not parse into the rules of the case ({}); nothing to judge", e);
                return vec![];
            }
        };
        match run_qcase(&c, &rules, qreps(&c, false)) {
            (Some(detail), Some(obs)) => vec![qviolation(&c, &detail, &obs)],
            (_, o) => {
                if cli.verbose {
                    err!("C10 replay: no violation; observed {:?}", o.map(|o| o.outcome));
                }
                vec![]
            }
        }
    }
}

fn main() {
    run_main(C10)
}
