//! C11 — a query's answer does not depend on earlier queries.
//!
//! Differential monitor, no reference semantics needed: one engine lives through a history of
//! queries and caller-side fact edits (and, with an attached RETE engine, retractions there);
//! before every query step a FRESH engine (same rules, same configuration) is given a deep copy
//! of the caller's facts at that moment (and a fresh RETE engine holding the same live explicit
//! facts) and asked the same question. The two `provable` answers must agree.

#[path = "../bc_common.rs"]
mod bc_common;

use bc_common::*;
use rre_verif::*;
use rust_rule_engine::backward::{BackwardEngine, GRLQuery, GRLQueryExecutor, GRLSearchStrategy};
use rust_rule_engine::engine::rule::Rule;
use rust_rule_engine::rete::propagation::IncrementalEngine;
use rust_rule_engine::rete::{FactHandle, FactValue, TypedFacts};
use rust_rule_engine::Facts;
use std::sync::{Arc, Mutex};

const CLAUSE: &str = "answer-equals-fresh-engine";

/// query text of a step: the atom, optionally negated
fn qtext(a: &Atom, neg: bool) -> String {
    if neg {
        format!("NOT {}", a.text())
    } else {
        a.text()
    }
}

#[derive(Clone, Debug, PartialEq, Eq, Hash)]
enum Step {
    /// (goal, negated)
    Query(Atom, bool),
    Set(String, Lit),
    Remove(String),
    /// retract, in the attached RETE engine, the explicit fact that mirrors this dotted field
    ReteRetract(String),
    /// `engine.set_config(..)`: from here on the fresh engine is built with this configuration
    SetConfig(Cfg),
    /// `query_aggregate("count(?x) WHERE <goal>")`: the answer compared is the returned value
    Aggregate(Atom),
    /// the CALLER opens / rolls back / commits an undo frame on its facts ("what-if" edits)
    Begin,
    Rollback,
    Commit,
    /// (goal, negated, per-query configuration): asked through `GRLQueryExecutor::execute`, which
    /// re-applies the query's own configuration to the living engine on every call
    GrlQuery(Atom, bool, Cfg),
}

impl Step {
    fn to_json(&self) -> Json {
        match self {
            Step::Query(a, n) => json!(["query", atom_to_json(a), qtext(a, *n), n]),
            Step::Set(f, v) => json!(["set", f, lit_to_json(v)]),
            Step::Remove(f) => json!(["remove", f]),
            Step::ReteRetract(f) => json!(["rete_retract", f]),
            Step::SetConfig(c) => json!(["set_config", cfg_to_json(c)]),
            Step::Aggregate(a) => json!(["query_aggregate", atom_to_json(a), format!("count(?x) WHERE {}", a.text())]),
            Step::Begin => json!(["begin_undo_frame"]),
            Step::Rollback => json!(["rollback_undo_frame"]),
            Step::Commit => json!(["commit_undo_frame"]),
            Step::GrlQuery(a, n, c) => json!(["grl_query", atom_to_json(a), qtext(a, *n), n, cfg_to_json(c)]),
        }
    }
    fn from_json(j: &Json) -> Option<Step> {
        let a = j.as_array()?;
        Some(match a.first()?.as_str()? {
            "query" => Step::Query(atom_from_json(a.get(1)?)?, a.get(3).and_then(|v| v.as_bool()).unwrap_or(false)),
            "set" => Step::Set(a.get(1)?.as_str()?.to_string(), lit_from_json(a.get(2)?)?),
            "remove" => Step::Remove(a.get(1)?.as_str()?.to_string()),
            "rete_retract" => Step::ReteRetract(a.get(1)?.as_str()?.to_string()),
            "set_config" => Step::SetConfig(cfg_from_json(a.get(1)?)?),
            "query_aggregate" => Step::Aggregate(atom_from_json(a.get(1)?)?),
            "begin_undo_frame" => Step::Begin,
            "rollback_undo_frame" => Step::Rollback,
            "commit_undo_frame" => Step::Commit,
            "grl_query" => Step::GrlQuery(atom_from_json(a.get(1)?)?, a.get(3).and_then(|v| v.as_bool()).unwrap_or(false), cfg_from_json(a.get(4)?)?),
            _ => return None,
        })
    }
}

#[derive(Clone, Debug, PartialEq, Eq, Hash)]
struct HCase {
    kb: Kb,
    cfg: Cfg,
    rete: bool,
    facts: FactsG,
    steps: Vec<Step>,
}

impl HCase {
    fn to_json(&self) -> Json {
        json!({
            "rules": kb_to_json(&self.kb),
            "grl": self.kb.grl(),
            "config": cfg_to_json(&self.cfg),
            "rete_engine_attached": self.rete,
            "facts": facts_to_json(&self.facts),
            "steps": self.steps.iter().map(|s| s.to_json()).collect::<Vec<_>>(),
        })
    }
    fn from_json(j: &Json) -> Option<HCase> {
        let mut steps = Vec::new();
        for s in j.get("steps")?.as_array()? {
            steps.push(Step::from_json(s)?);
        }
        Some(HCase {
            kb: kb_from_json(j.get("rules")?)?,
            cfg: cfg_from_json(j.get("config")?)?,
            rete: j.get("rete_engine_attached").and_then(|v| v.as_bool()).unwrap_or(false),
            facts: facts_from_json(j.get("facts")?)?,
            steps,
        })
    }
    fn order_dependent(&self) -> bool {
        self.steps.iter().any(|s| matches!(s, Step::Query(g, _) | Step::GrlQuery(g, _, _) if top_candidates(&self.kb, g) > 1))
    }
}

fn typed_of(field_member: &str, v: &Lit) -> TypedFacts {
    let mut t = TypedFacts::new();
    let fv = match v {
        Lit::B(b) => FactValue::Boolean(*b),
        Lit::S(s) => FactValue::String(s.clone()),
        Lit::I(i) => FactValue::Integer(*i),
    };
    t.set(field_member.to_string(), fv);
    t
}

/// the explicit RETE facts that mirror the dotted initial facts which are still live
fn populate_rete(live: &[(String, Lit)]) -> (IncrementalEngine, Vec<(String, FactHandle)>) {
    let mut e = IncrementalEngine::new();
    let mut hs = Vec::new();
    for (f, v) in live {
        if let Some((ty, member)) = f.split_once('.') {
            let h = e.insert(ty.to_string(), typed_of(member, v));
            hs.push((f.clone(), h));
        }
    }
    (e, hs)
}

#[derive(Clone, Debug, PartialEq)]
enum Ans {
    Provable(bool),
    /// the value an aggregate query returned, rendered
    Value(String),
    Error,
    Panic,
}

fn ask_aggregate(engine: &mut BackwardEngine, facts: &mut Facts, a: &Atom) -> Ans {
    let text = format!("count(?x) WHERE {}", a.text());
    match pan::catch(|| engine.query_aggregate(&text, facts)) {
        Ok(Ok(v)) => Ans::Value(format!("{:?}", v)),
        Ok(Err(_)) => Ans::Error,
        Err(_) => Ans::Panic,
    }
}

fn ans_of(o: &QObs) -> Ans {
    match &o.outcome {
        Outcome::Answer { provable, .. } => Ans::Provable(*provable),
        Outcome::Error(_) => Ans::Error,
        Outcome::Panic(_) => Ans::Panic,
    }
}

fn ask(engine: &mut BackwardEngine, facts: &mut Facts, rete: &Option<Arc<Mutex<IncrementalEngine>>>, text: &str) -> Ans {
    match rete {
        None => ans_of(&run_query_on(engine, facts, text)),
        Some(r) => {
            let r = r.clone();
            match pan::catch(|| engine.query_with_rete_engine(text, facts, Some(r))) {
                Ok(Ok(q)) => Ans::Provable(q.provable),
                Ok(Err(_)) => Ans::Error,
                Err(_) => Ans::Panic,
            }
        }
    }
}

fn grl_query_of(text: &str, cfg: &Cfg) -> GRLQuery {
    let mut q = GRLQuery::new("Q".to_string(), text.to_string());
    q.strategy = match cfg.strat {
        Strat::Dfs => GRLSearchStrategy::DepthFirst,
        Strat::Bfs => GRLSearchStrategy::BreadthFirst,
        Strat::Iter => GRLSearchStrategy::Iterative,
    };
    q.max_depth = cfg.max_depth;
    q.max_solutions = cfg.max_solutions;
    q.enable_memoization = cfg.memo;
    q
}

fn ask_grl(engine: &mut BackwardEngine, facts: &mut Facts, text: &str, cfg: &Cfg) -> Ans {
    let q = grl_query_of(text, cfg);
    match pan::catch(|| GRLQueryExecutor::execute(&q, engine, facts)) {
        Ok(Ok(r)) => Ans::Provable(r.provable),
        Ok(Err(_)) => Ans::Error,
        Err(_) => Ans::Panic,
    }
}

/// One run of the history: per query step (reused answer, fresh answer).
struct Run {
    answers: Vec<(usize, Ans, Ans)>,
    edits_between_queries: bool,
    leaked_frames: usize,
}

fn run_history(c: &HCase, rules: &[Rule]) -> Result<Run, String> {
    let kb = make_kb(rules)?;
    let mut engine = BackwardEngine::with_config(kb, c.cfg.engine());
    let mut facts = make_facts(&c.facts);
    // dotted initial facts mirrored as explicit RETE facts
    let mut live: Vec<(String, Lit)> = c.facts.values.iter().filter(|(f, _)| f.contains('.')).cloned().collect();
    let (rete, mut handles) = if c.rete {
        let (e, h) = populate_rete(&live);
        (Some(Arc::new(Mutex::new(e))), h)
    } else {
        (None, Vec::new())
    };
    let mut answers = Vec::new();
    let mut cur_cfg = c.cfg.clone();
    let mut caller_frames = 0usize;
    let mut seen_query = false;
    let mut edit_after_query = false;
    let mut edits_between_queries = false;
    for (i, s) in c.steps.iter().enumerate() {
        match s {
            Step::Set(f, v) => {
                facts.set(f, v.value());
                edit_after_query |= seen_query;
            }
            Step::Remove(f) => {
                facts.remove(f);
                edit_after_query |= seen_query;
            }
            Step::ReteRetract(f) => {
                if let Some(r) = &rete {
                    if let Some(pos) = handles.iter().position(|(hf, _)| hf == f) {
                        let (_, h) = handles.remove(pos);
                        if let Ok(mut e) = r.lock() {
                            let _ = pan::catch(|| e.retract(h));
                        }
                        live.retain(|(lf, _)| lf != f);
                    }
                }
                edit_after_query |= seen_query;
            }
            Step::SetConfig(n) => {
                engine.set_config(n.engine());
                cur_cfg = n.clone();
            }
            Step::Aggregate(g) => {
                let fresh_kb = make_kb(rules)?;
                let mut fresh_engine = BackwardEngine::with_config(fresh_kb, cur_cfg.engine());
                let mut fresh_facts = facts_from_map(&facts.get_all_facts());
                let fresh = ask_aggregate(&mut fresh_engine, &mut fresh_facts, g);
                let reused = ask_aggregate(&mut engine, &mut facts, g);
                answers.push((i, reused, fresh));
                if seen_query && edit_after_query {
                    edits_between_queries = true;
                }
                seen_query = true;
            }
            Step::Begin => {
                facts.begin_undo_frame();
                caller_frames += 1;
            }
            Step::Rollback => {
                if caller_frames > 0 {
                    facts.rollback_undo_frame();
                    caller_frames -= 1;
                    edit_after_query |= seen_query;
                }
            }
            Step::Commit => {
                if caller_frames > 0 {
                    facts.commit_undo_frame();
                    caller_frames -= 1;
                }
            }
            Step::GrlQuery(g, neg, qc) => {
                let text = qtext(g, *neg);
                let fresh_kb = make_kb(rules)?;
                let mut fresh_engine = BackwardEngine::with_config(fresh_kb, qc.engine());
                let mut fresh_facts = facts_from_map(&facts.get_all_facts());
                let fresh = ask_grl(&mut fresh_engine, &mut fresh_facts, &text, qc);
                let reused = ask_grl(&mut engine, &mut facts, &text, qc);
                // the executor leaves the query's configuration in force
                cur_cfg = qc.clone();
                answers.push((i, reused, fresh));
                if seen_query && edit_after_query {
                    edits_between_queries = true;
                }
                seen_query = true;
            }
            Step::Query(g, neg) => {
                let text = qtext(g, *neg);
                // the fresh engine first, on a deep copy of what the caller holds right now
                let fresh_kb = make_kb(rules)?;
                let mut fresh_engine = BackwardEngine::with_config(fresh_kb, cur_cfg.engine());
                let mut fresh_facts = facts_from_map(&facts.get_all_facts());
                let fresh_rete = if c.rete {
                    Some(Arc::new(Mutex::new(populate_rete(&live).0)))
                } else {
                    None
                };
                let fresh = ask(&mut fresh_engine, &mut fresh_facts, &fresh_rete, &text);
                let reused = ask(&mut engine, &mut facts, &rete, &text);
                answers.push((i, reused, fresh));
                if seen_query && edit_after_query {
                    edits_between_queries = true;
                }
                seen_query = true;
            }
        }
    }
    Ok(Run { answers, edits_between_queries, leaked_frames: facts.verif_undo_depth().saturating_sub(caller_frames) })
}

/// first query step whose reused answer differs from the fresh one
fn first_mismatch(r: &Run) -> Option<(usize, Ans, Ans)> {
    r.answers.iter().find(|(_, a, b)| a != b).cloned()
}

/// A mismatch only counts when it shows in EVERY one of `confirm` further runs with the same
/// two answers: the conclusion index hands candidate rules over in HashSet order, so an answer
/// that merely varies from engine instance to engine instance is not evidence of history
/// dependence.
fn confirmed_mismatch(c: &HCase, rules: &[Rule], confirm: usize) -> Result<Option<(usize, Ans, Ans)>, String> {
    let first = run_history(c, rules)?;
    let Some(m) = first_mismatch(&first) else {
        return Ok(None);
    };
    for _ in 0..confirm {
        let r = run_history(c, rules)?;
        match r.answers.iter().find(|(i, _, _)| *i == m.0) {
            Some((_, a, b)) if *a == m.1 && *b == m.2 => {}
            _ => return Ok(Some((usize::MAX, m.1, m.2))), // not reproducible
        }
    }
    Ok(Some(m))
}

fn cause(c: &HCase, step: usize) -> &'static str {
    if let Some(Step::Aggregate(g)) = c.steps.get(step) {
        let plain_before = c.steps[..step].iter().any(|s| matches!(s, Step::Query(p, false) | Step::GrlQuery(p, false, _) if p == g));
        return if plain_before { "aggregate-after-the-plain-query-of-its-pattern" } else { "aggregate-query" };
    }
    if let Some(Step::Query(g, n) | Step::GrlQuery(g, n, _)) = c.steps.get(step) {
        if !*n && c.steps[..step].iter().any(|s| matches!(s, Step::Aggregate(p) if p == g)) {
            return "plain-query-after-an-aggregate-over-the-same-pattern";
        }
        let text = qtext(g, *n);
        let asked_before = c.steps[..step].iter().any(|s| matches!(s, Step::Query(p, pn) | Step::GrlQuery(p, pn, _) if qtext(p, *pn) == text));
        // the engine caches verdicts by query TEXT only; a later identical text gets the old verdict
        let reconfigured = c.steps[..=step].iter().any(|s| matches!(s, Step::SetConfig(_) | Step::GrlQuery(..)));
        if asked_before && reconfigured {
            return "same-query-text-asked-before-set_config";
        }
        if c.cfg.memo && asked_before {
            return "same-query-text-asked-before-on-this-engine";
        }
        if reconfigured {
            return "after-set_config";
        }
        if c.steps[..step].iter().any(|s| matches!(s, Step::Rollback)) {
            return "after-the-caller-rolled-back-an-undo-frame";
        }
    }
    "unexplained"
}

fn violation_of(c: &HCase, m: &(usize, Ans, Ans)) -> Violation {
    let q = match c.steps.get(m.0) {
        Some(Step::Query(g, n) | Step::GrlQuery(g, n, _)) => qtext(g, *n),
        Some(Step::Aggregate(g)) => format!("count(?x) WHERE {}", g.text()),
        _ => String::new(),
    };
    Violation {
        clause: CLAUSE.to_string(),
        sig: format!("C11|{}|{}", CLAUSE, cause(c, m.0)),
        detail: format!(
            "step #{} query `{}`: the engine that lived through the history answered {:?}, a freshly built engine on a deep copy of the same facts answered {:?} (history: {})",
            m.0,
            q,
            m.1,
            m.2,
            c.steps.iter().map(|s| s.to_json().to_string()).collect::<Vec<_>>().join(" ")
        ),
        case: c.to_json(),
    }
}

fn still_fails(c: &HCase) -> bool {
    if !c.steps.iter().any(|s| matches!(s, Step::Query(..) | Step::GrlQuery(..) | Step::Aggregate(..))) {
        return false;
    }
    let rules = build_rules_direct(&c.kb);
    let confirm = if c.order_dependent() { 4 } else { 0 };
    matches!(confirmed_mismatch(c, &rules, confirm), Ok(Some((i, _, _))) if i != usize::MAX)
}

fn shrink(c: &HCase) -> HCase {
    let mut cur = c.clone();
    // steps first
    let steps = shrink_list(&cur.steps, &mut |s: &[Step]| still_fails(&HCase { steps: s.to_vec(), ..cur.clone() }));
    cur.steps = steps;
    let mut budget = 200usize;
    'outer: loop {
        let mut cands: Vec<HCase> = Vec::new();
        if cur.rete {
            cands.push(HCase { rete: false, ..cur.clone() });
        }
        for i in 0..cur.kb.rules.len() {
            let mut n = cur.clone();
            n.kb.rules.remove(i);
            cands.push(n);
        }
        for i in 0..cur.facts.values.len() {
            let mut n = cur.clone();
            n.facts.values.remove(i);
            cands.push(n);
        }
        if cur.facts.nested {
            let mut n = cur.clone();
            n.facts.nested = false;
            cands.push(n);
        }
        if cur.kb.rules.iter().any(|r| r.salience != 0) {
            let mut n = cur.clone();
            for r in &mut n.kb.rules {
                r.salience = 0;
            }
            cands.push(n);
        }
        for i in 0..cur.kb.rules.len() {
            for s in cur.kb.rules[i].cond.simplifications() {
                let mut n = cur.clone();
                n.kb.rules[i].cond = s;
                cands.push(n);
            }
            if cur.kb.rules[i].sets.len() > 1 {
                for k in 0..cur.kb.rules[i].sets.len() {
                    let mut n = cur.clone();
                    n.kb.rules[i].sets.remove(k);
                    cands.push(n);
                }
            }
        }
        if cur.cfg.strat != Strat::Dfs {
            let mut n = cur.clone();
            n.cfg.strat = Strat::Dfs;
            cands.push(n);
        }
        for cand in cands {
            if budget == 0 {
                break 'outer;
            }
            budget -= 1;
            if still_fails(&cand) {
                cur = cand;
                continue 'outer;
            }
        }
        break;
    }
    for (i, r) in cur.kb.rules.iter_mut().enumerate() {
        r.name = format!("R{}", i);
    }
    cur
}

fn check_case(c: &HCase, rules: &[Rule], st: &mut Stats) {
    st.eval();
    let run = match run_history(c, rules) {
        Ok(r) => r,
        Err(e) => {
            st.count("no_verdict_(engine_not_built)");
            if st.notes.len() < 5 {
                st.notes.push(e);
            }
            return;
        }
    };
    st.add("query_steps_compared_with_a_fresh_engine", run.answers.len() as u64);
    st.add("query_steps_answered_provable", run.answers.iter().filter(|(_, a, _)| *a == Ans::Provable(true)).count() as u64);
    st.add("query_steps_with_Err_or_panic", run.answers.iter().filter(|(_, a, _)| !matches!(a, Ans::Provable(_))).count() as u64);
    if c.rete {
        st.count("histories_with_rete_engine_attached");
    }
    if !c.cfg.memo {
        st.count("histories_with_memoisation_off");
    }
    if run.leaked_frames > 0 {
        st.count("histories_that_ended_with_open_undo_frames");
    }
    let repeated = c.steps.iter().enumerate().any(|(i, s)| matches!(s, Step::Query(g, n) | Step::GrlQuery(g, n, _) if c.steps[..i].iter().any(|p| matches!(p, Step::Query(h, m) | Step::GrlQuery(h, m, _) if h == g && m == n))));
    if c.steps.iter().any(|s| matches!(s, Step::SetConfig(_))) {
        st.count("histories_with_set_config_between_steps");
    }
    if c.steps.iter().any(|s| matches!(s, Step::GrlQuery(..))) {
        st.count("histories_with_queries_through_GRLQueryExecutor");
    }
    if repeated {
        st.count("histories_repeating_a_query_text");
    }
    if run.answers.len() >= 2 && run.edits_between_queries && run.answers.iter().any(|(_, a, _)| *a == Ans::Provable(true)) {
        st.nontrivial(hash_of(c));
        st.sample(|| c.to_json());
    }
    if first_mismatch(&run).is_none() {
        return;
    }
    st.count("histories_with_a_mismatch_in_the_first_run");
    let confirm = if c.order_dependent() { 9 } else { 2 };
    match confirmed_mismatch(c, rules, confirm) {
        Ok(Some((i, _, _))) if i != usize::MAX => {
            let shrunk = shrink(c);
            if let Ok(r) = parse_kb(&shrunk.kb) {
                if let Ok(Some(m)) = confirmed_mismatch(&shrunk, &r, 9) {
                    if m.0 != usize::MAX {
                        st.violation(violation_of(&shrunk, &m));
                        return;
                    }
                }
            }
            st.count("shrunk_case_did_not_reproduce_through_parser");
            if let Ok(Some(m)) = confirmed_mismatch(c, rules, 9) {
                if m.0 != usize::MAX {
                    st.violation(violation_of(c, &m));
                }
            }
        }
        _ => st.count("mismatch_not_reproducible_(answer_varies_with_candidate_order;_not_judged)"),
    }
}

// ---------------------------------------------------------------------------------------------
// generators
// ---------------------------------------------------------------------------------------------

fn gen_cfg_c11(rng: &mut Rng, n_rules: usize) -> Cfg {
    let strat = match rng.below(10) {
        0..=7 => Strat::Dfs,
        8 => Strat::Bfs,
        _ => Strat::Iter,
    };
    // the default depth (10) only for small KBs: the engine has no cycle check, its cost is
    // exponential in the depth bound
    let max_depth = if n_rules <= 4 && rng.chance(1, 2) { 10 } else { *rng.pick(&[2usize, 4, 6]) };
    Cfg { max_depth, strat, max_solutions: *rng.pick(&[1usize, 1, 1, 3, 5]), memo: !rng.chance(1, 6) }
}

/// A value of another type with the same printed form (where one exists).
fn print_alike(v: &Lit) -> Lit {
    match v {
        Lit::I(i) => Lit::S(i.to_string()),
        Lit::B(b) => Lit::S(b.to_string()),
        Lit::S(s) => {
            if let Ok(i) = s.parse::<i64>() {
                Lit::I(i)
            } else if s == "true" || s == "false" {
                Lit::B(s == "true")
            } else {
                Lit::S(s.clone())
            }
        }
    }
}

/// string values that differ only in the white space INSIDE them (three different values)
const BLANK_FAMILY: [&str; 4] = ["disk full", "disk  full", "disk\tfull", "diskfull"];

fn gen_history(rng: &mut Rng, plan: &Plan) -> (FactsG, Vec<Step>, bool) {
    let (mut facts, steps, rete) = gen_history_inner(rng, plan);
    // one history in 6 runs on a LARGE fact base: 30..=45 more top-level facts that no rule or
    // query mentions, whose names sort before every other fact's
    if rng.chance(1, 6) {
        let k = 30 + rng.below(16);
        for i in 0..k {
            facts.values.push((format!("0f{:02}", i), Lit::I(100 + i as i64)));
        }
    }
    (facts, steps, rete)
}

fn gen_history_inner(rng: &mut Rng, plan: &Plan) -> (FactsG, Vec<Step>, bool) {
    let facts = gen_facts(rng, plan);
    if rng.chance(1, 12) {
        // the same field asked about with literals that differ only in inner white space, the
        // fact holding one of them (set through the API, so no parser touches it)
        let f = rng.pick(&["S", "T.s", "U.s", "NOTES"]).to_string();
        let mut fam: Vec<&str> = BLANK_FAMILY.to_vec();
        rng.shuffle(&mut fam);
        let mut steps = vec![Step::Set(f.clone(), Lit::S(fam[0].to_string()))];
        let mut order: Vec<&str> = fam[..3].to_vec();
        rng.shuffle(&mut order);
        for v in order {
            steps.push(Step::Query(Atom { field: f.clone(), op: Op::Eq, lit: Lit::S(v.to_string()) }, rng.chance(1, 6)));
        }
        if rng.bool() {
            steps.insert(2, Step::Set(f.clone(), Lit::S(fam[1].to_string())));
        }
        return (facts, steps, false);
    }
    let rete = rng.chance(1, 4);
    let mut pool: Vec<Atom> = Vec::new();
    let npool = 1 + rng.below(3);
    for _ in 0..npool {
        pool.push(gen_goal(rng, plan));
    }
    let n = 2 + rng.below(5);
    let mut steps = Vec::new();
    let mut present: Vec<String> = facts.values.iter().map(|(f, _)| f.clone()).collect();
    for i in 0..n {
        let last = i + 1 == n;
        if last || rng.chance(11, 20) {
            let g = rng.pick(&pool).clone();
            // after a proof the derived fields are (probably) present
            present.push(g.field.clone());
            // 1 in 8 queries is negated (`NOT goal`)
            let neg = rng.chance(1, 8);
            steps.push(Step::Query(g, neg));
        } else {
            match rng.below(10) {
                0..=3 => {
                    // remove something that is (probably) there: a supporting fact or a derived one
                    let f = if !present.is_empty() && rng.chance(3, 4) {
                        rng.pick(&present).clone()
                    } else {
                        rng.pick(&plan.chain).0.clone()
                    };
                    steps.push(Step::Remove(f));
                }
                4..=7 => {
                    let (f, v) = if rng.chance(2, 3) {
                        rng.pick(&plan.chain).clone()
                    } else {
                        let (f, t) = *rng.pick(&FIELDS);
                        (f.to_string(), random_lit(rng, t))
                    };
                    let v = if rng.chance(1, 2) { v } else { other_lit(rng, &v) };
                    // sometimes the value keeps its printed form but changes its type (3 -> "3",
                    // true -> "true", "7" -> 7): a cache key that renders values loses exactly this
                    let v = if rng.chance(1, 4) { print_alike(&v) } else { v };
                    present.push(f.clone());
                    steps.push(Step::Set(f, v));
                }
                _ => {
                    let dotted: Vec<&String> = present.iter().filter(|f| f.contains('.')).collect();
                    if rete && !dotted.is_empty() {
                        let f = (*rng.pick(&dotted)).clone();
                        if rng.bool() {
                            steps.push(Step::Remove(f.clone()));
                        }
                        steps.push(Step::ReteRetract(f));
                    } else {
                        steps.push(Step::Remove(rng.pick(&plan.chain).0.clone()));
                    }
                }
            }
        }
    }
    if rng.chance(1, 8) && !plan.chain.is_empty() {
        // targeted: same query before and after a supporting fact changes type but not print
        let g = rng.pick(&pool).clone();
        let (f, v) = rng.pick(&plan.chain).clone();
        steps = vec![Step::Set(f.clone(), v.clone()), Step::Query(g.clone(), false), Step::Set(f.clone(), print_alike(&v)), Step::Query(g.clone(), false), Step::Set(f, v), Step::Query(g, false)];
    }
    if rng.chance(1, 5) && steps.len() >= 2 {
        // reconfigure the living engine somewhere after the first step
        let at = 1 + rng.below(steps.len() - 1);
        let n_rules = plan.kb.rules.len();
        steps.insert(at, Step::SetConfig(gen_cfg_c11(rng, n_rules)));
    }
    if rng.chance(1, 8) && !plan.chain.is_empty() {
        // what-if: the question, then inside a caller-side undo frame an edit and the question
        // again, then rollback (or commit) and the question once more
        let g = rng.pick(&pool).clone();
        let (f, v) = rng.pick(&plan.chain).clone();
        let edit = if rng.bool() { Step::Set(f.clone(), other_lit(rng, &v)) } else { Step::Remove(f.clone()) };
        let close = if rng.chance(3, 4) { Step::Rollback } else { Step::Commit };
        steps = vec![Step::Set(f, v), Step::Query(g.clone(), false), Step::Begin, edit, Step::Query(g.clone(), false), close, Step::Query(g, false)];
        if rng.bool() {
            steps.remove(1);
        }
    } else if rng.chance(1, 8) {
        // the same question before and after a reconfiguration, facts untouched: a shallow or
        // breadth-first configuration first (fewer things provable), then a generous one, or the
        // other way round
        let g = rng.pick(&pool).clone();
        let small = Cfg { max_depth: rng.below(3), strat: *rng.pick(&[Strat::Dfs, Strat::Bfs, Strat::Iter]), max_solutions: 1, memo: true };
        let big = Cfg { max_depth: 6, strat: Strat::Dfs, max_solutions: *rng.pick(&[1usize, 3]), memo: true };
        let (a, b) = if rng.bool() { (small, big) } else { (big, small) };
        let neg = rng.chance(1, 6);
        steps = if rng.bool() {
            vec![Step::SetConfig(a), Step::Query(g.clone(), neg), Step::SetConfig(b), Step::Query(g, neg)]
        } else {
            vec![Step::GrlQuery(g.clone(), neg, a), Step::GrlQuery(g, neg, b)]
        };
    } else if rng.chance(1, 8) {
        // every query of the history goes through the executor with its own configuration
        let n_rules = plan.kb.rules.len();
        for s in steps.iter_mut() {
            if let Step::Query(g, n) = s {
                *s = Step::GrlQuery(g.clone(), *n, gen_cfg_c11(rng, n_rules));
            }
        }
    }
    if rng.chance(1, 6) {
        // an aggregate over the pattern of one of the goals, next to the plain query of that
        // pattern (either order), on untouched facts
        let g = rng.pick(&pool).clone();
        let at = rng.below(steps.len() + 1);
        if rng.bool() {
            steps.insert(at, Step::Query(g.clone(), false));
            steps.insert(at, Step::Aggregate(g));
        } else {
            steps.insert(at, Step::Aggregate(g.clone()));
            steps.insert(at, Step::Query(g, false));
        }
        steps.truncate(7);
        return (facts, steps, rete);
    }
    steps.truncate(7);
    if !matches!(steps.last(), Some(Step::Query(..) | Step::GrlQuery(..))) {
        steps.pop();
        steps.push(Step::Query(rng.pick(&pool).clone(), false));
    }
    (facts, steps, rete)
}

struct C11;

impl Check for C11 {
    fn id(&self) -> &'static str {
        "C11"
    }
    fn rule(&self) -> String {
        "random: KBs from the C09 generator (Horn rules from GRL text, chains to depth 6 plus distractors), 8 histories per KB of 2..=6 steps on ONE engine: query (from a pool of 1..=3 goals, so texts repeat), caller-side set / remove of chain roots, chain nodes and derived fields, and with an attached IncrementalEngine (1/4 of the histories) retraction of the mirrored explicit fact there; configuration: memoisation on (5/6; off 1/6 as a control), dfs 8/10, bfs, iterative, max_depth 2/4/6 or the default 10 for KBs of <= 4 rules. In 1/5 of the histories one `set_config` step with another generated configuration is inserted; in 1/8 the history is the same question before and after a reconfiguration on untouched facts (max_depth 0..=2 / bfs / iterative vs depth-first 6, either order; through set_config or through GRLQueryExecutor::execute, which re-applies a per-query configuration); in 1/8 every query goes through GRLQueryExecutor::execute with its own configuration; in 1/6 an aggregate query (`count(?x) WHERE pattern`, compared by its value) stands next to the plain query of its pattern, either order; in 1/8 the history is a what-if (question, caller-side begin_undo_frame, an edit, the question, rollback or commit, the question). Before every query step a freshly built engine WITH THE CONFIGURATION IN FORCE AT THAT MOMENT answers the same query on a deep copy of the facts. exhaustive: for K generated KBs (10 quick / 50 thorough) ALL 5^4 histories of length 4 over {query q1, query q2, set root, remove root, remove the field q1 asks about} (every prefix is checked, so all shorter histories too). A history is non-trivial when it has >= 2 queries with a fact edit between two of them and at least one provable answer; distinct by structural hash. A mismatch is judged only if it reproduces identically in every one of 2..9 further runs (the engine's candidate order comes from a HashSet).".into()
    }
    fn assumptions(&self) -> Vec<String> {
        vec![
            "the 'answer' compared is QueryResult.provable (Err and panic are answers of their own kind)".into(),
            "the fresh engine gets Facts rebuilt key by key from get_all_facts() (Facts::clone shares storage) and, when a RETE engine is attached, a new IncrementalEngine holding the explicit facts that are still live".into(),
            "a mismatch that does not reproduce in every confirmation run is counted, not judged".into(),
        ]
    }

    fn devopt_scale(&self) -> Option<f64> {
        Some(0.25)
    }
    fn explore(&self, cli: &Cli, st: &mut Stats) {
        let nthreads = cli.threads;
        // ---- exhaustive histories for a few KBs ----
        let nkb = cli.tier.pick(10usize, 50usize);
        shards(cli, nthreads, st, |shard, _rng, st| {
            for k in 0..nkb {
                if k % nthreads != shard {
                    continue;
                }
                // the k-th KB of the family is a function of (seed, k) only
                let mut rng = Rng::derive(cli.seed, 1_000 + k as u64);
                let (plan, parsed) = loop {
                    let feat = Feat::default();
                    let plan = gen_plan(&mut rng, feat);
                    if plan.kb.rules.len() > 6 {
                        continue;
                    }
                    if let Ok(p) = parse_kb(&plan.kb) {
                        break (plan, p);
                    }
                };
                let root = plan.chain[0].clone();
                let end = plan.chain[plan.chain.len() - 1].clone();
                let mid = plan.chain[plan.chain.len() / 2].clone();
                let q1 = Atom { field: end.0.clone(), op: Op::Eq, lit: end.1.clone() };
                let q2 = if mid.0 != end.0 {
                    Atom { field: mid.0.clone(), op: Op::Eq, lit: mid.1.clone() }
                } else {
                    Atom { field: end.0.clone(), op: Op::Ne, lit: end.1.clone() }
                };
                let alpha = [
                    Step::Query(q1.clone(), false),
                    Step::Query(q2, false),
                    Step::Set(root.0.clone(), root.1.clone()),
                    Step::Remove(root.0.clone()),
                    Step::Remove(q1.field.clone()),
                ];
                // integer equalities would drag C09's literal finding in; the family uses ordered ints only
                let fix = |a: &Step| -> Step {
                    match a {
                        Step::Query(g, n) if is_int_eq(g) => Step::Query(Atom { field: g.field.clone(), op: if g.op == Op::Eq { Op::Ge } else { Op::Lt }, lit: g.lit.clone() }, *n),
                        s => s.clone(),
                    }
                };
                let alpha: Vec<Step> = alpha.iter().map(fix).collect();
                let cfg = Cfg { max_depth: 6, strat: Strat::Dfs, max_solutions: 1, memo: true };
                let facts = FactsG { nested: false, values: vec![root.clone()] };
                st.count("family_kbs");
                for a in 0..5 {
                    for b in 0..5 {
                        for c in 0..5 {
                            for d in 0..5 {
                                let steps = vec![alpha[a].clone(), alpha[b].clone(), alpha[c].clone(), alpha[d].clone()];
                                let case = HCase { kb: plan.kb.clone(), cfg: cfg.clone(), rete: false, facts: facts.clone(), steps };
                                check_case(&case, &parsed, st);
                            }
                        }
                    }
                }
            }
        });
        st.exhaustive.push(format!(
            "for {} generated KBs: all 5^4 histories of length 4 (and, as prefixes, all shorter ones) over 2 queries x 3 fact edits on one engine with default memoisation",
            nkb
        ));

        // ---- random histories ----
        let kbs_per_shard = cli.n(400, 8_000);
        shards(cli, nthreads, st, |_shard, rng, st| {
            for _ in 0..kbs_per_shard {
                if cli.expired() {
                    st.count("stopped_by_time_budget");
                    break;
                }
                let feat = Feat::random(rng);
                let plan = gen_plan(rng, feat);
                let Ok(parsed) = parse_kb(&plan.kb) else {
                    st.count("skipped_parser_mismatch");
                    continue;
                };
                for _ in 0..8 {
                    let (facts, steps, rete) = gen_history(rng, &plan);
                    let cfg = gen_cfg_c11(rng, plan.kb.rules.len());
                    let case = HCase { kb: plan.kb.clone(), cfg, rete, facts, steps };
                    check_case(&case, &parsed, st);
                }
            }
        });
    }

    fn replay(&self, cli: &Cli, case: &Json) -> Vec<Violation> {
        let Some(c) = HCase::from_json(case) else {
            return vec![Violation { clause: "harness".into(), sig: "C11|harness|bad-case".into(), detail: "cannot decode case".into(), case: case.clone() }];
        };
        let rules = match parse_kb(&c.kb) {
            Ok(r) => r,
            Err(e) => {
                err!("C11 replay: the GRL text does not parse into the rules of the case ({}); nothing to judge", e);
                return vec![];
            }
        };
        match confirmed_mismatch(&c, &rules, 9) {
            Ok(Some(m)) if m.0 != usize::MAX => vec![violation_of(&c, &m)],
            Ok(Some(m)) => {
                err!("C11 replay: a mismatch ({:?} vs fresh {:?}) was seen but did not reproduce in every run; not judged", m.1, m.2);
                vec![]
            }
            other => {
                if cli.verbose {
                    err!("C11 replay: no mismatch ({:?})", other.is_ok());
                }
                vec![]
            }
        }
    }
}

fn main() {
    run_main(C11)
}
