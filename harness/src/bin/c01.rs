//! C01 — forward chaining runs a rule's actions iff its condition is true; assignments store
//! the value of their right-hand side.
//!
//! GRL text is generated from the grammar (the generator keeps its own AST), parsed by the real
//! parser and executed by the real engine through `execute_with_callback`. The monitor is
//! local: for every observed firing the pre-state is the fact snapshot observed after the
//! previous firing, so each firing, each non-firing between two firings and each assignment is
//! judged against the three-valued reference evaluator on states the engine really was in.

use rre_verif::grl::ast::*;
use rre_verif::grl::eval::*;
use rre_verif::grl::fwd::*;
use rre_verif::grl::gen::{self, Hostile};
use rre_verif::grl::val::{Look, Store, V};
use rre_verif::*;
use std::collections::BTreeMap;

#[derive(Clone, Debug)]
struct Case {
    rules: Vec<RuleAst>,
    store: Store,
    max_cycles: usize,
    /// which copy of the engine's loop is driven
    entry: Entry,
}

impl Case {
    fn to_json(&self) -> Json {
        json!({
            "rules": self.rules.iter().map(rule_json).collect::<Vec<_>>(),
            "store": self.store.to_json(),
            "max_cycles": self.max_cycles,
            "entry": self.entry.name(),
            "grl": fmt_rules(&self.rules),
        })
    }
    fn from_json(j: &Json) -> Option<Case> {
        Some(Case {
            rules: j.get("rules")?.as_array()?.iter().map(rule_from).collect::<Option<Vec<_>>>()?,
            store: Store::from_json(j.get("store")?)?,
            max_cycles: j.get("max_cycles")?.as_u64()? as usize,
            entry: Entry::from_name(j.get("entry").and_then(|v| v.as_str()).unwrap_or("execute_with_callback")),
        })
    }
}

#[derive(Default, Debug)]
struct Obs {
    parse_failed: bool,
    order_anomaly: bool,
    firings_judged: u64,
    nonfirings_judged: u64,
    assignments_judged: u64,
    undefined: Vec<&'static str>,
    passes: u64,
}

#[derive(Clone, Debug)]
struct Viol {
    clause: &'static str,
    /// index of the rule the disagreement is about
    rule: usize,
    /// state the rule was (or should have been) considered on
    state: Store,
    detail: String,
    /// extra cause hint determined at detection time
    hint: String,
}

fn diff_stores(expected: &Store, observed: &Store) -> String {
    let mut out = Vec::new();
    let keys: std::collections::BTreeSet<&String> = expected.0.keys().chain(observed.0.keys()).collect();
    for k in keys {
        let e = expected.0.get(k);
        let o = observed.0.get(k);
        if e != o {
            out.push(format!("{}: expected {:?}, observed {:?}", k, e, o));
        }
    }
    out.join("; ")
}

/// classify an assignment mismatch between the model store and the observed store
fn assignment_hint(expected: &Store, observed: &Store, rule: &RuleAst) -> String {
    let mut targets: Vec<&str> = Vec::new();
    for a in &rule.actions {
        if let Action::Set { target, .. } = a {
            targets.push(target);
        }
    }
    let touches = |k: &str| targets.iter().any(|t| *t == k || t.split('.').next() == Some(k));
    let keys: std::collections::BTreeSet<&String> = expected.0.keys().chain(observed.0.keys()).collect();
    for k in &keys {
        if expected.0.get(*k) != observed.0.get(*k) && !touches(k) {
            return "other-key-changed".into();
        }
    }
    for t in &targets {
        match (expected.lookup(t), observed.lookup(t)) {
            (Look::Val(e), Look::Val(o)) if e != o => {
                return if e.type_name() != o.type_name() { "wrong-type".into() } else { "wrong-value".into() };
            }
            (Look::Val(_), Look::Missing) => return "not-stored".into(),
            (Look::Val(_), Look::Ambiguous) | (Look::Missing, Look::Val(_)) => return "stored-elsewhere".into(),
            _ => {}
        }
    }
    "store-differs".into()
}

/// Judge one case. Returns the first disagreement (if any) and what was observed.
fn judge(case: &Case) -> (Option<Viol>, Obs) {
    let mut obs = Obs::default();
    let run = run_forward_rules(&case.rules, &case.store, case.max_cycles, &[], case.entry);
    if run.parse_error.is_some() {
        obs.parse_failed = true;
        return (None, obs);
    }
    obs.passes = run.passes as u64;
    let order = rank_order(&case.rules);
    let rank_of: BTreeMap<&str, usize> = order
        .iter()
        .enumerate()
        .map(|(rank, &i)| (case.rules[i].name.as_str(), rank))
        .collect();
    let n = case.rules.len();

    // every rule at ranks [from, to) on state `s` must not have a true condition
    let check_nonfiring = |from: usize, to: usize, s: &Store, obs: &mut Obs| -> Option<Viol> {
        for rank in from..to {
            let ri = order[rank];
            match eval_cond(&case.rules[ri].cond, s) {
                T3::True => {
                    return Some(Viol {
                        clause: "did-not-fire-on-true",
                        rule: ri,
                        state: s.clone(),
                        detail: format!(
                            "rule {} was considered on {} where its condition `{}` is true, but its actions did not run",
                            case.rules[ri].name,
                            s.to_json(),
                            fmt_cond(&case.rules[ri].cond)
                        ),
                        hint: String::new(),
                    })
                }
                T3::False => obs.nonfirings_judged += 1,
                T3::Undef(e) => obs.undefined.push(e),
            }
        }
        None
    };

    let mut prev = case.store.clone();
    let mut pos: (usize, isize) = (0, -1); // (pass, rank of last firing in that pass)
    for f in &run.firings {
        let Some(&rank) = rank_of.get(f.rule.as_str()) else {
            obs.order_anomaly = true;
            return (None, obs);
        };
        let pass = match f.pass {
            Some(p) => p,
            None => {
                obs.order_anomaly = true;
                return (None, obs);
            }
        };
        // consideration order assumed: ranks ascending within a pass, passes ascending (C02/C03
        // own that claim; if it does not hold here nothing can be attributed)
        let ok_order = (pass == pos.0 && (rank as isize) > pos.1) || (pass == pos.0 + 1 && pos.1 >= 0);
        if !ok_order {
            obs.order_anomaly = true;
            return (None, obs);
        }
        // (b) rules passed over between the previous firing and this one
        if pass == pos.0 {
            if let Some(v) = check_nonfiring((pos.1 + 1) as usize, rank, &prev, &mut obs) {
                return (Some(v), obs);
            }
        } else {
            if let Some(v) = check_nonfiring((pos.1 + 1) as usize, n, &prev, &mut obs) {
                return (Some(v), obs);
            }
            if let Some(v) = check_nonfiring(0, rank, &prev, &mut obs) {
                return (Some(v), obs);
            }
        }
        // (a) the firing itself
        let ri = order[rank];
        let rule = &case.rules[ri];
        match eval_cond(&rule.cond, &prev) {
            T3::True => obs.firings_judged += 1,
            T3::False => {
                return (
                    Some(Viol {
                        clause: "fired-on-false",
                        rule: ri,
                        state: prev.clone(),
                        detail: format!(
                            "rule {} fired on {} where its condition `{}` is false",
                            rule.name,
                            prev.to_json(),
                            fmt_cond(&rule.cond)
                        ),
                        hint: String::new(),
                    }),
                    obs,
                )
            }
            T3::Undef(e) => {
                obs.undefined.push(e);
                return (None, obs); // the trajectory from here on is not judged
            }
        }
        // (c) the assignments
        let mut model = prev.clone();
        for a in &rule.actions {
            if let Err(e) = apply_action(a, &mut model) {
                obs.undefined.push(e);
                return (None, obs);
            }
        }
        let after = match &f.after {
            Ok(s) => s.clone(),
            Err(key) => {
                return (
                    Some(Viol {
                        clause: "assignment",
                        rule: ri,
                        state: prev.clone(),
                        detail: format!("after rule {} fired, fact `{}` holds an unevaluated expression", rule.name, key),
                        hint: "unevaluated-expression-stored".into(),
                    }),
                    obs,
                )
            }
        };
        if after != model {
            return (
                Some(Viol {
                    clause: "assignment",
                    rule: ri,
                    state: prev.clone(),
                    detail: format!(
                        "after rule {} fired on {}: {}",
                        rule.name,
                        prev.to_json(),
                        diff_stores(&model, &after)
                    ),
                    hint: assignment_hint(&model, &after, rule),
                }),
                obs,
            );
        }
        obs.assignments_judged += rule.actions.len() as u64;
        prev = after;
        pos = (pass, rank as isize);
    }

    match &run.end {
        RunEnd::Ok { .. } => {
            if case.max_cycles == 0 {
                return (None, obs);
            }
            // rest of the last firing's pass (or the whole first pass when nothing fired)
            if run.passes > pos.0 {
                if let Some(v) = check_nonfiring((pos.1 + 1) as usize, n, &prev, &mut obs) {
                    return (Some(v), obs);
                }
            }
            // a further complete pass that fired nothing
            if run.passes > pos.0 + 1 {
                if let Some(v) = check_nonfiring(0, n, &prev, &mut obs) {
                    return (Some(v), obs);
                }
            }
            (None, obs)
        }
        RunEnd::Err(e) => {
            // The run aborted inside some rule's actions; no callback tells us which rule. The
            // candidates are the rules still due in this pass and (if the bound allows) the next.
            // If ANY candidate whose condition is not false has an action the reference cannot
            // evaluate (absent operand, division by zero, ...), the error may be legitimate: no
            // verdict. Otherwise every candidate's actions are defined and the error is not.
            let mut cand: Vec<usize> = ((pos.1 + 1) as usize..n).collect();
            if pos.0 + 1 < case.max_cycles && !run.firings.is_empty() {
                cand.extend(0..n);
            }
            let mut first_true: Option<usize> = None;
            let mut false_but_error_capable: Option<usize> = None;
            for rank in cand {
                let ri = order[rank];
                let c = eval_cond(&case.rules[ri].cond, &prev);
                if c == T3::False {
                    // not due; but remember it if running its actions anyway would explain the error
                    let mut model = prev.clone();
                    if case.rules[ri].actions.iter().any(|a| apply_action(a, &mut model).is_err()) && false_but_error_capable.is_none() {
                        false_but_error_capable = Some(ri);
                    }
                    continue;
                }
                let mut model = prev.clone();
                for a in &case.rules[ri].actions {
                    if let Err(u) = apply_action(a, &mut model) {
                        obs.undefined.push(u);
                        return (None, obs);
                    }
                }
                if let T3::Undef(u) = c {
                    obs.undefined.push(u);
                    return (None, obs);
                }
                if first_true.is_none() {
                    first_true = Some(ri);
                }
            }
            let first_true = if false_but_error_capable.is_some() { None } else { first_true };
            match first_true {
                Some(ri) => (
                    Some(Viol {
                        clause: "assignment",
                        rule: ri,
                        state: prev.clone(),
                        detail: format!(
                            "execute returned Err({}) although every rule still due has actions whose right-hand sides are defined on {} (first due rule with a true condition: {})",
                            e,
                            prev.to_json(),
                            case.rules[ri].name
                        ),
                        hint: "execute-returned-error".into(),
                    }),
                    obs,
                ),
                None => match false_but_error_capable {
                    // the engine evidently ran the actions of a rule whose condition is false
                    Some(ri) => (
                        Some(Viol {
                            clause: "fired-on-false",
                            rule: ri,
                            state: prev.clone(),
                            detail: format!(
                                "execute returned Err({}) from a rule's actions although no due rule has a true condition on {} (rule {} has a false condition `{}` and an action that cannot be evaluated)",
                                e,
                                prev.to_json(),
                                case.rules[ri].name,
                                fmt_cond(&case.rules[ri].cond)
                            ),
                            hint: String::new(),
                        }),
                        obs,
                    ),
                    None => (
                        Some(Viol {
                            clause: "execute-error",
                            rule: 0,
                            state: prev.clone(),
                            detail: format!("execute returned Err({}) although no rule with a true condition was due", e),
                            hint: "unexplained".into(),
                        }),
                        obs,
                    ),
                },
            }
        }
        RunEnd::Panic(p) => (
            Some(Viol {
                clause: "panic",
                rule: 0,
                state: prev.clone(),
                detail: format!("execute panicked: {} at {}:{}", p.msg, p.file, p.line),
                hint: format!("{}|{}", p.class(), p.frame),
            }),
            obs,
        ),
        RunEnd::Runaway(_) => {
            obs.order_anomaly = true;
            (None, obs)
        }
    }
}

// ------------------------------------------------------------------ descriptors & shrinking

fn value_kind(s: &Store, path: &str) -> String {
    match s.lookup(path) {
        Look::Val(v) => v.type_name().to_string(),
        Look::Missing => "absent".into(),
        Look::Ambiguous => "ambiguous".into(),
    }
}

fn chain_desc(c: &Chain) -> String {
    let mut ops: Vec<char> = c.rest.iter().map(|(o, _)| *o).collect();
    ops.sort();
    ops.dedup();
    let lit_arith = std::iter::once(&c.first)
        .chain(c.rest.iter().map(|(_, o)| o))
        .any(|o| matches!(o, Operand::Str(s) if s.chars().any(|ch| "+-*/%".contains(ch))));
    format!(
        "arith[{}]{}",
        ops.iter().collect::<String>(),
        if lit_arith { ":string-literal-contains-arith-char" } else { "" }
    )
}

fn rhs_desc(r: &Rhs, s: &Store) -> String {
    match r {
        Rhs::Lit(v) => format!("lit:{}", v.type_name()),
        Rhs::FieldRef(p) => format!("ref:{}", value_kind(s, p)),
        Rhs::Arith(c) => chain_desc(c),
    }
}

fn leaf_desc(l: &Leaf, s: &Store) -> String {
    let lhs = match &l.lhs {
        Lhs::Field(p) => format!("field:{}", value_kind(s, p)),
        Lhs::Arith(c) => chain_desc(c),
    };
    format!("{}|lhs={}|rhs={}", l.op.text(), lhs, rhs_desc(&l.rhs, s))
}

/// Explicit cause predicates on the shrunk leaf, most specific first; the generic descriptor
/// (operator, kinds of both sides) is the fall-back.
fn leaf_cause(l: &Leaf, s: &Store) -> String {
    if l.op == Op::Contains {
        if let Lhs::Field(p) = &l.lhs {
            if matches!(s.lookup(p), Look::Val(V::Arr(_))) {
                return "contains-on-array-valued-field".into();
            }
        }
    }
    leaf_desc(l, s)
}

fn cond_desc(c: &Cond, s: &Store) -> String {
    match c {
        Cond::Leaf(l) => leaf_cause(l, s),
        Cond::Not(inner) => match &**inner {
            Cond::Leaf(l) => format!("not:{}", leaf_cause(l, s)),
            _ => "compound".into(),
        },
        _ => "compound".into(),
    }
}

fn is_cond_clause(c: &str) -> bool {
    c == "fired-on-false" || c == "did-not-fire-on-true"
}

/// Does the case still fail "the same way"? The two condition clauses count as one family:
/// `!(leaf)` firing on false and `leaf` not firing on true are the same disagreement.
fn same_failure(case: &Case, clause: &str) -> Option<Viol> {
    match pan::catch(|| judge(case)) {
        Ok((Some(v), _)) if v.clause == clause || (is_cond_clause(v.clause) && is_cond_clause(clause)) => Some(v),
        _ => None,
    }
}

/// Reduce a failing case to one rule on the state it failed on, then shrink condition, actions
/// and store while the same clause keeps failing; compute the signature on the result.
fn shrink_and_sign(case: &Case, v: &Viol) -> Violation {
    let mut clause = v.clause;
    let mut best = case.clone();
    let mut bv = v.clone();
    // 1. single rule, its own pre-state, one pass
    {
        // the attributed rule first, then any other rule (attribution after an aborted run is a guess)
        let mut tryorder: Vec<usize> = vec![v.rule.min(case.rules.len() - 1)];
        tryorder.extend((0..case.rules.len()).filter(|i| *i != v.rule));
        for ri in tryorder {
            let mut r = case.rules[ri].clone();
            r.attrs.salience = None;
            let cand = Case { rules: vec![r], store: v.state.clone(), max_cycles: 1, entry: case.entry };
            // with a single rule the attribution is exact, so any disagreement found there is
            // the one to report (the multi-rule attribution after an aborted run is a guess)
            if let Ok((Some(nv), _)) = pan::catch(|| judge(&cand)) {
                clause = nv.clause;
                best = cand;
                bv = nv;
                break;
            }
        }
    }
    if best.rules.len() == 1 {
        // 2. condition → sub-trees
        loop {
            let kids: Vec<Cond> = match &best.rules[0].cond {
                Cond::And(a, b) | Cond::Or(a, b) => vec![(**a).clone(), (**b).clone()],
                Cond::Not(a) => vec![(**a).clone()],
                Cond::Leaf(_) => vec![],
            };
            let mut progressed = false;
            for k in kids {
                let mut cand = best.clone();
                cand.rules[0].cond = k;
                if let Some(nv) = same_failure(&cand, clause) {
                    best = cand;
                    bv = nv;
                    progressed = true;
                    break;
                }
            }
            if !progressed {
                break;
            }
        }
        // 3. actions
        if best.rules[0].actions.len() > 1 {
            let acts = best.rules[0].actions.clone();
            let b2 = best.clone();
            let mut fails = |xs: &[Action]| {
                if xs.is_empty() {
                    return false;
                }
                let mut c = b2.clone();
                c.rules[0].actions = xs.to_vec();
                same_failure(&c, clause).is_some()
            };
            let kept = shrink_list(&acts, &mut fails);
            let mut cand = best.clone();
            cand.rules[0].actions = kept;
            if let Some(nv) = same_failure(&cand, clause) {
                best = cand;
                bv = nv;
            }
        }
        // 4. store keys
        let keys: Vec<String> = best.store.0.keys().cloned().collect();
        for k in keys {
            let mut cand = best.clone();
            cand.store.0.remove(&k);
            if let Some(nv) = same_failure(&cand, clause) {
                best = cand;
                bv = nv;
            }
        }
    }
    let rule = &best.rules[bv.rule.min(best.rules.len() - 1)];
    let clause = bv.clause;
    let unshrunk = best.rules.len() != 1 && case.rules.len() != 1;
    let (sig_clause, cause) = match clause {
        _ if unshrunk => (clause.to_string(), "unexplained:needs-several-rules".to_string()),
        "fired-on-false" | "did-not-fire-on-true" => (
            format!(
                "condition-verdict|{}",
                if clause == "fired-on-false" { "engine=true,oracle=false" } else { "engine=false,oracle=true" }
            ),
            cond_desc(&rule.cond, &bv.state),
        ),
        "assignment" => {
            let a = rule
                .actions
                .iter()
                .filter_map(|a| match a {
                    Action::Set { target, rhs } => Some(
                        if matches!(bv.hint.as_str(), "stored-elsewhere" | "not-stored") {
                            format!("target={}|rhs={}", if target.contains('.') { "dotted" } else { "plain" }, rhs_desc(rhs, &bv.state))
                        } else {
                            format!("rhs={}", rhs_desc(rhs, &bv.state))
                        },
                    ),
                    _ => None,
                })
                .collect::<Vec<_>>();
            let concat_lit = rule.actions.iter().any(|a| match a {
                Action::Set { rhs: Rhs::Arith(c), .. } => chain_desc(c).contains("string-literal-contains-arith-char"),
                _ => false,
            });
            (
                "assignment".to_string(),
                format!(
                    "{}|{}",
                    bv.hint,
                    if concat_lit && bv.hint == "execute-returned-error" {
                        "rhs=concatenation-with-string-literal-containing-arith-char".to_string()
                    } else if a.len() == 1 {
                        a[0].clone()
                    } else {
                        "several-actions".into()
                    }
                ),
            )
        }
        other => (other.to_string(), bv.hint.clone()),
    };
    Violation {
        clause: clause.to_string(),
        sig: format!("C01|{}|{}", sig_clause, cause),
        detail: bv.detail.clone(),
        case: best.to_json(),
    }
}

fn run_and_record(case: &Case, st: &mut Stats) {
    st.eval();
    let (v, obs) = match pan::catch_frames(|| judge(case)) {
        Ok(r) => r,
        Err(p) => {
            st.inconclusive(format!("harness panic in judge: {} at {}:{}", p.msg, p.file, p.line));
            return;
        }
    };
    if obs.parse_failed {
        st.count("skipped_parse_failed_(C04_owns_it)");
        return;
    }
    if obs.order_anomaly {
        st.count("skipped_consideration_order_not_as_assumed_(C02_C03_own_it)");
        st.inconclusive("firing order / pass structure was not the one C01's attribution assumes (see C02/C03)");
    }
    st.count(&format!("runs_via::{}", case.entry.name()));
    st.add("firings_judged_true", obs.firings_judged);
    st.add("nonfirings_judged_false", obs.nonfirings_judged);
    st.add("assignments_judged", obs.assignments_judged);
    st.add("passes_observed", obs.passes);
    for u in &obs.undefined {
        st.count(&format!("skipped_undefined::{}", u));
    }
    if obs.firings_judged > 0 && obs.nonfirings_judged > 0 {
        st.nontrivial(hash_of(&format!("{:?}", case)));
        st.sample(|| case.to_json());
    }
    if let Some(v) = v {
        st.violation(shrink_and_sign(case, &v));
    }
}

fn gen_case(rng: &mut Rng) -> Case {
    let h = Hostile {
        array_contains: rng.chance(1, 12),
        concat_lit_arith_char: rng.chance(1, 12),
        undefined_mix: rng.chance(1, 10),
        fact_name_literals: rng.chance(1, 10),
    };
    let n = 1 + rng.below(5);
    let max_depth = *rng.pick(&[1usize, 2, 3, 4, 6]);
    Case {
        rules: (0..n).map(|i| gen::gen_rule(rng, i, max_depth, &h)).collect(),
        store: gen::gen_store(rng),
        max_cycles: *rng.pick(&[1usize, 3]),
        entry: if rng.bool() { Entry::WithCallback } else { Entry::Execute },
    }
}

/// The single-leaf matrix: operator × left kind × right kind × {present, absent}, plain and negated.
fn leaf_matrix() -> Vec<Case> {
    let mut base = Store::new();
    base.0.insert("i".into(), V::Int(5));
    base.0.insert("j".into(), V::Int(7));
    base.0.insert("x".into(), V::Float(2.5));
    base.0.insert("y".into(), V::Float(5.0));
    base.0.insert("s".into(), V::Str("alphabet".into()));
    base.0.insert("t".into(), V::Str("alpha".into()));
    base.0.insert("b".into(), V::Bool(true));
    base.0.insert("c".into(), V::Bool(false));
    base.0.insert("tags".into(), V::Arr(vec![V::Str("alpha".into()), V::Str("beta".into())]));
    base.0.insert("nums".into(), V::Arr(vec![V::Int(5), V::Int(9)]));
    let mut o = BTreeMap::new();
    o.insert("n".to_string(), V::Int(5));
    o.insert("s".to_string(), V::Str("alpha".into()));
    base.0.insert("Obj".into(), V::Obj(o));
    base.0.insert("Flat.n".into(), V::Int(5));
    let lhs_fields = ["i", "x", "s", "b", "tags", "nums", "Obj.n", "Obj.s", "Flat.n", "missing", "Obj.missing"];
    let rhss: Vec<Rhs> = vec![
        Rhs::Lit(V::Int(5)),
        Rhs::Lit(V::Int(6)),
        Rhs::Lit(V::Int(-1)),
        Rhs::Lit(V::Float(2.5)),
        Rhs::Lit(V::Float(5.0)),
        Rhs::Lit(V::Float(7.25)),
        Rhs::Lit(V::Str("alpha".into())),
        Rhs::Lit(V::Str("alphabet".into())),
        Rhs::Lit(V::Str("bet".into())),
        Rhs::Lit(V::Str("".into())),
        Rhs::Lit(V::Bool(true)),
        Rhs::Lit(V::Bool(false)),
        Rhs::Lit(V::Null),
        Rhs::Lit(V::Arr(vec![V::Int(5), V::Int(6)])),
        Rhs::Lit(V::Arr(vec![V::Int(8)])),
        Rhs::Lit(V::Arr(vec![V::Str("alpha".into()), V::Str("alphabet".into())])),
        Rhs::Lit(V::Arr(vec![])),
        Rhs::FieldRef("i".into()),
        Rhs::FieldRef("j".into()),
        Rhs::FieldRef("x".into()),
        Rhs::FieldRef("y".into()),
        Rhs::FieldRef("s".into()),
        Rhs::FieldRef("t".into()),
        Rhs::FieldRef("b".into()),
        Rhs::FieldRef("c".into()),
        Rhs::FieldRef("Obj.n".into()),
        Rhs::FieldRef("Flat.n".into()),
        Rhs::FieldRef("nums".into()),
        Rhs::FieldRef("tags".into()),
    ];
    let mut out = Vec::new();
    for f in lhs_fields {
        for op in Op::ALL {
            for rhs in &rhss {
                for neg in [false, true] {
                    let leaf = Cond::Leaf(Leaf { lhs: Lhs::Field(f.to_string()), op, rhs: rhs.clone() });
                    let cond = if neg { Cond::Not(Box::new(leaf)) } else { leaf };
                    out.push(Case {
                        rules: vec![RuleAst {
                            name: "M".into(),
                            quoted_name: true,
                            description: None,
                            attrs: Attrs::default(),
                            cond,
                            actions: vec![Action::Set { target: "out0".into(), rhs: Rhs::Lit(V::Int(1)) }],
                        }],
                        store: base.clone(),
                        max_cycles: 1,
                        entry: if neg { Entry::Execute } else { Entry::WithCallback },
                    });
                }
            }
        }
    }
    out
}

struct C01;

impl Check for C01 {
    fn id(&self) -> &'static str {
        "C01"
    }
    fn rule(&self) -> String {
        "GRL text generated from the grammar of the typed core (1-5 rules, condition trees to depth 6 over == != < <= > >= contains startsWith endsWith in, field/literal/field-reference/arithmetic leaves with chains of up to 4 operators, assignments of literals, references, arithmetic and string concatenation; in one case in 10 half of the assigned string literals are the name of a fact of the schema, `s0 = \"n0\"`, which stays a text) x fact stores over a 19-field schema (flat keys, dotted flat keys, nested objects to depth 3, int/float/string/bool/array values, ~20% of fields absent) x max_cycles {1,3}, parsed and executed by the real engine; plus the exhaustive single-leaf matrix (11 left fields incl. absent x 10 operators x 29 right-hand sides, plain and negated). A case is non-trivial when at least one firing was judged true AND at least one considered rule was judged false on the same run; distinct by (rules, store, max_cycles). Cases whose oracle value is Undefined at a decision point are skipped from there on and counted under skipped_undefined::<reason>.".into()
    }
    fn assumptions(&self) -> Vec<String> {
        vec![
            "reference semantics of DESIGN.md §4.2 (missing field = null; ordering numeric across int/float; contains on an array = membership; integer result iff both operands integer and result whole; cross-type equalities, absent right-hand references, division/modulo by zero, values beyond 2^53 are Undefined and skipped)".into(),
            "within a pass rules are considered in rank order and a pass that fires nothing ends the run (C02/C03 check that; a run where the observed order contradicts it is not judged here and makes the check inconclusive)".into(),
            "the pre-state of a firing is the fact snapshot the callback saw after the previous firing (only rule actions modify the facts)".into(),
        ]
    }
    fn devopt_scale(&self) -> Option<f64> {
        Some(0.1)
    }
    fn explore(&self, cli: &Cli, st: &mut Stats) {
        // exhaustive single-leaf matrix
        let matrix = leaf_matrix();
        let nthreads = cli.threads;
        let m = &matrix;
        shards(cli, nthreads, st, |shard, _rng, st| {
            for (i, c) in m.iter().enumerate() {
                if i % nthreads == shard {
                    run_and_record(c, st);
                }
            }
        });
        st.exhaustive.push("single-leaf matrix: 11 left fields x 10 operators x 29 right-hand sides x {plain, negated}".into());
        // random rule sets
        let per = cli.n(6_000, 150_000);
        shards(cli, nthreads, st, |_shard, rng, st| {
            for _ in 0..per {
                if cli.expired() {
                    st.count("stopped_by_time_budget");
                    break;
                }
                let c = gen_case(rng);
                run_and_record(&c, st);
            }
        });
    }
    fn replay(&self, _cli: &Cli, case: &Json) -> Vec<Violation> {
        let Some(c) = Case::from_json(case) else {
            return vec![Violation { clause: "harness".into(), sig: "C01|harness|bad-case".into(), detail: "cannot decode case".into(), case: case.clone() }];
        };
        match judge(&c) {
            (Some(v), _) => vec![shrink_and_sign(&c, &v)],
            (None, obs) => {
                if obs.parse_failed {
                    out!("note: the rule text does not parse; C01 does not judge it");
                }
                vec![]
            }
        }
    }
}

fn main() {
    run_main(C01)
}
