//! C12 — windows hold exactly the events of their time span; aggregates follow.
//!
//! Step monitors (src/c12_mon.rs) over TimeWindow::{add_event, record}, WindowManager and
//! WindowedStream in tumbling mode, and StreamAlphaNode driven by the LD_PRELOAD virtual clock;
//! every observed window's count/sum/average/min/max (window methods, Aggregator, operators)
//! against a reference fold over exactly its `events()`. Cases: src/c12_case.rs.

#[path = "../c12_case.rs"]
mod case;
#[path = "../c12_mon.rs"]
mod mon;

use case::*;
use mon::*;
use rre_verif::*;
use std::collections::HashMap;
use std::sync::atomic::{AtomicBool, AtomicUsize, Ordering};

const ID: &str = "C12";
/// per shard and per signature: how many violating cases are shrunk and kept as witnesses
const SHRINK_PER_SIG: usize = 6;
const CHILD_DISTINCT_CAP: usize = 150_000;

fn to_violation(c: &Case, v: &V) -> Violation {
    Violation {
        clause: v.clause.to_string(),
        sig: format!("{}|{}|{}", ID, v.clause, v.cause),
        detail: v.detail.clone(),
        case: c.to_json(),
    }
}

/// Does the case still show a violation of this clause with this cause predicate?
fn still_fails(c: &Case, clause: &str, cause: &str) -> Option<V> {
    match pan::catch(|| run_case(c, 0)) {
        Ok(r) => r.viols.into_iter().find(|v| v.clause == clause && v.cause == cause),
        Err(_) => None,
    }
}

fn with_len(c: &Case, keep: &[usize]) -> Case {
    match c {
        Case::Tw { sliding, start, d, cap, base, ops } => Case::Tw {
            sliding: *sliding,
            start: *start,
            d: *d,
            cap: *cap,
            base: *base,
            ops: keep.iter().map(|&i| ops[i].clone()).collect(),
        },
        Case::Wm { d, cap, max_windows, base, evs, frac_us } => Case::Wm {
            d: *d,
            cap: *cap,
            max_windows: *max_windows,
            base: *base,
            evs: keep.iter().map(|&i| evs[i].clone()).collect(),
            frac_us: *frac_us,
        },
        Case::Ws { d, cap, base, via_datastream, evs } => Case::Ws {
            d: *d,
            cap: *cap,
            base: *base,
            via_datastream: *via_datastream,
            evs: keep.iter().map(|&i| evs[i].clone()).collect(),
        },
        Case::Node { sliding, d, cap, base, clock0, ops } => {
            // dropping an op keeps the clock schedule of the others: its advance goes to the next kept op
            let mut out: Vec<(u64, Ev)> = Vec::new();
            let mut carry = 0u64;
            let mut k = 0usize;
            for (i, (adv, ev)) in ops.iter().enumerate() {
                if k < keep.len() && keep[k] == i {
                    out.push((adv + carry, ev.clone()));
                    carry = 0;
                    k += 1;
                } else {
                    carry += adv;
                }
            }
            Case::Node { sliding: *sliding, d: *d, cap: *cap, base: *base, clock0: *clock0, ops: out }
        }
    }
}

fn strip_payloads(c: &Case) -> Case {
    let mut c = c.clone();
    match &mut c {
        Case::Tw { ops, .. } => ops.iter_mut().for_each(|(_, e)| e.pay = Pay::Missing),
        Case::Wm { evs, .. } | Case::Ws { evs, .. } => evs.iter_mut().for_each(|e| e.pay = Pay::Missing),
        Case::Node { ops, .. } => ops.iter_mut().for_each(|(_, e)| e.pay = Pay::Missing),
    }
    c
}

/// Delta-debug the op list (then the payloads) while the same clause keeps failing for the
/// same cause.
fn shrink(c: &Case, clause: &str, cause: &str) -> (Case, Option<V>) {
    let idx: Vec<usize> = (0..c.len()).collect();
    let mut fails = |keep: &[usize]| still_fails(&with_len(c, keep), clause, cause).is_some();
    let keep = shrink_list(&idx, &mut fails);
    let mut cur = with_len(c, &keep);
    if clause != "aggregate" {
        let s = strip_payloads(&cur);
        if still_fails(&s, clause, cause).is_some() {
            cur = s;
        }
    }
    let v = still_fails(&cur, clause, cause);
    (cur, v)
}

/// Per-shard bookkeeping outside `Stats`.
struct Shard {
    obs: Obs,
    shrunk: HashMap<String, usize>,
    distinct_cap: usize,
    nontrivial_not_hashed: u64,
}

impl Shard {
    fn new(distinct_cap: usize) -> Self {
        Shard { obs: Obs::default(), shrunk: HashMap::new(), distinct_cap, nontrivial_not_hashed: 0 }
    }
    fn flush(&self, st: &mut Stats) {
        self.obs.flush(st);
        if self.nontrivial_not_hashed > 0 {
            st.add("nontrivial_cases_beyond_the_distinct_counter", self.nontrivial_not_hashed);
        }
    }
}

fn check_case(c: &Case, from: usize, st: &mut Stats, sh: &mut Shard) {
    st.eval();
    let run = match pan::catch_frames(|| run_case(c, from)) {
        Ok(r) => r,
        Err(p) => {
            let v = V {
                clause: "no-panic",
                cause: format!("{}|{}", p.class(), p.frame),
                detail: format!("panic: {} at {}:{}", p.msg, p.file, p.line),
                step: 0,
            };
            st.violation(to_violation(c, &v));
            return;
        }
    };
    sh.obs.merge(&run.obs);
    st.count(match c {
        Case::Tw { .. } => "cases_time_window",
        Case::Wm { .. } => "cases_window_manager",
        Case::Ws { .. } => "cases_windowed_stream",
        Case::Node { .. } => "cases_alpha_node",
    });
    if nontrivial(c, &run) {
        // memory bound: every shard records at most its share of the global distinct cap
        if st.distinct.len() < sh.distinct_cap {
            st.nontrivial(c.structural_hash());
        } else {
            st.distinct_saturated = true;
            sh.nontrivial_not_hashed += 1;
        }
        if c.len() >= 3 {
            st.sample(|| c.to_json());
        }
    }
    for v in &run.viols {
        let sig = format!("{}|{}|{}", ID, v.clause, v.cause);
        let n = sh.shrunk.entry(sig.clone()).or_insert(0);
        if *n >= SHRINK_PER_SIG {
            st.count(&format!("violations_by_sig::{}", sig));
            continue;
        }
        *n += 1;
        let (small, sv) = shrink(c, v.clause, &v.cause);
        match sv {
            Some(sv) => st.violation(to_violation(&small, &sv)),
            None => st.violation(to_violation(c, v)),
        }
    }
}

// ------------------------------------------------------------------------------------------
// exhaustive jobs

#[derive(Clone, Debug)]
enum Job {
    Record { d: u64, cap: usize, first: usize },
    Add { d: u64, cap: usize, first: usize },
    Wm { d: u64, cap: usize, maxw: usize, first: usize },
    Ws { d: u64, cap: usize, first: usize },
    Node { sliding: bool, d: u64, cap: usize, phase_end: bool, first: usize },
}

struct Depths {
    record: usize,
    record_dom: usize,
    add: usize,
    wm: usize,
    ws: usize,
    node: usize,
}

fn depths(tier: Tier) -> Depths {
    match tier {
        Tier::Quick => Depths { record: 6, record_dom: 8, add: 5, wm: 5, ws: 5, node: 4 },
        Tier::Thorough => Depths { record: 8, record_dom: 7, add: 6, wm: 7, ws: 7, node: 5 },
    }
}

fn event_time_jobs(dp: &Depths) -> Vec<Job> {
    let mut jobs = Vec::new();
    for &d in &DURATIONS {
        for &cap in &CAPS_EXH {
            for first in 0..ts_domain(d, dp.record_dom).len() {
                jobs.push(Job::Record { d, cap, first });
            }
            for first in 0..add_domain(d).len() {
                jobs.push(Job::Add { d, cap, first });
            }
            for &maxw in &[1usize, 2, 100] {
                for first in 0..ts_domain(d, 7).len() {
                    jobs.push(Job::Wm { d, cap, maxw, first });
                }
            }
            for first in 0..ts_domain(d, 7).len() {
                jobs.push(Job::Ws { d, cap, first });
            }
        }
    }
    jobs
}

fn node_jobs() -> Vec<Job> {
    let mut jobs = Vec::new();
    for sliding in [true, false] {
        for &d in &DURATIONS {
            for &cap in &CAPS_EXH {
                for phase_end in [false, true] {
                    let alpha = node_advances(d).len() * node_rels(d).len();
                    for first in 0..alpha {
                        jobs.push(Job::Node { sliding, d, cap, phase_end, first });
                    }
                }
            }
        }
    }
    jobs
}

/// Enumerate one job's trie; returns false when stopped by the soft time budget.
fn run_job(job: &Job, dp: &Depths, cli: &Cli, st: &mut Stats, sh: &mut Shard) -> bool {
    let mut complete = true;
    let mut visits = 0u64;
    let mut guard = |complete: &mut bool| -> bool {
        visits += 1;
        if visits % 4096 == 0 && cli.expired() {
            *complete = false;
            return false;
        }
        true
    };
    match job {
        Job::Record { d, cap, first } => {
            let dom = ts_domain(*d, dp.record_dom);
            enum_trie(dom.len(), *first, dp.record, &mut |seq| {
                let ops = seq.iter().enumerate().map(|(p, &s)| (TwOp::Record, Ev { ts: dom[s], pay: exh_pay(p, dom[s]) })).collect();
                let c = Case::Tw { sliding: true, start: 0, d: *d, cap: *cap, base: 0, ops };
                check_case(&c, seq.len() - 1, st, sh);
                guard(&mut complete)
            });
        }
        Job::Add { d, cap, first } => {
            let dom = add_domain(*d);
            enum_trie(dom.len(), *first, dp.add, &mut |seq| {
                let ops = seq.iter().enumerate().map(|(p, &s)| (TwOp::Add, Ev { ts: dom[s], pay: exh_pay(p, dom[s]) })).collect();
                let c = Case::Tw { sliding: false, start: *d, d: *d, cap: *cap, base: 0, ops };
                check_case(&c, seq.len() - 1, st, sh);
                guard(&mut complete)
            });
        }
        Job::Wm { d, cap, maxw, first } => {
            let dom = ts_domain(*d, 7);
            enum_trie(dom.len(), *first, dp.wm, &mut |seq| {
                let evs = seq.iter().enumerate().map(|(p, &s)| Ev { ts: dom[s], pay: exh_pay(p, dom[s]) }).collect();
                let c = Case::Wm { d: *d, cap: *cap, max_windows: *maxw, base: 0, evs, frac_us: 0 };
                check_case(&c, seq.len() - 1, st, sh);
                guard(&mut complete)
            });
        }
        Job::Ws { d, cap, first } => {
            let dom = ts_domain(*d, 7);
            enum_trie(dom.len(), *first, dp.ws, &mut |seq| {
                let evs = seq.iter().enumerate().map(|(p, &s)| Ev { ts: dom[s], pay: exh_pay(p, dom[s]) }).collect();
                let c = Case::Ws { d: *d, cap: *cap, base: 0, via_datastream: seq.len() % 2 == 0, evs };
                check_case(&c, 0, st, sh);
                guard(&mut complete)
            });
        }
        Job::Node { sliding, d, cap, phase_end, first } => {
            let advs = node_advances(*d);
            let rels = node_rels(*d);
            // base is a multiple of every enumerated duration; the clock starts two intervals in,
            // at the start of an aligned interval or two ticks before its end
            let base = EPOCH - EPOCH % 30;
            let clock0 = if *phase_end { 3 * d - 2 } else { 2 * d };
            let clock0 = clock0.max(d + 1);
            enum_trie(advs.len() * rels.len(), *first, dp.node, &mut |seq| {
                let mut now = clock0;
                let ops = seq
                    .iter()
                    .enumerate()
                    .map(|(p, &s)| {
                        let adv = advs[s / rels.len()];
                        now += adv;
                        let ts = (now as i64 + rels[s % rels.len()]).max(0) as u64;
                        (adv, Ev { ts, pay: exh_pay(p, ts) })
                    })
                    .collect();
                let c = Case::Node { sliding: *sliding, d: *d, cap: *cap, base, clock0, ops };
                check_case(&c, seq.len() - 1, st, sh);
                guard(&mut complete)
            });
        }
    }
    complete
}

fn exhaustive_texts(dp: &Depths) -> Vec<String> {
    vec![
        format!("TimeWindow::record (sliding): every sequence of 1..={} records over {} timestamps around the multiples of the duration (0,1,d-1,d,d+1,2d-1,2d,2d+1,..) x durations {{1,2,3,5,10}} ms x caps {{1,2,100}}; the last step of each sequence monitored, so every step of every sequence is monitored once", dp.record, dp.record_dom),
        format!("TimeWindow::add_event: every sequence of 1..={} offers over the timestamps {{0,s-1,s,s+1,e-1,e,e+1}} of the span [s,e)=[d,2d) x durations x caps {{1,2,100}}", dp.add),
        format!("WindowManager (tumbling): every sequence of 1..={} events over 7 timestamps around the multiples of d x durations x caps {{1,2,100}} x window limits {{1,2,100}}", dp.wm),
        format!("WindowedStream (tumbling, alternately through DataStream::window): every batch of 1..={} events over the same 7 timestamps x durations x caps {{1,2,100}}", dp.ws),
    ]
}
fn exhaustive_node_text(dp: &Depths) -> String {
    format!("StreamAlphaNode under the injected clock: every sequence of 1..={} steps (clock advance in {{0,1,d}} x event timestamp now+{{-d-1,-d,-d+1,-1,0,+1}}) x {{sliding,tumbling}} x durations {{1,2,3,5,10}} ms x caps {{1,2,100}} x 2 clock phases (interval start, two ticks before interval end), epoch-sized base", dp.node)
}

// ------------------------------------------------------------------------------------------
// child protocol for the clock-driven part (Stats as JSON on stdout)

fn stats_to_json(st: &Stats, complete: bool) -> Json {
    let distinct: Vec<u64> = st.distinct.iter().copied().take(CHILD_DISTINCT_CAP).collect();
    json!({
        "complete": complete,
        "evaluations": st.evaluations,
        "distinct": distinct,
        "distinct_truncated": st.distinct.len() > CHILD_DISTINCT_CAP || st.distinct_saturated,
        "counters": st.counters,
        "samples": st.samples,
        "violations": st.violations.iter().map(|v| json!({"clause": v.clause, "sig": v.sig, "detail": v.detail, "case": v.case})).collect::<Vec<_>>(),
        "inconclusive": st.inconclusive,
        "notes": st.notes,
    })
}

fn stats_from_json(j: &Json) -> Option<(Stats, bool)> {
    let mut st = Stats::new();
    st.evaluations = j.get("evaluations")?.as_u64()?;
    for h in j.get("distinct")?.as_array()? {
        st.distinct.insert(h.as_u64()?);
    }
    st.distinct_saturated = j.get("distinct_truncated").and_then(|b| b.as_bool()).unwrap_or(false);
    for (k, v) in j.get("counters")?.as_object()? {
        st.counters.insert(k.clone(), v.as_u64()?);
    }
    for s in j.get("samples")?.as_array()? {
        st.samples.push(s.clone());
    }
    for v in j.get("violations")?.as_array()? {
        st.violations.push(Violation {
            clause: v.get("clause")?.as_str()?.to_string(),
            sig: v.get("sig")?.as_str()?.to_string(),
            detail: v.get("detail")?.as_str()?.to_string(),
            case: v.get("case")?.clone(),
        });
    }
    for s in j.get("inconclusive")?.as_array()? {
        st.inconclusive(s.as_str()?.to_string());
    }
    for s in j.get("notes")?.as_array()? {
        st.notes.push(s.as_str()?.to_string());
    }
    Some((st, j.get("complete")?.as_bool()?))
}

fn node_random_count(cli: &Cli) -> u64 {
    cli.n(40_000, 1_000_000)
}

/// Body of one clock-driven shard (runs in a child process, single thread).
fn node_shard(cli: &Cli, shard: usize, nshards: usize, st: &mut Stats) -> bool {
    if !clock::available() {
        st.inconclusive("clock shim not loaded in the child process: StreamAlphaNode sub-check not run");
        return false;
    }
    let dp = depths(cli.tier);
    let mut sh = Shard::new(CHILD_DISTINCT_CAP);
    let mut complete = true;
    for (ji, job) in node_jobs().iter().enumerate() {
        if ji % nshards != shard {
            continue;
        }
        if !complete || cli.expired() {
            complete = false;
            break;
        }
        complete &= run_job(job, &dp, cli, st, &mut sh);
    }
    let mut rng = Rng::derive(cli.seed, 1000 + shard as u64);
    for _ in 0..node_random_count(cli) {
        if cli.expired() {
            st.count("stopped_by_time_budget");
            break;
        }
        let c = rand_node_case(&mut rng);
        check_case(&c, 0, st, &mut sh);
    }
    clock::passthrough();
    sh.flush(st);
    complete
}

struct C12;

impl Check for C12 {
    fn id(&self) -> &'static str {
        ID
    }
    fn rule(&self) -> String {
        "Cases are op sequences against one structure: TimeWindow (add_event / record), WindowManager and WindowedStream in tumbling mode, StreamAlphaNode under the LD_PRELOAD virtual clock. Wherever aggregates are compared, the window's other read views (events_in_range, events_by_type, latest_timestamp) and the manager's summary views (total_event_count, get_statistics, latest_window, windows_with_event_type, aggregate_across_windows) are compared with events() / active_windows() too. \
         EXHAUSTIVE (see exhaustive_subspaces for the depth of this tier): every sequence up to the stated length over a small timestamp alphabet built around the multiples of the duration, x durations {1,2,3,5,10} ms x caps {1,2,100}; each sequence is executed from scratch and its last step is monitored, so that every step of every enumerated sequence is monitored exactly once; payload of field v is a fixed function of position and timestamp (float, integer, string, missing). \
         SAMPLED (seeded): sequences of 1..=12 events (one event-time case in 8: 21..=64 events), timestamps from base+[0,40] (base 0 or an epoch-sized value), one third snapped to a multiple of the duration +-1, in order / reversed / shuffled / mostly in order with late arrivals, duplicates arise from the small domain; durations {1,2,3,5,10} mostly, also {4,7,20,40}; caps {1,2,3,100}; window limits {1,2,3,100}; payloads float / integer / string (incl. numeric-looking) / bool / missing, in mixed, all-numeric, mostly-non-numeric and non-finite (NaN, +-infinity among numbers) styles; mixed add_event/record op sequences on sliding windows; node cases with random clock advances 0..2d and timestamps around now-d, now and the aligned interval ends. \
         After every monitored step: the acceptance / placement / retention clause of that structure on (events before, offered event, events after), then count/sum/average/min/max of the window(s) that changed through TimeWindow methods, Aggregator::{aggregate, aggregate_events}, operators::{Count,Sum,Average,Min,Max} and WindowedStream::{counts, aggregate} against a reference fold over exactly events(). \
         A case is non-trivial when both sides of its decision were exercised: record: some event was evicted or cap-dropped AND some older event survived a record; add_event: at least one offer accepted and one rejected; WindowManager/WindowedStream: at least 2 windows and a window with at least 2 events; node: at least one accepted event and at least one rejected or evicted one. Distinct by the full case (configuration, timestamps, payloads).".into()
    }
    fn assumptions(&self) -> Vec<String> {
        vec![
            "event identity is the harness-assigned metadata.sequence (= index of the offer); the structures only clone events".into(),
            "'older than the window duration relative to the recorded event' means ts < recorded.ts - d (an event exactly d old is retained), matching the half-open/inclusive conventions documented on TimeWindow::record".into(),
            "cap drops are accepted when the structure is full afterwards and the dropped events are the oldest under the arrival-order reading OR the timestamp-order reading".into(),
            "WindowManager: whole windows may disappear only when expired against some timestamp offered so far or by the max_windows limit (retention of whole windows is not part of the statement; only unexplained loss is flagged)".into(),
            "StreamAlphaNode sliding: a future timestamp in (now, now+d] is accepted under either reading ('within the duration from now' is ambiguous); retention is judged only after accepted events, a rejected event may at most evict out-of-span events".into(),
            "the injected clock is monotone non-decreasing; Session windows and WindowedStream's sliding mode are outside the statement and not driven".into(),
            "NaN / infinite payloads are not generated (min/max/sum over them is undefined)".into(),
            "sum/average tolerance n*eps*sum|x_i| (order-independent bound of recursive summation); count/min/max exact".into(),
        ]
    }

    fn explore(&self, cli: &Cli, st: &mut Stats) {
        let dp = depths(cli.tier);
        let nthreads = cli.threads.max(1);
        // development aid: VERIF_C12_PHASES=ab.. restricts the run to some phases (the skipped
        // ones are reported as inconclusive, so a restricted run can never pass as a full one)
        let phases = std::env::var("VERIF_C12_PHASES").unwrap_or_else(|_| "abc".into());
        for ph in ['a', 'b', 'c'] {
            if !phases.contains(ph) {
                st.inconclusive(format!("phase {} skipped by VERIF_C12_PHASES", ph));
            }
        }

        // soft stops only (never a verdict): each phase gets a share of the wall-clock budget so that
        // a slow machine cuts every phase a little instead of starving the last one
        let phase_cli = |share: f64| {
            let mut c = cli.clone();
            c.budget_s = cli.budget_s * share;
            c
        };
        let (cli_a, cli_b) = (phase_cli(0.5), phase_cli(0.7));

        // ---- phase A: exhaustive, event-time structures (dynamic job queue; no randomness) ----
        let jobs = if phases.contains('a') { event_time_jobs(&dp) } else { Vec::new() };
        let next = AtomicUsize::new(0);
        let all_complete = AtomicBool::new(true);
        {
            let (jobs, next, all_complete, dp, cli_a) = (&jobs, &next, &all_complete, &dp, &cli_a);
            shards(cli, nthreads, st, |_shard, _rng, st| {
                let mut sh = Shard::new(DISTINCT_CAP / 2 / nthreads);
                loop {
                    let j = next.fetch_add(1, Ordering::SeqCst);
                    if j >= jobs.len() {
                        break;
                    }
                    if cli_a.expired() || !run_job(&jobs[j], dp, &cli_a, st, &mut sh) {
                        all_complete.store(false, Ordering::SeqCst);
                        st.count("stopped_by_time_budget");
                        break;
                    }
                }
                sh.flush(st);
            });
        }
        if all_complete.load(Ordering::SeqCst) && phases.contains('a') {
            st.exhaustive.extend(exhaustive_texts(&dp));
        }
        let t_a = cli.start.elapsed().as_secs_f64();

        // ---- phase B: random, event-time structures ----
        let per = if phases.contains('b') { cli.n(100_000, 2_000_000) } else { 0 };
        shards(cli, nthreads, st, |_shard, rng, st| {
            let mut sh = Shard::new(DISTINCT_CAP / 2 / nthreads + st.distinct.len());
            for k in 0..per {
                if k % 256 == 0 && cli_b.expired() {
                    st.count("stopped_by_time_budget");
                    break;
                }
                let c = rand_event_time_case(rng, (k % 4) as usize);
                check_case(&c, 0, st, &mut sh);
            }
            sh.flush(st);
        });

        let t_b = cli.start.elapsed().as_secs_f64();
        // ---- phase C: clock-driven node, one single-threaded child process per shard ----
        if !phases.contains('c') {
            return;
        }
        if !clock::available() {
            st.inconclusive("clock shim not loaded (VERIF_CLOCK_SHIM unset or library missing): the StreamAlphaNode sub-check was not run");
            return;
        }
        let tier = cli.tier.name().to_string();
        let seed = cli.seed;
        let remaining = (cli.budget_s - cli.start.elapsed().as_secs_f64()).max(20.0);
        let results: Vec<Result<(Stats, bool), String>> = std::thread::scope(|s| {
            let hs: Vec<_> = (0..nthreads)
                .map(|i| {
                    let tier = tier.clone();
                    s.spawn(move || -> Result<(Stats, bool), String> {
                        let args = vec![
                            "node".to_string(),
                            tier,
                            (seed as i64).to_string(),
                            i.to_string(),
                            nthreads.to_string(),
                            format!("{}", remaining),
                        ];
                        let lim = child::Limits { cpu_s: 3600, as_bytes: Some(4 << 30), wall_s: 7200.0, stack_bytes: None };
                        let out = child::run_self(&args, b"", &lim).map_err(|e| format!("cannot spawn node shard {}: {}", i, e))?;
                        if !out.ok() {
                            return Err(format!("node shard {} did not finish: {}", i, out.describe()));
                        }
                        let text = String::from_utf8_lossy(&out.stdout);
                        let line = text.lines().rev().find(|l| l.starts_with('{')).ok_or_else(|| format!("node shard {} printed no result", i))?;
                        let j: Json = serde_json::from_str(line).map_err(|e| format!("node shard {}: bad result: {}", i, e))?;
                        stats_from_json(&j).ok_or_else(|| format!("node shard {}: malformed result", i))
                    })
                })
                .collect();
            hs.into_iter().map(|h| h.join().unwrap_or_else(|_| Err("node shard thread died".into()))).collect()
        });
        let mut node_complete = true;
        for r in results {
            match r {
                Ok((s, complete)) => {
                    node_complete &= complete;
                    st.merge(s);
                }
                Err(e) => {
                    node_complete = false;
                    st.inconclusive(e);
                }
            }
        }
        if node_complete {
            st.exhaustive.push(exhaustive_node_text(&dp));
        }
        let calls = st.get("node_process_event_calls");
        let reads = st.get("node_fake_clock_reads_inside_process_event");
        if calls == 0 {
            st.inconclusive("no StreamAlphaNode::process_event call was observed");
        } else if reads == 0 || st.get("node_calls_without_clock_read") > 0 {
            st.inconclusive(format!(
                "StreamAlphaNode did not consult the injected clock on every call ({} fake-clock reads inside {} process_event calls, {} calls without a read): its time cannot be controlled",
                reads,
                calls,
                st.get("node_calls_without_clock_read")
            ));
        }
        if cli.verbose {
            out!("  phases: exhaustive event-time until {:.1}s, random until {:.1}s, node children until {:.1}s", t_a, t_b, cli.start.elapsed().as_secs_f64());
        }
        st.notes.push(format!("fake-clock reads observed inside StreamAlphaNode::process_event: {} over {} calls", reads, calls));
    }

    fn replay(&self, cli: &Cli, case: &Json) -> Vec<Violation> {
        let Some(c) = Case::from_json(case) else {
            return vec![Violation {
                clause: "harness".into(),
                sig: format!("{}|harness|bad-case", ID),
                detail: "cannot decode case".into(),
                case: case.clone(),
            }];
        };
        if matches!(c, Case::Node { .. }) && !clock::available() {
            out!("INCONCLUSIVE property={} replay of an alpha_node case needs the clock shim (export VERIF_CLOCK_SHIM=/verif/shim/libverifclock.so)", ID);
            if cli.replay.is_some() {
                std::process::exit(3); // direct --replay: inconclusive, not "no violation"
            }
            return vec![];
        }
        let r = pan::catch_frames(|| run_case(&c, 0));
        clock::passthrough();
        match r {
            Ok(run) => run.viols.iter().map(|v| to_violation(&c, v)).collect(),
            Err(p) => vec![to_violation(
                &c,
                &V {
                    clause: "no-panic",
                    cause: format!("{}|{}", p.class(), p.frame),
                    detail: format!("panic: {} at {}:{}", p.msg, p.file, p.line),
                    step: 0,
                },
            )],
        }
    }

    fn worker(&self, cli: &Cli, args: &[String]) -> i32 {
        if args.len() < 6 || args[0] != "node" {
            return 2;
        }
        let mut c = cli.clone();
        c.tier = if args[1] == "thorough" { Tier::Thorough } else { Tier::Quick };
        c.seed = args[2].parse::<i64>().map(|v| v as u64).unwrap_or(1);
        let shard: usize = args[3].parse().unwrap_or(0);
        let nshards: usize = args[4].parse().unwrap_or(1).max(1);
        c.budget_s = args[5].parse().unwrap_or(c.budget_s);
        let mut st = Stats::new();
        let complete = match pan::catch_frames(|| node_shard(&c, shard, nshards, &mut st)) {
            Ok(b) => b,
            Err(p) => {
                st.inconclusive(format!("node shard {} panicked outside a monitored call: {} at {}:{}", shard, p.msg, p.file, p.line));
                false
            }
        };
        out!("{}", stats_to_json(&st, complete));
        0
    }
}

fn main() {
    clock::reexec_with_shim();
    run_main(C12)
}
