//! C20 — restoring a checkpoint reproduces the state at checkpoint time; crashes while
//! checkpointing never damage earlier checkpoints (StateStore, file backend).
//!
//! Part 1 (history monitor, src/c20_hist.rs): generated op histories run against the real
//! StateStore under a virtual wall clock (LD_PRELOAD shim) and on the real clock; after every op
//! every public view is compared with an independent reference model; after `restore(id)` the
//! store must equal the snapshot the model recorded for the checkpoint call that returned `id`.
//! The fake clock is process-wide, so histories run single-threaded inside `--worker hist`
//! children, one per shard.
//!
//! Part 2 (fault enumeration, src/c20_crash.rs): a `--worker crash-child` builds a store, takes
//! earlier checkpoints and then the victim checkpoint between two marker syscalls; the parent
//! records the syscalls of that call with strace and re-runs the child once per syscall with
//! SIGKILL on entry, once per syscall and errno with an injected I/O error, and cuts / zero-fills
//! the victim's state file at every byte offset.

use rre_verif::*;
use std::collections::HashMap;
use std::path::{Path, PathBuf};

#[path = "../c20_hist.rs"]
mod hist;
#[path = "../c20_crash.rs"]
mod crash;

use crash::*;
use hist::*;

// ------------------------------------------------------------------------------------------
// scratch space
// ------------------------------------------------------------------------------------------

/// Scratch space of the fault part: a disk file system ($TMPDIR, else /var/tmp).
fn scratch_base() -> PathBuf {
    match std::env::var("TMPDIR") {
        Ok(t) if !t.is_empty() && Path::new(&t).is_dir() => PathBuf::from(t),
        _ => PathBuf::from("/var/tmp"),
    }
}

/// Scratch space of the history part: $TMPDIR if set, else tmpfs (/dev/shm) when writable, else
/// /var/tmp. The histories contain no crash, so the kind of file system is immaterial to them,
/// and on ext4 a checkpoint that re-creates an existing state.json (same-millisecond ids) costs
/// a synchronous flush (auto_da_alloc) — milliseconds per history.
fn history_scratch_base() -> PathBuf {
    if let Ok(t) = std::env::var("TMPDIR") {
        if !t.is_empty() && Path::new(&t).is_dir() {
            return PathBuf::from(t);
        }
    }
    let shm = Path::new("/dev/shm");
    if shm.is_dir() {
        let probe = shm.join(format!(".verif-c20-probe-{}", std::process::id()));
        if std::fs::create_dir(&probe).is_ok() {
            let _ = std::fs::remove_dir(&probe);
            return shm.to_path_buf();
        }
    }
    PathBuf::from("/var/tmp")
}

struct Scratch(PathBuf);

impl Scratch {
    fn new(tag: &str) -> std::io::Result<Scratch> {
        Self::new_in(&scratch_base(), tag)
    }
    fn new_in(base: &Path, tag: &str) -> std::io::Result<Scratch> {
        let nanos = std::time::Instant::now().elapsed().subsec_nanos();
        let mono = {
            let mut ts = libc::timespec { tv_sec: 0, tv_nsec: 0 };
            unsafe { libc::clock_gettime(libc::CLOCK_MONOTONIC, &mut ts) };
            ts.tv_nsec as u64 ^ ((ts.tv_sec as u64) << 20)
        };
        let p = base.join(format!("verif-c20-{}-{}-{:x}", tag, std::process::id(), mono ^ nanos as u64));
        std::fs::create_dir_all(&p)?;
        Ok(Scratch(p))
    }
}

impl Drop for Scratch {
    fn drop(&mut self) {
        let _ = std::fs::remove_dir_all(&self.0);
    }
}

// ------------------------------------------------------------------------------------------
// checking one history (explore side)
// ------------------------------------------------------------------------------------------

struct HistCtx {
    dir: PathBuf,
    /// how many failures of one pre-shrink signature were shrunk and recorded by this worker
    shrunk: HashMap<String, u32>,
}

const SHRINK_PER_SIG: u32 = 12;

fn check_hist(h: &Hist, ctx: &mut HistCtx, st: &mut Stats) {
    let (f, obs) = run_history_caught(h, &ctx.dir);
    for (k, v) in &obs.counts {
        st.add(k, *v);
    }
    if obs.no_clock {
        st.inconclusive("clock shim not loaded (VERIF_CLOCK_SHIM / LD_PRELOAD): virtual-clock histories were not run");
        return;
    }
    st.eval();
    if let Some(e) = &obs.harness_error {
        st.inconclusive(format!("harness: {}", e));
        return;
    }
    if obs.skipped_undefined {
        st.count("skipped_undefined");
    }
    if obs.nontrivial {
        st.nontrivial(hash_of(&h.to_json().to_string()));
        st.sample(|| h.to_json());
    }
    st.count(if h.real { "histories_on_real_clock" } else { "histories_on_virtual_clock" });
    if let Some(f) = f {
        let pre = format!("{}|{}", f.clause, f.cause);
        let n = ctx.shrunk.entry(pre.clone()).or_insert(0);
        *n += 1;
        if *n > SHRINK_PER_SIG {
            st.count(&format!("further_failures_not_shrunk::{}", pre));
            return;
        }
        let small = shrink_hist(h, &f.clause, &ctx.dir);
        match run_history_caught(&small, &ctx.dir) {
            (Some(f2), _) if f2.clause == f.clause => st.violation(to_violation(small.to_json(), &f2)),
            _ => st.violation(to_violation(h.to_json(), &f)),
        }
    }
}

// ------------------------------------------------------------------------------------------
// `--worker hist`: one shard of the history exploration, single-threaded (process-wide clock)
// ------------------------------------------------------------------------------------------

fn stats_to_json(st: &Stats) -> Json {
    json!({
        "evaluations": st.evaluations,
        "distinct": st.distinct.iter().collect::<Vec<_>>(),
        "distinct_saturated": st.distinct_saturated,
        "counters": st.counters,
        "samples": st.samples,
        "violations": st.violations.iter().map(|v| json!({"clause": v.clause, "sig": v.sig, "detail": v.detail, "case": v.case})).collect::<Vec<_>>(),
        "inconclusive": st.inconclusive,
        "exhaustive": st.exhaustive,
        "notes": st.notes,
    })
}

fn stats_from_json(j: &Json) -> Option<Stats> {
    let mut st = Stats::new();
    st.evaluations = j["evaluations"].as_u64()?;
    for h in j["distinct"].as_array()? {
        st.distinct.insert(h.as_u64()?);
    }
    st.distinct_saturated = j["distinct_saturated"].as_bool().unwrap_or(false);
    for (k, v) in j["counters"].as_object()? {
        st.counters.insert(k.clone(), v.as_u64()?);
    }
    st.samples = j["samples"].as_array()?.clone();
    for v in j["violations"].as_array()? {
        st.violations.push(Violation {
            clause: v["clause"].as_str()?.to_string(),
            sig: v["sig"].as_str()?.to_string(),
            detail: v["detail"].as_str()?.to_string(),
            case: v["case"].clone(),
        });
    }
    for s in j["inconclusive"].as_array()? {
        st.inconclusive.push(s.as_str()?.to_string());
    }
    for s in j["exhaustive"].as_array()? {
        st.exhaustive.push(s.as_str()?.to_string());
    }
    for s in j["notes"].as_array()? {
        st.notes.push(s.as_str()?.to_string());
    }
    Some(st)
}

struct HistPlan {
    exh_len: usize,
    random: u64,
    bursts: u64,
    real: u64,
    budget_s: f64,
}

fn hist_worker(cli: &Cli, args: &[String]) -> i32 {
    // args: shard nshards exh_len random bursts real budget_s scratch
    if args.len() < 8 {
        return 2;
    }
    let shard: usize = args[0].parse().unwrap_or(0);
    let nshards: usize = args[1].parse().unwrap_or(1);
    let plan = HistPlan {
        exh_len: args[2].parse().unwrap_or(3),
        random: args[3].parse().unwrap_or(0),
        bursts: args[4].parse().unwrap_or(0),
        real: args[5].parse().unwrap_or(0),
        budget_s: args[6].parse().unwrap_or(100.0),
    };
    let scratch = PathBuf::from(&args[7]);
    let _ = std::fs::create_dir_all(&scratch);
    let mut ctx = HistCtx { dir: scratch.join("h"), shrunk: HashMap::new() };
    let mut st = Stats::new();
    let t0 = std::time::Instant::now();
    let expired = |st: &mut Stats| {
        if t0.elapsed().as_secs_f64() > plan.budget_s {
            st.counters.entry("stopped_by_time_budget".into()).or_insert(1);
            true
        } else {
            false
        }
    };
    let mut rng = Rng::derive(cli.seed, 2000 + shard as u64);

    // (a) exhaustive
    let mut n_exh = 0u64;
    let mut complete = true;
    let virt_ok = clock::available();
    if !virt_ok {
        st.inconclusive("clock shim not loaded (VERIF_CLOCK_SHIM / LD_PRELOAD): virtual-clock histories were not run");
        complete = false;
    }
    enumerate_exhaustive(if virt_ok { plan.exh_len } else { 0 }, shard, nshards, &mut |ops, ncp| {
        let configs: Vec<(usize, bool)> = if ncp >= 2 {
            vec![(1, false), (2, false), (3, false), (1, true), (2, true), (3, true)]
        } else {
            vec![(3, false)]
        };
        for (max, distinct) in configs {
            let h = Hist {
                real: false,
                keys: plain_keys(),
                max_checkpoints: max,
                default_ttl: None,
                distinct_ms: distinct,
                repeat: 1,
                ops: ops.to_vec(),
            };
            check_hist(&h, &mut ctx, &mut st);
            n_exh += 1;
        }
        if n_exh % 4096 < 6 && expired(&mut st) {
            complete = false;
            return false;
        }
        true
    });
    st.add("exhaustive_histories", n_exh);
    if !complete {
        st.count("exhaustive_enumeration_cut_by_time_budget");
    }

    // (b) random, virtual clock
    for _ in 0..plan.random {
        if !virt_ok || expired(&mut st) {
            break;
        }
        let h = gen_random(&mut rng);
        check_hist(&h, &mut ctx, &mut st);
        st.count("random_histories");
    }
    // (c) checkpoint bursts (virtual: same millisecond by construction in half of them)
    for i in 0..plan.bursts {
        if !virt_ok || expired(&mut st) {
            break;
        }
        let h = gen_burst(&mut rng, i % 2 == 0);
        check_hist(&h, &mut ctx, &mut st);
        st.count("burst_histories");
    }
    // (d) the real clock: twins of random histories and bursts
    for i in 0..plan.real {
        if expired(&mut st) {
            break;
        }
        let base = if i % 2 == 0 { gen_burst(&mut rng, i % 4 == 0) } else { gen_random(&mut rng) };
        let h = to_real(&base, 1);
        check_hist(&h, &mut ctx, &mut st);
    }
    clock::passthrough();
    let _ = std::fs::remove_dir_all(&scratch);
    out!("{}", stats_to_json(&st).to_string());
    0
}

// ------------------------------------------------------------------------------------------
// the check
// ------------------------------------------------------------------------------------------

struct C20;

fn bad_case(case: &Json, why: &str) -> Vec<Violation> {
    vec![Violation {
        clause: "harness".into(),
        sig: "C20|harness|bad-case".into(),
        detail: why.to_string(),
        case: case.clone(),
    }]
}

impl C20 {
    fn explore_histories(&self, cli: &Cli, st: &mut Stats, scratch: &Path) {
        let n = cli.threads.max(1);
        let exh_len: usize = std::env::var("VERIF_C20_EXH_LEN").ok().and_then(|s| s.parse().ok()).unwrap_or(cli.tier.pick(5usize, 6usize));
        // per history worker (one per thread)
        let random = cli.n(15_000, 300_000);
        let bursts = cli.n(1_000, 10_000);
        let real = cli.n(300, 3_000);
        let budget = (cli.budget_s - cli.start.elapsed().as_secs_f64()).max(10.0) * 0.8;
        let results: Vec<Result<child::ChildOutcome, String>> = std::thread::scope(|s| {
            let hs: Vec<_> = (0..n)
                .map(|i| {
                    let dir = scratch.join(format!("w{}", i));
                    s.spawn(move || {
                        let args: Vec<String> = vec![
                            "hist".into(),
                            i.to_string(),
                            n.to_string(),
                            exh_len.to_string(),
                            random.to_string(),
                            bursts.to_string(),
                            real.to_string(),
                            format!("{}", budget),
                            dir.display().to_string(),
                        ];
                        child::run_self(
                            &args,
                            b"",
                            &child::Limits {
                                cpu_s: cli.tier.pick(600, 6000),
                                as_bytes: Some(4 << 30),
                                wall_s: cli.tier.pick(900.0, 7200.0),
                                stack_bytes: None,
                            },
                        )
                        .map_err(|e| e.to_string())
                    })
                })
                .collect();
            hs.into_iter().map(|h| h.join().unwrap_or_else(|_| Err("thread died".into()))).collect()
        });
        let mut all_complete = true;
        for (i, r) in results.into_iter().enumerate() {
            match r {
                Ok(o) if o.ok() => {
                    let text = String::from_utf8_lossy(&o.stdout);
                    let parsed = text
                        .lines()
                        .rev()
                        .find(|l| l.starts_with('{'))
                        .and_then(|l| serde_json::from_str::<Json>(l).ok())
                        .and_then(|j| stats_from_json(&j));
                    match parsed {
                        Some(s) => {
                            if s.get("exhaustive_enumeration_cut_by_time_budget") > 0 {
                                all_complete = false;
                            }
                            st.max("max::history_worker_cpu_s", o.cpu_s as u64);
                            st.merge(s);
                        }
                        None => {
                            all_complete = false;
                            st.inconclusive(format!("history worker {} produced no readable report", i));
                        }
                    }
                }
                Ok(o) => {
                    all_complete = false;
                    st.inconclusive(format!("history worker {} died: {}", i, o.describe()));
                }
                Err(e) => {
                    all_complete = false;
                    st.inconclusive(format!("history worker {} could not be started: {}", i, e));
                }
            }
        }
        if all_complete && clock::available() {
            st.exhaustive.push(format!(
                "all op sequences of length {} over the 22-letter alphabet {{put(a|b|c,1), put(a,2), put_with_ttl(a|b|c,3,ttl=3ms), update(a|b|c,4), delete(a|b|c), checkpoint, restore(call 0|1|2), advance(1|2|3|4 ms), cleanup_expired}} that contain a checkpoint and whose restores refer to earlier checkpoint calls, virtual clock; sequences with >= 2 checkpoints under max_checkpoints 1,2,3 x {{same-millisecond checkpoints allowed, checkpoints forced into distinct milliseconds}}; monitored after every op, so every shorter history is covered as a prefix",
                exh_len
            ));
        }
    }

    fn explore_crashes(&self, cli: &Cli, st: &mut Stats, scratch: &Path) {
        if let Err(e) = strace_usable(scratch) {
            st.inconclusive(format!("strace unavailable ({}): syscall-granular crash points and I/O-error injection were not exercised", e));
        }
        let strace_ok = st.inconclusive.iter().all(|s| !s.starts_with("strace unavailable"));
        let thorough = cli.tier == Tier::Thorough;
        let mut scens = fixed_scenarios(thorough);
        let mut rng = Rng::derive(cli.seed, 77);
        for i in 0..cli.n(4, 14) {
            scens.push(random_scenario(&mut rng, i as usize));
        }
        if !strace_ok {
            // without strace nothing below can even build the directories under test
            return;
        }
        // phase A: fault-free traced runs
        let nthreads = cli.threads.max(1);
        let preps: Vec<Prep> = {
            let scens = &scens;
            let next = std::sync::atomic::AtomicUsize::new(0);
            let slots: Vec<std::sync::Mutex<Option<Prep>>> = scens.iter().map(|_| std::sync::Mutex::new(None)).collect();
            std::thread::scope(|s| {
                for _ in 0..nthreads.min(scens.len()) {
                    s.spawn(|| loop {
                        let i = next.fetch_add(1, std::sync::atomic::Ordering::SeqCst);
                        if i >= scens.len() {
                            break;
                        }
                        let p = prepare(&scens[i], scratch, i);
                        *slots[i].lock().unwrap() = Some(p);
                    });
                }
            });
            slots.into_iter().map(|m| m.into_inner().unwrap().unwrap_or(Prep::Inconclusive("scenario not prepared".into()))).collect()
        };
        let mut fams: Vec<Family> = Vec::new();
        for p in preps {
            st.count("crash_families_prepared");
            match p {
                Prep::Ready(f) => fams.push(*f),
                Prep::Violation(v) => {
                    st.eval();
                    st.count("crash_families_not_enumerated_because_the_fault_free_run_already_violates");
                    st.violation(v);
                }
                Prep::Inconclusive(w) => st.inconclusive(w),
            }
        }
        // phase B: every strace fault of every family, spread over the threads
        let jobs: Vec<(usize, Fault)> = fams
            .iter()
            .enumerate()
            .flat_map(|(i, f)| strace_faults(f).into_iter().map(move |x| (i, x)))
            .collect();
        let fams_ref = &fams;
        let jobs_ref = &jobs;
        shards(cli, nthreads, st, |shard, _rng, st| {
            for (ji, (fi, fault)) in jobs_ref.iter().enumerate() {
                if ji % nthreads != shard {
                    continue;
                }
                let f = &fams_ref[*fi];
                st.eval();
                match run_strace_fault(f, fault, scratch) {
                    Outcome::Held => {}
                    Outcome::HeldChildDied => {
                        if let Fault::Errno { syscall, .. } | Fault::ErrnoSurvive { syscall, .. } = fault {
                            st.count(&format!("child_process_died_on_injected_io_error::{}", syscall));
                        }
                    }
                    Outcome::Violation(fl) => st.violation(to_violation(crash_case_json(&f.scen, fault), &fl)),
                    Outcome::Inconclusive(w) => {
                        st.inconclusive(w);
                        continue;
                    }
                }
                match fault {
                    Fault::Kill { syscall, .. } => {
                        st.count(&format!("crash_points_sigkill_before::{}", syscall));
                        st.count("crash_points_sigkill_total");
                        st.nontrivial(hash_of(&crash_case_json(&f.scen, fault).to_string()));
                    }
                    Fault::Errno { syscall, errno, .. } => {
                        st.count(&format!("io_errors_injected::{}::{}", errno, syscall));
                        st.count("io_errors_injected_total");
                    }
                    Fault::ErrnoSurvive { .. } => {
                        st.count("io_errors_injected_with_the_process_carrying_on_(follow-up_checkpoints_and_restores)");
                    }
                    _ => {}
                }
            }
        });
        // phase C: file-level faults, one family per thread
        shards(cli, nthreads, st, |shard, _rng, st| {
            for (fi, f) in fams_ref.iter().enumerate() {
                if fi % nthreads != shard {
                    continue;
                }
                let mut fails: Vec<(Fault, hist::Failure)> = Vec::new();
                let rep = run_file_faults(f, &mut |fa, fl| fails.push((fa, fl)));
                for (fa, fl) in fails {
                    st.violation(to_violation(crash_case_json(&f.scen, &fa), &fl));
                }
                match rep {
                    Ok(r) => {
                        st.evaluations += r.truncations + r.zero_fills + r.dir_states;
                        st.add("truncation_offsets_exercised", r.truncations);
                        st.add("zero_filled_tails_exercised", r.zero_fills);
                        st.add("synthesised_directory_states", r.dir_states);
                        st.add("cut_state_file_restore_returned_err", r.victim_restored_err);
                        st.add("cut_state_file_restore_returned_complete_state", r.victim_restored_complete);
                        let kinds: Vec<String> = f.window.iter().map(|(k, _, _)| k.clone()).collect();
                        st.notes.push(format!(
                            "crash family {:?}: checkpoint call issued [{}]; {} SIGKILL points, {} errno injections; state file {} bytes, cut at {} offsets ({})",
                            f.scen.name,
                            kinds.join(" "),
                            f.window.len(),
                            f.window.len() * ERRNOS.len(),
                            f.victim_file_len,
                            r.truncations,
                            if r.all_offsets { "every offset 0..len-1" } else { "first/last 2 KiB, every 97th byte, every line boundary ±1" }
                        ));
                        if r.all_offsets {
                            st.exhaustive.push(format!(
                                "crash family {:?}: every syscall of the checkpoint call killed on entry ({} points), every byte-prefix of the {}-byte state file",
                                f.scen.name,
                                f.window.len(),
                                f.victim_file_len
                            ));
                        }
                    }
                    Err(e) => st.inconclusive(format!("file faults of {:?}: {}", f.scen.name, e)),
                }
            }
        });
        for f in &fams {
            st.sample(|| json!({"kind": "crash-family", "name": f.scen.name, "window_syscalls": f.window.iter().map(|(k, _, _)| k.clone()).collect::<Vec<_>>(), "scenario": f.scen.hist.to_json()}));
            let _ = std::fs::remove_dir_all(&f.done.root);
        }
        if st.get("crash_points_sigkill_total") == 0 && fams_ref.is_empty() && st.violations.is_empty() {
            st.inconclusive("no crash point was exercised");
        }
    }

    fn replay_crash(&self, case: &Json) -> Vec<Violation> {
        let Some(h) = Hist::from_json(&case["scenario"]) else { return bad_case(case, "cannot decode crash scenario") };
        let Some(fault) = Fault::from_json(&case["fault"]) else { return bad_case(case, "cannot decode fault") };
        let scen = Scenario { name: case["name"].as_str().unwrap_or("replayed scenario").to_string(), hist: h };
        let scratch = match Scratch::new("replay") {
            Ok(s) => s,
            Err(e) => return bad_case(case, &format!("cannot create scratch directory: {}", e)),
        };
        if let Err(e) = strace_usable(&scratch.0) {
            out!("INCONCLUSIVE property=C20 strace unavailable ({}): crash case cannot be replayed", e);
            return vec![];
        }
        let fam = match prepare(&scen, &scratch.0, 0) {
            Prep::Ready(f) => *f,
            Prep::Violation(v) => return vec![v],
            Prep::Inconclusive(w) => {
                out!("INCONCLUSIVE property=C20 {}", w);
                return vec![];
            }
        };
        let r = match &fault {
            Fault::None => None,
            Fault::Kill { .. } | Fault::Errno { .. } | Fault::ErrnoSurvive { .. } => match run_strace_fault(&fam, &fault, &scratch.0) {
                Outcome::Held | Outcome::HeldChildDied => None,
                Outcome::Violation(f) => Some(f),
                Outcome::Inconclusive(w) => {
                    out!("INCONCLUSIVE property=C20 {}", w);
                    None
                }
            },
            _ => match replay_file_fault(&fam, &fault) {
                Ok(f) => f,
                Err(e) => {
                    out!("INCONCLUSIVE property=C20 {}", e);
                    None
                }
            },
        };
        r.map(|f| vec![to_violation(crash_case_json(&scen, &fault), &f)]).unwrap_or_default()
    }
}

impl Check for C20 {
    fn id(&self) -> &'static str {
        "C20"
    }
    fn level(&self) -> &'static str {
        "fault_enumeration"
    }
    fn rule(&self) -> String {
        "HISTORIES: (i) exhaustive over a 22-letter op alphabet (see exhaustive_subspaces) at length 5 (quick) / 6 (thorough); (ii) seeded random histories of 1..=10 ops over 3 keys (put / put_with_ttl / update / delete / checkpoint / restore(any earlier call) / cleanup_expired / advance by 0,1,ttl-1,ttl,ttl+1 ms), max_checkpoints 1..=3, values from a domain with nested objects, arrays, -0.0, extreme doubles and integers, control and non-ASCII strings; minority features: same-millisecond checkpoints allowed (1/4), doubles with random bit patterns (1/8), NaN/inf (1/16), store-wide default TTL (1/8), hostile key names (1/4); (iii) checkpoint bursts (2-4 back-to-back checkpoints, every one restored), half of them inside one frozen millisecond; (iv) real-clock twins of (ii) and (iii). Every public view (get x3, keys, len, contains, is_empty) is compared with the reference model after EVERY op. A history is non-trivial when a restore returned Ok and had to undo changes made after its checkpoint (the live state differed from the snapshot); distinct by the whole case. FAULTS: per crash family (scenario = earlier checkpoints, later writes, victim checkpoint) one traced fault-free run, then one run per syscall of the victim call with SIGKILL on entry, one run per syscall x {ENOSPC, EIO}, one more run per syscall in which the process carries on after the injected error (max_checkpoints further put+checkpoint rounds on the same store, after each of which every checkpoint retention still owes is restored), the victim's state file cut and zero-filled at every byte offset, two synthesised directory states; each SIGKILL point is a distinct non-trivial case. After each fault a fresh store must restore every earlier checkpoint exactly (or, if retention may retire it, only after the new one is complete) and the victim completely or not at all.".into()
    }
    fn assumptions(&self) -> Vec<String> {
        vec![
            "a key with TTL t put at instant c is unexpired before c+t and expired after c+t; exactly at c+t either reading is accepted (first observation is then held)".into(),
            "whether update restarts a TTL, and whether a restored key that had a TTL expires later, is not stated: both readings accepted".into(),
            "with max_checkpoints = m the newest m checkpoints of a store must be restorable; restoring an older one may fail but must never return Ok with a different state".into(),
            "update of an absent/expired key returning Ok (upsert) is undefined: such histories are skipped and counted".into(),
            "crash = process death between two syscalls (SIGKILL on syscall entry); torn writes inside one write(2) and lost page-cache contents are approximated by byte-prefix truncation and zero-filled tails of the state file".into(),
            "after a crash the id of the interrupted checkpoint is taken from the fault-free run (frozen clock) and every other entry under the backend path is also tried".into(),
        ]
    }
    fn explore(&self, cli: &Cli, st: &mut Stats) {
        let scratch = match Scratch::new("run") {
            Ok(s) => s,
            Err(e) => {
                st.inconclusive(format!("cannot create a scratch directory under {}: {}", scratch_base().display(), e));
                return;
            }
        };
        if !clock::available() {
            st.inconclusive("clock shim not loaded (set VERIF_CLOCK_SHIM=/verif/shim/libverifclock.so): virtual-clock histories and frozen-clock crash families were not run");
        }
        let t = std::time::Instant::now();
        match Scratch::new_in(&history_scratch_base(), "hist") {
            Ok(hs) => self.explore_histories(cli, st, &hs.0),
            Err(e) => st.inconclusive(format!("cannot create a scratch directory under {}: {}", history_scratch_base().display(), e)),
        }
        st.max("max::wall_s_history_part", t.elapsed().as_secs() );
        st.samples.truncate(3); // keep room for crash-family samples
        let t = std::time::Instant::now();
        self.explore_crashes(cli, st, &scratch.0);
        st.max("max::wall_s_fault_part", t.elapsed().as_secs());
        drop(scratch);
    }
    fn replay(&self, cli: &Cli, case: &Json) -> Vec<Violation> {
        match case["kind"].as_str() {
            Some("crash") => self.replay_crash(case),
            _ => {
                let Some(h) = Hist::from_json(case) else { return bad_case(case, "cannot decode history") };
                let scratch = match Scratch::new_in(&history_scratch_base(), "replay") {
                    Ok(s) => s,
                    Err(e) => return bad_case(case, &format!("cannot create scratch directory: {}", e)),
                };
                if cli.replay.is_some() && std::env::var("VERIF_C20_IGNORE_ID_COLLISION").map(|v| v == "1").unwrap_or(false) {
                    IGNORE_ID_COLLISIONS.store(true, std::sync::atomic::Ordering::SeqCst);
                }
                let (f, obs) = run_history_caught(&h, &scratch.0.join("h"));
                if obs.no_clock {
                    out!("INCONCLUSIVE property=C20 clock shim not loaded: virtual-clock case cannot be replayed");
                }
                if cli.verbose && cli.replay.is_some() {
                    for (k, v) in &obs.counts {
                        out!("  observed {} = {}", k, v);
                    }
                }
                f.map(|f| vec![to_violation(h.to_json(), &f)]).unwrap_or_default()
            }
        }
    }
    fn worker(&self, cli: &Cli, args: &[String]) -> i32 {
        match args.first().map(|s| s.as_str()) {
            Some("hist") => hist_worker(cli, &args[1..]),
            Some("crash-child") => crash_child(&args[1..]),
            _ => 2,
        }
    }
}

fn main() {
    clock::reexec_with_shim();
    run_main(C20)
}
