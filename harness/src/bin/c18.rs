//! C18 — module imports stay acyclic; visibility matches the declarations.
//!
//! Step monitor over `ModuleManager`: after every operation a full public snapshot is taken
//! (`list_modules`, every module's rules / templates / exports / import declarations,
//! `get_import_graph`, `get_focus`, and `is_rule_visible` / `get_visible_rules` /
//! `is_template_visible` for every (existing module, known name) pair) and checked against
//!   (i)   the import declarations among existing modules (and `import_graph`) are acyclic,
//!   (ii)  an import that returned `Err` left the snapshot unchanged,
//!   (iii) every visibility query on an existing module answered `Ok`,
//!   (iv)  the visibility answers lie between a strict and a liberal reading of the statement,
//!         computed by a reference model that only sees the operations and their `Ok`/`Err`
//!         results (the two readings coincide unless re-exports or declarations that outlived
//!         their source module are involved), and the two rule-visibility queries agree.

use rre_verif::*;
use rust_rule_engine::engine::module::{
    ExportItem, ExportList, ImportType, ItemType, ModuleManager, ReExport,
};
use std::collections::{BTreeMap, BTreeSet, HashMap};

const NAMES: [&str; 3] = ["a-x", "a-y", "b-x"];

// ---------------------------------------------------------------------------------------------
// operations
// ---------------------------------------------------------------------------------------------

#[derive(Clone, Copy, Debug, PartialEq, Eq, Hash)]
enum Ty {
    AllRules,
    AllTemplates,
    Rules,
    Templates,
    All,
}
const TYPES: [Ty; 5] = [Ty::AllRules, Ty::AllTemplates, Ty::Rules, Ty::Templates, Ty::All];

impl Ty {
    fn name(self) -> &'static str {
        match self {
            Ty::AllRules => "AllRules",
            Ty::AllTemplates => "AllTemplates",
            Ty::Rules => "Rules",
            Ty::Templates => "Templates",
            Ty::All => "All",
        }
    }
    fn parse(s: &str) -> Option<Ty> {
        TYPES.iter().copied().find(|t| t.name() == s)
    }
    fn real(self) -> ImportType {
        match self {
            Ty::AllRules => ImportType::AllRules,
            Ty::AllTemplates => ImportType::AllTemplates,
            Ty::Rules => ImportType::Rules,
            Ty::Templates => ImportType::Templates,
            Ty::All => ImportType::All,
        }
    }
    /// "Import all rules" / "Import specific rules" / "Import everything" carry rules; the two
    /// template types do not (from the type's documentation).
    fn carries_rules(self) -> bool {
        matches!(self, Ty::AllRules | Ty::Rules | Ty::All)
    }
}

#[derive(Clone, Copy, Debug, PartialEq, Eq, Hash)]
enum Item {
    Rule,
    Template,
    Fact,
    All,
}
const ITEMS: [Item; 4] = [Item::Rule, Item::Template, Item::Fact, Item::All];
impl Item {
    fn name(self) -> &'static str {
        match self {
            Item::Rule => "Rule",
            Item::Template => "Template",
            Item::Fact => "Fact",
            Item::All => "All",
        }
    }
    fn parse(s: &str) -> Option<Item> {
        ITEMS.iter().copied().find(|t| t.name() == s)
    }
    fn real(self) -> ItemType {
        match self {
            Item::Rule => ItemType::Rule,
            Item::Template => ItemType::Template,
            Item::Fact => ItemType::Fact,
            Item::All => ItemType::All,
        }
    }
}

#[derive(Clone, Debug, PartialEq, Eq, Hash)]
enum Exp {
    All,
    None,
    Spec(Vec<(Item, String)>),
}

impl Exp {
    fn real(&self) -> ExportList {
        match self {
            Exp::All => ExportList::All,
            Exp::None => ExportList::None,
            Exp::Spec(items) => ExportList::Specific(
                items
                    .iter()
                    .map(|(t, p)| ExportItem { item_type: t.real(), pattern: p.clone() })
                    .collect(),
            ),
        }
    }
    fn to_json(&self) -> Json {
        match self {
            Exp::All => json!("all"),
            Exp::None => json!("none"),
            Exp::Spec(items) => Json::Array(
                items.iter().map(|(t, p)| json!({"item": t.name(), "pattern": p})).collect(),
            ),
        }
    }
    fn from_json(j: &Json) -> Option<Exp> {
        match j {
            Json::String(s) if s == "all" => Some(Exp::All),
            Json::String(s) if s == "none" => Some(Exp::None),
            Json::Array(a) => {
                let mut v = Vec::new();
                for it in a {
                    v.push((Item::parse(it["item"].as_str()?)?, it["pattern"].as_str()?.to_string()));
                }
                Some(Exp::Spec(v))
            }
            _ => None,
        }
    }
}

#[derive(Clone, Debug, PartialEq, Eq, Hash)]
struct ReX {
    patterns: Vec<String>,
    transitive: bool,
}

#[derive(Clone, Debug, PartialEq, Eq, Hash)]
enum Op {
    Create(String),
    Delete(String),
    Exports(String, Exp),
    AddRule(String, String),
    AddTemplate(String, String),
    Import { to: String, from: String, ty: Ty, pat: String, re: Option<ReX> },
}

impl Op {
    fn to_json(&self) -> Json {
        match self {
            Op::Create(m) => json!({"op": "create", "module": m}),
            Op::Delete(m) => json!({"op": "delete", "module": m}),
            Op::Exports(m, e) => json!({"op": "exports", "module": m, "spec": e.to_json()}),
            Op::AddRule(m, r) => json!({"op": "add_rule", "module": m, "rule": r}),
            Op::AddTemplate(m, r) => json!({"op": "add_template", "module": m, "template": r}),
            Op::Import { to, from, ty, pat, re } => {
                let mut j = json!({"op": "import", "to": to, "from": from, "type": ty.name(), "pattern": pat});
                if let Some(re) = re {
                    j["re_export"] = json!({"patterns": re.patterns, "transitive": re.transitive});
                }
                j
            }
        }
    }
    fn from_json(j: &Json) -> Option<Op> {
        let s = |k: &str| j[k].as_str().map(|x| x.to_string());
        Some(match j["op"].as_str()? {
            "create" => Op::Create(s("module")?),
            "delete" => Op::Delete(s("module")?),
            "exports" => Op::Exports(s("module")?, Exp::from_json(&j["spec"])?),
            "add_rule" => Op::AddRule(s("module")?, s("rule")?),
            "add_template" => Op::AddTemplate(s("module")?, s("template")?),
            "import" => {
                let re = match j.get("re_export") {
                    Some(r) if !r.is_null() => Some(ReX {
                        patterns: r["patterns"]
                            .as_array()?
                            .iter()
                            .filter_map(|p| p.as_str().map(|x| x.to_string()))
                            .collect(),
                        transitive: r["transitive"].as_bool().unwrap_or(false),
                    }),
                    _ => None,
                };
                Op::Import {
                    to: s("to")?,
                    from: s("from")?,
                    ty: Ty::parse(j["type"].as_str()?)?,
                    pat: s("pattern")?,
                    re,
                }
            }
            _ => return None,
        })
    }
    fn short(&self) -> String {
        match self {
            Op::Create(m) => format!("create {}", m),
            Op::Delete(m) => format!("delete {}", m),
            Op::Exports(m, e) => format!("exports {} {}", m, e.to_json()),
            Op::AddRule(m, r) => format!("add_rule {} {}", m, r),
            Op::AddTemplate(m, r) => format!("add_template {} {}", m, r),
            Op::Import { to, from, ty, pat, re } => match re {
                None => format!("{} imports {} from {} pattern {:?}", to, ty.name(), from, pat),
                Some(r) => format!(
                    "{} imports {} from {} pattern {:?} re-export {:?} transitive={}",
                    to,
                    ty.name(),
                    from,
                    pat,
                    r.patterns,
                    r.transitive
                ),
            },
        }
    }
    fn patterns(&self) -> Vec<&str> {
        match self {
            Op::Exports(_, Exp::Spec(items)) => items.iter().map(|(_, p)| p.as_str()).collect(),
            Op::Import { pat, re, .. } => {
                let mut v = vec![pat.as_str()];
                if let Some(r) = re {
                    v.extend(r.patterns.iter().map(|p| p.as_str()));
                }
                v
            }
            _ => vec![],
        }
    }
}

fn ops_to_json(ops: &[Op]) -> Json {
    json!({ "ops": ops.iter().map(|o| o.to_json()).collect::<Vec<_>>() })
}
fn ops_from_json(j: &Json) -> Option<Vec<Op>> {
    j["ops"].as_array()?.iter().map(Op::from_json).collect()
}

/// Name universe of a case: the three pool names plus every rule/template name it mentions.
fn names_of(ops: &[Op]) -> Vec<String> {
    let mut s: BTreeSet<String> = NAMES.iter().map(|n| n.to_string()).collect();
    for o in ops {
        match o {
            Op::AddRule(_, r) | Op::AddTemplate(_, r) => {
                s.insert(r.clone());
            }
            _ => {}
        }
    }
    s.into_iter().collect()
}

// ---------------------------------------------------------------------------------------------
// reference model (sees only the operations and whether each returned Ok or Err)
// ---------------------------------------------------------------------------------------------

/// Documented pattern forms: "*", "prefix*", "*suffix", an exact name. Anything else (a star in
/// the middle, several stars, CLIPS-style "?…" variables) is left open by the documentation.
fn pat_match(p: &str, name: &str) -> Option<bool> {
    if p == "?ALL" {
        return Some(true);
    }
    if p.contains('?') {
        return None;
    }
    match p.matches('*').count() {
        0 => Some(p == name),
        1 if p == "*" => Some(true),
        1 if p.ends_with('*') => Some(name.starts_with(&p[..p.len() - 1])),
        1 if p.starts_with('*') => Some(name.ends_with(&p[1..])),
        _ => None,
    }
}
fn pm(p: &str, name: &str) -> bool {
    pat_match(p, name).unwrap_or(false)
}

#[derive(Clone, Debug)]
struct MDecl {
    src: String,
    ty: Ty,
    pat: String,
    re: Option<ReX>,
    /// incarnation of the source module at the time of the declaration
    src_inc: u32,
}

#[derive(Clone, Debug)]
struct MMod {
    rules: BTreeSet<String>,
    templates: BTreeSet<String>,
    exports: Exp,
    decls: Vec<MDecl>,
    inc: u32,
}

#[derive(Clone, Debug)]
struct Model {
    mods: BTreeMap<String, MMod>,
    next_inc: u32,
    /// a pattern of an undocumented form was used: clause (iv) is skipped for the case
    undefined: bool,
    /// an operation succeeded on a module the model does not know (cannot follow any more)
    lost: Option<String>,
}

fn fresh_module(name: &str, inc: u32) -> MMod {
    MMod {
        rules: BTreeSet::new(),
        templates: BTreeSet::new(),
        // "Export everything (default for MAIN module)" / "Export nothing (default for user modules)"
        exports: if name == "MAIN" { Exp::All } else { Exp::None },
        decls: Vec::new(),
        inc,
    }
}

fn admits_rule(e: &Exp, r: &str) -> bool {
    match e {
        Exp::All => true,
        Exp::None => false,
        Exp::Spec(items) => items
            .iter()
            .any(|(t, p)| matches!(t, Item::Rule | Item::All) && pm(p, r)),
    }
}

impl Model {
    fn new() -> Model {
        let mut mods = BTreeMap::new();
        mods.insert("MAIN".to_string(), fresh_module("MAIN", 0));
        Model { mods, next_inc: 1, undefined: false, lost: None }
    }
    fn exists(&self, m: &str) -> bool {
        self.mods.contains_key(m)
    }
    /// the declaration outlived the module incarnation it was made against
    fn stale(&self, d: &MDecl) -> bool {
        self.mods.get(&d.src).map(|s| s.inc) != Some(d.src_inc)
    }
    fn apply(&mut self, op: &Op, ok: bool) {
        if op.patterns().iter().any(|p| pat_match(p, "x").is_none()) {
            self.undefined = true;
        }
        if !ok {
            return;
        }
        match op {
            Op::Create(m) => {
                let inc = self.next_inc;
                self.next_inc += 1;
                self.mods.insert(m.clone(), fresh_module(m, inc));
            }
            Op::Delete(m) => {
                if self.mods.remove(m).is_none() {
                    self.lost = Some(format!("delete of unknown module {} returned Ok", m));
                }
            }
            Op::Exports(m, e) => match self.mods.get_mut(m) {
                Some(mm) => mm.exports = e.clone(),
                None => self.lost = Some(format!("set exports on unknown module {} returned Ok", m)),
            },
            Op::AddRule(m, r) => match self.mods.get_mut(m) {
                Some(mm) => {
                    mm.rules.insert(r.clone());
                }
                None => self.lost = Some(format!("add rule to unknown module {} succeeded", m)),
            },
            Op::AddTemplate(m, r) => match self.mods.get_mut(m) {
                Some(mm) => {
                    mm.templates.insert(r.clone());
                }
                None => self.lost = Some(format!("add template to unknown module {} succeeded", m)),
            },
            Op::Import { to, from, ty, pat, re } => {
                let src_inc = match self.mods.get(from) {
                    Some(s) => s.inc,
                    None => {
                        self.lost = Some(format!("import from unknown module {} returned Ok", from));
                        return;
                    }
                };
                match self.mods.get_mut(to) {
                    Some(mm) => mm.decls.push(MDecl {
                        src: from.clone(),
                        ty: *ty,
                        pat: pat.clone(),
                        re: re.clone(),
                        src_inc,
                    }),
                    None => self.lost = Some(format!("import into unknown module {} returned Ok", to)),
                }
            }
        }
    }
}

/// Visibility of every (existing module, name) pair under the two readings of the statement.
struct Bounds {
    mods: Vec<String>,
    /// strict reading: declarations whose source was deleted since are void; a module re-exports
    /// r only through a rule-carrying declaration whose own pattern and one of whose re-export
    /// patterns match r, from a source that exports r (only what the source owns when
    /// `transitive` is false)
    lower: Vec<Vec<bool>>,
    /// liberal reading: a surviving declaration applies to the re-created source; a module
    /// re-exports r when any of its re-export patterns matches r and r is visible to it at all
    upper: Vec<Vec<bool>>,
    /// owned, or imported directly from a module that owns and exports it (no re-export needed)
    plain: Vec<Vec<bool>>,
    owned: Vec<Vec<bool>>,
}

fn compute_bounds(model: &Model, names: &[String]) -> Bounds {
    let mods: Vec<String> = model.mods.keys().cloned().collect();
    let n = mods.len();
    let k = names.len();
    let idx = |s: &str| mods.iter().position(|m| m == s);
    let mm = |i: usize| &model.mods[&mods[i]];
    let mut owned = vec![vec![false; k]; n];
    let mut own = vec![vec![false; k]; n];
    for i in 0..n {
        for j in 0..k {
            owned[i][j] = mm(i).rules.contains(&names[j]);
            own[i][j] = owned[i][j] && admits_rule(&mm(i).exports, &names[j]);
        }
    }
    // strict: least fixpoint of "exports"
    let mut exp_l = own.clone();
    loop {
        let mut changed = false;
        for i in 0..n {
            for d in &mm(i).decls {
                if model.stale(d) || !d.ty.carries_rules() {
                    continue;
                }
                let (Some(t), Some(re)) = (idx(&d.src), d.re.as_ref()) else { continue };
                for j in 0..k {
                    let r = &names[j];
                    if exp_l[i][j] || !pm(&d.pat, r) || !re.patterns.iter().any(|p| pm(p, r)) {
                        continue;
                    }
                    if if re.transitive { exp_l[t][j] } else { own[t][j] } {
                        exp_l[i][j] = true;
                        changed = true;
                    }
                }
            }
        }
        if !changed {
            break;
        }
    }
    let mut lower = owned.clone();
    let mut plain = owned.clone();
    for i in 0..n {
        for d in &mm(i).decls {
            if !d.ty.carries_rules() {
                continue;
            }
            let Some(t) = idx(&d.src) else { continue };
            for j in 0..k {
                if !pm(&d.pat, &names[j]) {
                    continue;
                }
                if !model.stale(d) && exp_l[t][j] {
                    lower[i][j] = true;
                }
                if own[t][j] {
                    plain[i][j] = true;
                }
            }
        }
    }
    // liberal: least fixpoint of "visible" and "exports" together
    let mut exp_u = own.clone();
    let mut vis_u = owned.clone();
    loop {
        let mut changed = false;
        for i in 0..n {
            for j in 0..k {
                let r = &names[j];
                if !vis_u[i][j]
                    && mm(i).decls.iter().any(|d| {
                        d.ty.carries_rules()
                            && pm(&d.pat, r)
                            && idx(&d.src).map_or(false, |t| exp_u[t][j])
                    })
                {
                    vis_u[i][j] = true;
                    changed = true;
                }
                if !exp_u[i][j]
                    && vis_u[i][j]
                    && mm(i).decls.iter().any(|d| {
                        d.re.as_ref().map_or(false, |re| re.patterns.iter().any(|p| pm(p, r)))
                    })
                {
                    exp_u[i][j] = true;
                    changed = true;
                }
            }
        }
        if !changed {
            break;
        }
    }
    Bounds { mods, lower, upper: vis_u, plain, owned }
}

// ---------------------------------------------------------------------------------------------
// observation of the real ModuleManager
// ---------------------------------------------------------------------------------------------

#[derive(Clone, Debug, PartialEq)]
struct ObsDecl {
    from: String,
    ty: String,
    pat: String,
    re: Option<(Vec<String>, bool)>,
}

#[derive(Clone, Debug, PartialEq)]
struct ModSnap {
    name: String,
    gettable: bool,
    rules: Vec<String>,
    templates: Vec<String>,
    exports: String,
    imports: Vec<ObsDecl>,
    /// per name of the universe; Err carries the message (never asserted, only shown)
    rule_vis: Vec<Result<bool, String>>,
    tmpl_vis: Vec<Result<bool, String>>,
    visible: Result<Vec<String>, String>,
    /// get_transitive_dependencies(name), sorted
    trans: Result<Vec<String>, String>,
    /// validate_module(name) answered
    validate: Result<(), String>,
}

#[derive(Clone, Debug, PartialEq)]
struct Snap {
    /// list_modules(), sorted, duplicates kept
    listed: Vec<String>,
    mods: Vec<ModSnap>,
    graph: Vec<(String, Vec<String>)>,
    focus: String,
}

fn take_snapshot(mgr: &ModuleManager, names: &[String]) -> Snap {
    let mut listed = mgr.list_modules();
    listed.sort();
    let mut distinct = listed.clone();
    distinct.dedup();
    let mut mods = Vec::with_capacity(distinct.len());
    for name in &distinct {
        let mut ms = ModSnap {
            name: name.clone(),
            gettable: false,
            rules: vec![],
            templates: vec![],
            exports: String::new(),
            imports: vec![],
            rule_vis: Vec::with_capacity(names.len()),
            tmpl_vis: Vec::with_capacity(names.len()),
            visible: Ok(vec![]),
            trans: Ok(vec![]),
            validate: Ok(()),
        };
        if let Ok(m) = mgr.get_module(name) {
            ms.gettable = true;
            ms.rules = m.get_rules().iter().cloned().collect();
            ms.rules.sort();
            ms.templates = m.get_templates().iter().cloned().collect();
            ms.templates.sort();
            ms.exports = format!("{:?}", m.get_exports());
            ms.imports = m
                .get_imports()
                .iter()
                .map(|d| ObsDecl {
                    from: d.from_module.clone(),
                    ty: format!("{:?}", d.import_type),
                    pat: d.pattern.clone(),
                    re: d.re_export.as_ref().map(|r| (r.patterns.clone(), r.transitive)),
                })
                .collect();
        }
        for r in names {
            ms.rule_vis.push(mgr.is_rule_visible(r, name).map_err(|e| e.to_string()));
            ms.tmpl_vis.push(mgr.is_template_visible(r, name).map_err(|e| e.to_string()));
        }
        ms.visible = mgr
            .get_visible_rules(name)
            .map(|mut v| {
                v.sort();
                v
            })
            .map_err(|e| e.to_string());
        ms.trans = mgr
            .get_transitive_dependencies(name)
            .map(|mut v| {
                v.sort();
                v
            })
            .map_err(|e| e.to_string());
        ms.validate = mgr.validate_module(name).map(|_| ()).map_err(|e| e.to_string());
        mods.push(ms);
    }
    let mut graph: Vec<(String, Vec<String>)> = mgr
        .get_import_graph()
        .iter()
        .map(|(k, v)| {
            let mut t: Vec<String> = v.iter().cloned().collect();
            t.sort();
            (k.clone(), t)
        })
        .collect();
    graph.sort();
    Snap { listed, mods, graph, focus: mgr.get_focus().to_string() }
}

fn apply_real(mgr: &mut ModuleManager, op: &Op) -> Result<(), String> {
    match op {
        Op::Create(m) => mgr.create_module(m.as_str()).map(|_| ()).map_err(|e| e.to_string()),
        Op::Delete(m) => mgr.delete_module(m).map_err(|e| e.to_string()),
        Op::Exports(m, e) => mgr.export_all_from(m, e.real()).map_err(|e| e.to_string()),
        Op::AddRule(m, r) => mgr
            .get_module_mut(m)
            .map(|mm| mm.add_rule(r.as_str()))
            .map_err(|e| e.to_string()),
        Op::AddTemplate(m, r) => mgr
            .get_module_mut(m)
            .map(|mm| mm.add_template(r.as_str()))
            .map_err(|e| e.to_string()),
        Op::Import { to, from, ty, pat, re } => match re {
            None => mgr.import_from(to, from, ty.real(), pat.as_str()).map_err(|e| e.to_string()),
            Some(r) => mgr
                .import_from_with_reexport(
                    to,
                    from,
                    ty.real(),
                    pat.as_str(),
                    Some(ReExport { patterns: r.patterns.clone(), transitive: r.transitive }),
                )
                .map_err(|e| e.to_string()),
        },
    }
}

/// A cycle v0 -> v1 -> … -> v0 in the graph on 0..n, as the list v0..vk (edges consecutive, last
/// back to first), or None.
fn find_cycle(n: usize, edges: &BTreeSet<(usize, usize)>) -> Option<Vec<usize>> {
    fn go(
        v: usize,
        edges: &BTreeSet<(usize, usize)>,
        color: &mut Vec<u8>,
        stack: &mut Vec<usize>,
    ) -> Option<Vec<usize>> {
        color[v] = 1;
        stack.push(v);
        for &(a, b) in edges.range((v, 0)..=(v, usize::MAX)) {
            debug_assert_eq!(a, v);
            if color[b] == 1 {
                let pos = stack.iter().position(|&x| x == b).unwrap();
                return Some(stack[pos..].to_vec());
            }
            if color[b] == 0 {
                if let Some(c) = go(b, edges, color, stack) {
                    return Some(c);
                }
            }
        }
        stack.pop();
        color[v] = 2;
        None
    }
    let mut color = vec![0u8; n];
    for s in 0..n {
        if color[s] == 0 {
            let mut stack = Vec::new();
            if let Some(c) = go(s, edges, &mut color, &mut stack) {
                return Some(c);
            }
        }
    }
    None
}

fn reachable(n: usize, edges: &BTreeSet<(usize, usize)>, from: usize, to: usize) -> bool {
    let mut seen = vec![false; n];
    let mut todo = vec![from];
    seen[from] = true;
    while let Some(v) = todo.pop() {
        for &(_, b) in edges.range((v, 0)..=(v, usize::MAX)) {
            if b == to {
                return true;
            }
            if !seen[b] {
                seen[b] = true;
                todo.push(b);
            }
        }
    }
    false
}

/// Edges of the observed import declarations / of the observed import_graph among the modules
/// that exist in the snapshot (indices into snap.mods).
fn observed_edges(snap: &Snap) -> (BTreeSet<(usize, usize)>, BTreeSet<(usize, usize)>) {
    let idx = |s: &str| snap.mods.iter().position(|m| m.name == s);
    let mut decl = BTreeSet::new();
    for (i, m) in snap.mods.iter().enumerate() {
        for d in &m.imports {
            if let Some(t) = idx(&d.from) {
                decl.insert((i, t));
            }
        }
    }
    let mut graph = BTreeSet::new();
    for (a, bs) in &snap.graph {
        if let Some(i) = idx(a) {
            for b in bs {
                if let Some(t) = idx(b) {
                    graph.insert((i, t));
                }
            }
        }
    }
    (decl, graph)
}

// ---------------------------------------------------------------------------------------------
// the step monitor
// ---------------------------------------------------------------------------------------------

#[derive(Clone, Debug)]
struct Viol {
    clause: &'static str,
    cause: String,
    detail: String,
    #[allow(dead_code)]
    step: usize,
}
impl Viol {
    fn sig(&self) -> String {
        format!("C18|{}|{}", self.clause, self.cause)
    }
}

/// Monitor observation counters (flushed into Stats once per shard).
#[derive(Default, Clone)]
struct Tally {
    c: BTreeMap<&'static str, u64>,
}
impl Tally {
    fn add(&mut self, k: &'static str, n: u64) {
        *self.c.entry(k).or_insert(0) += n;
    }
    fn inc(&mut self, k: &'static str) {
        self.add(k, 1);
    }
    fn flush(&self, st: &mut Stats) {
        for (k, v) in &self.c {
            st.add(k, *v);
        }
    }
}

/// What one sequence showed so far (for the non-triviality rule).
#[derive(Clone, Default)]
struct CaseObs {
    imports_ok: u32,
    refused_cycle: u32,
    cross_visible: u32,
}
impl CaseObs {
    fn nontrivial(&self) -> bool {
        self.imports_ok > 0 && (self.refused_cycle > 0 || self.cross_visible > 0)
    }
}

#[derive(Clone)]
struct Runner {
    mgr: ModuleManager,
    model: Model,
    obs: CaseObs,
    steps: usize,
}

fn diff_snap(a: &Snap, b: &Snap) -> String {
    if a.listed != b.listed {
        return format!("list_modules {:?} -> {:?}", a.listed, b.listed);
    }
    if a.graph != b.graph {
        return format!("import_graph {:?} -> {:?}", a.graph, b.graph);
    }
    if a.focus != b.focus {
        return format!("focus {:?} -> {:?}", a.focus, b.focus);
    }
    for (x, y) in a.mods.iter().zip(b.mods.iter()) {
        if x != y {
            if x.imports != y.imports {
                return format!("imports of {}: {:?} -> {:?}", x.name, x.imports, y.imports);
            }
            return format!("module {}: {:?} -> {:?}", x.name, x, y);
        }
    }
    "snapshots differ".into()
}

impl Runner {
    fn new() -> Runner {
        Runner { mgr: ModuleManager::new(), model: Model::new(), obs: CaseObs::default(), steps: 0 }
    }

    /// Apply one operation to the real manager and to the model, take the snapshot and check
    /// every clause. `prev` is the snapshot before the operation.
    fn step(&mut self, op: &Op, names: &[String], prev: &Snap, t: &mut Tally) -> (Snap, Vec<Viol>, bool) {
        let step = self.steps;
        self.steps += 1;
        let mut out: Vec<Viol> = Vec::new();
        let mut push = |clause: &'static str, cause: String, detail: String| {
            if !out.iter().any(|v: &Viol| v.clause == clause && v.cause == cause) {
                out.push(Viol { clause, cause, detail, step });
            }
        };

        // --- what the operation means in the pre-state (for counters and cause predicates)
        let (pre_decl, _) = observed_edges(prev);
        let pre_idx = |s: &str| prev.mods.iter().position(|m| m.name == s);
        let mut import_kind = ""; // self | missing | cyclic | acyclic
        if let Op::Import { to, from, .. } = op {
            import_kind = if to == from {
                "self"
            } else {
                match (pre_idx(to), pre_idx(from)) {
                    (Some(a), Some(b)) => {
                        if reachable(prev.mods.len(), &pre_decl, b, a) {
                            "cyclic"
                        } else {
                            "acyclic"
                        }
                    }
                    _ => "missing",
                }
            };
            // would the cycle run through a declaration that outlived its source?
            if import_kind == "cyclic" {
                let live: BTreeSet<(usize, usize)> = {
                    let mods: Vec<&String> = self.model.mods.keys().collect();
                    let ix = |s: &str| mods.iter().position(|m| m.as_str() == s);
                    let mut e = BTreeSet::new();
                    for (i, m) in mods.iter().enumerate() {
                        for d in &self.model.mods[*m].decls {
                            if !self.model.stale(d) {
                                if let Some(tt) = ix(&d.src) {
                                    e.insert((i, tt));
                                }
                            }
                        }
                    }
                    e
                };
                let mods: Vec<&String> = self.model.mods.keys().collect();
                let ix = |s: &str| mods.iter().position(|m| m.as_str() == s);
                if let (Some(a), Some(b)) = (ix(to), ix(from)) {
                    if !reachable(mods.len(), &live, b, a) {
                        t.inc("import_attempts_closing_a_cycle_through_a_recreated_module");
                    }
                }
            }
        }
        match op {
            Op::Delete(m) if self.model.exists(m) => {
                if self.model.mods.iter().any(|(k, mm)| k != m && mm.decls.iter().any(|d| &d.src == m)) {
                    t.inc("deletes_of_a_module_that_others_import");
                }
            }
            Op::Create(m) if !self.model.exists(m) => {
                if self.model.mods.values().any(|mm| mm.decls.iter().any(|d| &d.src == m)) {
                    t.inc("recreations_of_a_module_that_others_still_declare");
                }
            }
            _ => {}
        }

        // --- apply
        let res = apply_real(&mut self.mgr, op);
        let ok = res.is_ok();
        self.model.apply(op, ok);
        let snap = take_snapshot(&self.mgr, names);
        t.inc("snapshots_checked");
        if let Op::Import { .. } = op {
            match (ok, import_kind) {
                (true, _) => {
                    self.obs.imports_ok += 1;
                    t.inc("imports_accepted");
                }
                (false, "self") => {
                    self.obs.refused_cycle += 1;
                    t.inc("imports_refused_self_import");
                }
                (false, "cyclic") => {
                    self.obs.refused_cycle += 1;
                    t.inc("imports_refused_would_close_cycle");
                }
                (false, "missing") => t.inc("imports_refused_missing_module"),
                (false, _) => t.inc("imports_refused_although_acyclic"),
            }
        }

        // --- module set (basis of "existing modules")
        let model_mods: Vec<String> = self.model.mods.keys().cloned().collect();
        if let Some(why) = &self.model.lost {
            push("module-set", "op-result-inconsistent-with-module-existence".into(), why.clone());
            return (snap, out, ok);
        }
        if snap.listed != model_mods || snap.mods.iter().any(|m| !m.gettable) {
            push(
                "module-set",
                "list_modules-disagrees-with-op-results".into(),
                format!(
                    "after step {} ({}): list_modules = {:?} but the Ok/Err results of create/delete so far leave {:?}",
                    step,
                    op.short(),
                    snap.listed,
                    model_mods
                ),
            );
            return (snap, out, ok);
        }

        // --- (i) acyclic
        let n = snap.mods.len();
        let (decl, graph) = observed_edges(&snap);
        let name = |i: usize| snap.mods[i].name.as_str();
        let show = |c: &[usize]| {
            let mut s: Vec<&str> = c.iter().map(|&i| name(i)).collect();
            s.push(name(c[0]));
            s.join(" -> ")
        };
        // an edge y -> x is "stale" when every declaration of y naming x was made against an
        // earlier incarnation of x (x was deleted and re-created since); cycles among the other
        // ("live") edges are looked for first so that a stale cycle never hides a live one
        let stale_edge = |y: usize, x: usize| {
            let ds: Vec<&MDecl> = self.model.mods[name(y)].decls.iter().filter(|d| d.src == name(x)).collect();
            !ds.is_empty() && ds.iter().all(|d| self.model.stale(d))
        };
        let live: BTreeSet<(usize, usize)> = decl.iter().copied().filter(|&(y, x)| !stale_edge(y, x)).collect();
        let found = match find_cycle(n, &live) {
            Some(c) => Some((c, false)),
            None => find_cycle(n, &decl).map(|c| (c, true)),
        };
        if let Some((c, via_stale)) = found {
            let cause = if via_stale {
                "through-recreated-module"
            } else if c.len() == 1 {
                "self-import"
            } else if (0..c.len()).any(|w| !graph.contains(&(c[w], c[(w + 1) % c.len()]))) {
                "import_graph-missing-declared-edge"
            } else {
                "unexplained"
            };
            push(
                "cycle-accepted",
                cause.into(),
                format!(
                    "after step {} ({} -> {}): the import declarations of the existing modules form the cycle {}; declarations {:?}; import_graph {:?}",
                    step,
                    op.short(),
                    if ok { "Ok" } else { "Err" },
                    show(&c),
                    snap.mods.iter().map(|m| (m.name.as_str(), m.imports.iter().map(|d| d.from.as_str()).collect::<Vec<_>>())).collect::<Vec<_>>(),
                    snap.graph
                ),
            );
        } else if let Some(c) = find_cycle(n, &graph) {
            push(
                "cycle-accepted",
                "import_graph-only-cycle".into(),
                format!("after step {} ({}): get_import_graph has the cycle {} among existing modules: {:?}", step, op.short(), show(&c), snap.graph),
            );
        }

        // --- (ii) refused import changes nothing
        if let (Op::Import { .. }, false) = (op, ok) {
            t.inc("refused_imports_compared_with_previous_snapshot");
            if &snap != prev {
                let cause = match import_kind {
                    "self" => "self-import",
                    "cyclic" => "cyclic-import",
                    "missing" => "missing-module",
                    _ => "other-refusal",
                };
                push(
                    "refused-import-changed-state",
                    cause.into(),
                    format!("step {} ({}) returned Err({}) but the public snapshot changed: {}", step, op.short(), res.clone().unwrap_err(), diff_snap(prev, &snap)),
                );
            }
        }

        // --- (iii) every visibility query on an existing module answers
        let mut dangling_state = false;
        for m in &snap.mods {
            let dangling: Vec<&str> = m
                .imports
                .iter()
                .filter(|d| !snap.mods.iter().any(|x| x.name == d.from))
                .map(|d| d.from.as_str())
                .collect();
            if !dangling.is_empty() {
                dangling_state = true;
            }
            let mut errs: Vec<String> = Vec::new();
            for (j, r) in m.rule_vis.iter().enumerate() {
                t.inc("visibility_queries");
                if let Err(e) = r {
                    errs.push(format!("is_rule_visible({:?}, {:?}) = Err({})", names[j], m.name, e));
                }
            }
            for (j, r) in m.tmpl_vis.iter().enumerate() {
                t.inc("visibility_queries");
                if let Err(e) = r {
                    errs.push(format!("is_template_visible({:?}, {:?}) = Err({})", names[j], m.name, e));
                }
            }
            t.inc("visibility_queries");
            if let Err(e) = &m.visible {
                errs.push(format!("get_visible_rules({:?}) = Err({})", m.name, e));
            }
            t.add("visibility_queries", 2);
            if let Err(e) = &m.trans {
                errs.push(format!("get_transitive_dependencies({:?}) = Err({})", m.name, e));
            }
            if let Err(e) = &m.validate {
                errs.push(format!("validate_module({:?}) = Err({})", m.name, e));
            }
            if !errs.is_empty() {
                t.add("visibility_queries_that_returned_err", errs.len() as u64);
                let cause = if dangling.is_empty() { "unexplained" } else { "dangling-import-of-deleted-module" };
                push(
                    "visibility-query-errs",
                    cause.into(),
                    format!(
                        "after step {} ({}): module {} exists but {}{}",
                        step,
                        op.short(),
                        m.name,
                        errs[0],
                        if dangling.is_empty() { String::new() } else { format!(" (it still declares an import from {:?}, which does not exist)", dangling) }
                    ),
                );
            }
        }
        if dangling_state {
            t.inc("states_with_a_dangling_declaration");
        }
        // the transitive-dependency view: exactly the modules reachable over the import
        // declarations of existing modules, and never the module itself (acyclicity as the API shows it)
        if !dangling_state {
            let (decl_edges, _) = observed_edges(&snap);
            for (i, m) in snap.mods.iter().enumerate() {
                let Ok(got) = &m.trans else { continue };
                let mut want: Vec<String> = (0..snap.mods.len()).filter(|j| *j != i && reachable(snap.mods.len(), &decl_edges, i, *j)).map(|j| snap.mods[j].name.clone()).collect();
                want.sort();
                t.inc("transitive_dependency_views_compared");
                if got.contains(&m.name) {
                    push("cycle-accepted", "module-among-its-own-transitive-dependencies".into(), format!("after step {} ({}): get_transitive_dependencies({:?}) = {:?} contains the module itself", step, op.short(), m.name, got));
                } else if *got != want {
                    push(
                        "transitive-dependencies-differ-from-declared-imports",
                        if got.len() < want.len() { "dependency-missing" } else { "extra-dependency" }.into(),
                        format!("after step {} ({}): get_transitive_dependencies({:?}) = {:?}; over the import declarations of the existing modules {:?} is reachable; import_graph {:?}", step, op.short(), m.name, got, want, snap.graph),
                    );
                }
            }
        }

        // --- (iv) visibility values
        if self.model.undefined {
            t.inc("skipped_undefined_pattern_form");
            return (snap, out, ok);
        }
        let b = compute_bounds(&self.model, names);
        debug_assert_eq!(b.mods, model_mods);
        for (i, m) in snap.mods.iter().enumerate() {
            if let Ok(list) = &m.visible {
                for r in list {
                    if !names.contains(r) {
                        push("visible-but-not-exported", "get_visible_rules:unknown-rule-name".into(), format!("get_visible_rules({:?}) lists {:?}, a name no operation introduced", m.name, r));
                    }
                }
            }
            for (j, r) in names.iter().enumerate() {
                let (lo, up) = (b.lower[i][j], b.upper[i][j]);
                if lo == up {
                    t.inc("pairs_with_one_reading");
                } else {
                    t.inc("pairs_reading_dependent");
                }
                if lo && !b.plain[i][j] {
                    t.inc("pairs_visible_only_via_re_export");
                }
                let v1 = m.rule_vis[j].as_ref().ok().copied();
                let v2 = m.visible.as_ref().ok().map(|l| l.contains(r));
                if v1 == Some(true) && !b.owned[i][j] {
                    self.obs.cross_visible += 1;
                    t.inc("rule_visible_via_import_answers");
                }
                // does a re-export pattern of a direct source explain a "visible" answer?
                let reexport_pattern_at_source = || {
                    self.model.mods[&m.name].decls.iter().any(|d| {
                        d.ty.carries_rules()
                            && pm(&d.pat, r)
                            && self.model.mods.get(&d.src).map_or(false, |s| {
                                s.decls.iter().any(|sd| sd.re.as_ref().map_or(false, |re| re.patterns.iter().any(|p| pm(p, r))))
                            })
                    })
                };
                let ctx = || {
                    format!(
                        "after step {} ({}): module {} rule {:?}: is_rule_visible = {:?}, listed by get_visible_rules = {:?}; reference: strict reading {}, liberal reading {}; declarations of {}: {:?}",
                        step, op.short(), m.name, r, v1, v2, lo, up, m.name, m.imports
                    )
                };
                // the same over the declarations that exist NOW (what the manager shows): a re-export
                // configuration that went away with its declaration explains nothing
                let reexport_pattern_at_source_now = || {
                    m.imports.iter().any(|d| {
                        matches!(d.ty.as_str(), "AllRules" | "Rules" | "All")
                            && pm(&d.pat, r)
                            && snap.mods.iter().find(|x| x.name == d.from).map_or(false, |src| {
                                src.imports.iter().any(|sd| sd.re.as_ref().map_or(false, |(pats, _)| pats.iter().any(|p| pm(p, r))))
                            })
                    })
                };
                let mut reported = false;
                for (f, v) in [("is_rule_visible", v1), ("get_visible_rules", v2)] {
                    if v == Some(true) && !up {
                        let cause = if reexport_pattern_at_source_now() {
                            "re-export-pattern-matches-rule-not-visible-to-re-exporter"
                        } else if reexport_pattern_at_source() {
                            "re-export-pattern-of-a-declaration-that-no-longer-exists"
                        } else {
                            "unexplained"
                        };
                        push("visible-but-not-exported", format!("{}:{}", f, cause), ctx());
                        reported = true;
                    }
                }
                let missing_cause = || {
                    if b.owned[i][j] {
                        "own-rule"
                    } else if b.plain[i][j] {
                        "direct-import"
                    } else {
                        "via-re-export"
                    }
                };
                if v1 == Some(false) && lo {
                    push("exported-but-not-visible", format!("is_rule_visible:{}", missing_cause()), ctx());
                    reported = true;
                }
                if v2 == Some(false) && lo && v1 != Some(true) {
                    push("exported-but-not-visible", format!("get_visible_rules:{}", missing_cause()), ctx());
                    reported = true;
                }
                if let (Some(a), Some(c), false) = (v1, v2, reported) {
                    if a != c {
                        // "plain" over the declarations the module really has now (a declaration
                        // that died with its source does not make the rule plainly visible)
                        let plain_now = b.owned[i][j]
                            || m.imports.iter().any(|d| {
                                matches!(d.ty.as_str(), "AllRules" | "Rules" | "All")
                                    && pm(&d.pat, r)
                                    && self.model.mods.get(&d.from).map_or(false, |src| src.rules.contains(r) && admits_rule(&src.exports, r))
                            });
                        let cause = if a && !c && (!b.plain[i][j] || !plain_now) {
                            "rule-reaches-module-only-via-re-export"
                        } else {
                            "unexplained"
                        };
                        push("queries-disagree", cause.into(), ctx());
                    }
                }
            }
        }
        (snap, out, ok)
    }
}

// ---------------------------------------------------------------------------------------------
// one case = one operation sequence from a fresh ModuleManager
// ---------------------------------------------------------------------------------------------

struct CaseResult {
    /// every distinct (clause, cause) at its first occurrence
    viols: Vec<Viol>,
    obs: CaseObs,
    trace: Vec<String>,
}

fn run_case(ops: &[Op], t: &mut Tally, want_trace: bool) -> CaseResult {
    let names = names_of(ops);
    let mut r = Runner::new();
    let mut snap = take_snapshot(&r.mgr, &names);
    let mut viols: Vec<Viol> = Vec::new();
    let mut trace = Vec::new();
    for op in ops {
        let (s2, vs, ok) = r.step(op, &names, &snap, t);
        if want_trace {
            trace.push(format!("step {}: {} -> {}", r.steps - 1, op.short(), if ok { "Ok" } else { "Err" }));
            for m in &s2.mods {
                trace.push(format!(
                    "    {}: rules {:?} exports {} imports {:?} | is_rule_visible {:?} | get_visible_rules {:?} | is_template_visible {:?}",
                    m.name,
                    m.rules,
                    m.exports,
                    m.imports.iter().map(|d| format!("{}:{}:{}{}", d.from, d.ty, d.pat, d.re.as_ref().map_or(String::new(), |r| format!(":re{:?}", r.0)))).collect::<Vec<_>>(),
                    m.rule_vis.iter().map(|v| v.as_ref().map(|b| *b).map_err(|_| "Err")).collect::<Vec<_>>(),
                    m.visible.as_ref().map_err(|_| "Err"),
                    m.tmpl_vis.iter().map(|v| v.as_ref().map(|b| *b).map_err(|_| "Err")).collect::<Vec<_>>(),
                ));
            }
            trace.push(format!("    import_graph {:?}", s2.graph));
        }
        for v in vs {
            if !viols.iter().any(|x| x.clause == v.clause && x.cause == v.cause) {
                if want_trace {
                    trace.push(format!("    !! {} | {} : {}", v.clause, v.cause, v.detail));
                }
                viols.push(v);
            }
        }
        snap = s2;
    }
    CaseResult { viols, obs: r.obs, trace }
}

fn to_violation(ops: &[Op], v: &Viol) -> Violation {
    Violation { clause: v.clause.to_string(), sig: v.sig(), detail: v.detail.clone(), case: ops_to_json(ops) }
}

fn panic_violation(ops: &[Op], p: &pan::PanicInfo) -> Violation {
    Violation {
        clause: "no-panic".into(),
        sig: format!("C18|no-panic|{}|{}", p.class(), p.frame),
        detail: format!("panic: {} at {}:{}", p.msg, p.file, p.line),
        case: ops_to_json(ops),
    }
}

fn still_fails(ops: &[Op], clause: &str, cause: &str) -> bool {
    let mut t = Tally::default();
    match pan::catch(|| run_case(ops, &mut t, false)) {
        Ok(r) => r.viols.iter().any(|v| v.clause == clause && v.cause == cause),
        Err(_) => false,
    }
}

/// Smaller variants of one operation (strip hostile features that are not needed).
fn simpler(op: &Op) -> Vec<Op> {
    let mut v = Vec::new();
    match op {
        Op::Import { to, from, ty, pat, re } => {
            let mk = |ty: Ty, pat: &str, re: Option<ReX>| Op::Import { to: to.clone(), from: from.clone(), ty, pat: pat.to_string(), re };
            if re.is_some() {
                v.push(mk(*ty, pat, None));
            }
            if let Some(r) = re {
                if r.patterns.len() > 1 {
                    for p in &r.patterns {
                        v.push(mk(*ty, pat, Some(ReX { patterns: vec![p.clone()], transitive: r.transitive })));
                    }
                }
                if !r.transitive {
                    v.push(mk(*ty, pat, Some(ReX { patterns: r.patterns.clone(), transitive: true })));
                }
            }
            if *ty != Ty::AllRules {
                v.push(mk(Ty::AllRules, pat, re.clone()));
            }
            if pat != "*" {
                v.push(mk(*ty, "*", re.clone()));
            }
        }
        Op::Exports(m, e) => {
            if *e != Exp::All {
                v.push(Op::Exports(m.clone(), Exp::All));
            }
            if let Exp::Spec(items) = e {
                if items.len() > 1 {
                    for it in items {
                        v.push(Op::Exports(m.clone(), Exp::Spec(vec![it.clone()])));
                    }
                }
            }
        }
        _ => {}
    }
    v
}

fn shrink_ops(ops: &[Op], clause: &str, cause: &str) -> Vec<Op> {
    let mut fails = |c: &[Op]| still_fails(c, clause, cause);
    let mut cur = shrink_list(ops, &mut fails);
    let mut progress = true;
    let mut budget = 200;
    while progress && budget > 0 {
        progress = false;
        for i in 0..cur.len() {
            for cand in simpler(&cur[i]) {
                budget -= 1;
                let mut c2 = cur.clone();
                c2[i] = cand;
                if still_fails(&c2, clause, cause) {
                    cur = c2;
                    progress = true;
                    break;
                }
            }
        }
    }
    shrink_list(&cur, &mut fails)
}

/// Per-shard bookkeeping of reported violations: each signature is shrunk and stored a few times,
/// further occurrences are only counted.
#[derive(Default)]
struct Reporter {
    per_sig: HashMap<String, u32>,
}
const SHRINKS_PER_SIG_PER_SHARD: u32 = 6;

impl Reporter {
    fn report(&mut self, ops: &[Op], v: &Viol, st: &mut Stats) {
        let sig = v.sig();
        let n = self.per_sig.entry(sig.clone()).or_insert(0);
        *n += 1;
        if *n > SHRINKS_PER_SIG_PER_SHARD {
            st.count(&format!("violations_by_sig::{}", sig));
            return;
        }
        let small = shrink_ops(ops, v.clause, &v.cause);
        let mut t = Tally::default();
        let vv = pan::catch(|| run_case(&small, &mut t, false))
            .ok()
            .and_then(|r| r.viols.into_iter().find(|x| x.clause == v.clause && x.cause == v.cause));
        match vv {
            Some(x) => st.violation(to_violation(&small, &x)),
            None => st.violation(to_violation(ops, v)),
        }
    }
    fn report_panic(&mut self, ops: &[Op], p: &pan::PanicInfo, st: &mut Stats) {
        let sig = format!("C18|no-panic|{}|{}", p.class(), p.frame);
        let n = self.per_sig.entry(sig.clone()).or_insert(0);
        *n += 1;
        if *n > SHRINKS_PER_SIG_PER_SHARD {
            st.count(&format!("violations_by_sig::{}", sig));
            return;
        }
        let mut fails = |c: &[Op]| {
            let mut t = Tally::default();
            matches!(pan::catch_frames(|| run_case(c, &mut t, false)), Err(q) if q.class() == p.class() && q.frame == p.frame)
        };
        let small = shrink_list(ops, &mut fails);
        st.violation(panic_violation(&small, p));
    }
}

/// Run one complete case (random part, replay): account, report, sample.
fn check_case(ops: &[Op], st: &mut Stats, t: &mut Tally, rep: &mut Reporter, distinct_cap: usize) {
    st.eval();
    match pan::catch_frames(|| run_case(ops, t, false)) {
        Ok(r) => {
            if r.obs.nontrivial() {
                // keep the per-shard hash sets small: beyond the cap the count is a lower bound
                if st.distinct.len() < distinct_cap {
                    st.nontrivial(hash_of(ops));
                } else {
                    st.distinct_saturated = true;
                    t.inc("nontrivial_sequences_beyond_the_distinct_counter_cap");
                }
                st.sample(|| ops_to_json(ops));
            }
            for v in &r.viols {
                rep.report(ops, v, st);
            }
        }
        Err(p) => rep.report_panic(ops, &p, st),
    }
}

// ---------------------------------------------------------------------------------------------
// workloads
// ---------------------------------------------------------------------------------------------

fn s(x: &str) -> String {
    x.to_string()
}
fn imp(to: &str, from: &str, ty: Ty, pat: &str) -> Op {
    Op::Import { to: s(to), from: s(from), ty, pat: s(pat), re: None }
}
fn imp_re(to: &str, from: &str, ty: Ty, pat: &str, re: &[&str], transitive: bool) -> Op {
    Op::Import {
        to: s(to),
        from: s(from),
        ty,
        pat: s(pat),
        re: Some(ReX { patterns: re.iter().map(|p| s(p)).collect(), transitive }),
    }
}

/// The reduced alphabet of the exhaustive part.
fn reduced_alphabet() -> Vec<Op> {
    let mut a = Vec::new();
    for m in ["A", "B", "C"] {
        a.push(Op::Create(s(m)));
    }
    for m in ["A", "B", "C"] {
        a.push(Op::Delete(s(m)));
    }
    a.push(Op::Exports(s("A"), Exp::All));
    a.push(Op::Exports(s("B"), Exp::All));
    a.push(Op::Exports(s("B"), Exp::None));
    a.push(Op::Exports(s("B"), Exp::Spec(vec![(Item::Rule, s("a-*"))])));
    a.push(Op::Exports(s("C"), Exp::All));
    a.push(Op::AddRule(s("A"), s("a-x")));
    a.push(Op::AddRule(s("B"), s("a-y")));
    a.push(Op::AddRule(s("B"), s("b-x")));
    a.push(Op::AddRule(s("C"), s("a-x")));
    a.push(Op::AddRule(s("MAIN"), s("b-x")));
    a.push(Op::AddTemplate(s("B"), s("a-x")));
    for to in ["A", "B", "C"] {
        for from in ["A", "B", "C"] {
            a.push(imp(to, from, Ty::AllRules, "*"));
        }
    }
    a.push(imp("A", "B", Ty::Rules, "a-*"));
    a.push(imp("A", "B", Ty::AllTemplates, "*"));
    a.push(imp("A", "B", Ty::All, "b-x"));
    a.push(imp("C", "B", Ty::AllRules, "*-x"));
    a.push(imp("A", "MAIN", Ty::AllRules, "*"));
    a.push(imp("MAIN", "C", Ty::All, "*"));
    a.push(imp_re("B", "C", Ty::AllRules, "*", &["*"], true));
    a.push(imp_re("A", "B", Ty::AllRules, "*", &["a-*"], false));
    a.push(imp_re("B", "MAIN", Ty::AllRules, "*", &["b-x"], true));
    a.push(imp_re("C", "A", Ty::AllTemplates, "*", &["*"], true));
    a
}

/// Fixed prefixes from which the exhaustive enumeration starts.
fn preambles() -> Vec<(&'static str, Vec<Op>)> {
    let populated = vec![
        Op::Create(s("A")),
        Op::Create(s("B")),
        Op::Create(s("C")),
        Op::AddRule(s("A"), s("a-x")),
        Op::AddRule(s("B"), s("a-y")),
        Op::AddRule(s("B"), s("b-x")),
        Op::AddRule(s("C"), s("b-x")),
        Op::Exports(s("A"), Exp::All),
        Op::Exports(s("B"), Exp::All),
        Op::Exports(s("C"), Exp::Spec(vec![(Item::Rule, s("b-*"))])),
    ];
    let mut chained = populated.clone();
    chained.push(imp("A", "B", Ty::AllRules, "*"));
    chained.push(imp("B", "C", Ty::AllRules, "*"));
    vec![("empty", vec![]), ("populated", populated), ("chained", chained)]
}

/// Further starting points of the random part only: a re-export in the middle of a chain, so that
/// deleting / re-creating the source of the re-export, or importing around it, happens within a
/// few random operations.
fn random_only_preambles() -> Vec<Vec<Op>> {
    let base = preambles()[1].1.clone();
    let mut re_chain = base.clone();
    re_chain.push(imp_re("B", "A", Ty::AllRules, "*", &["a-*"], true));
    re_chain.push(imp("C", "B", Ty::AllRules, "*"));
    let mut re_main = base.clone();
    re_main.push(imp_re("B", "A", Ty::Rules, "a-*", &["*"], false));
    re_main.push(imp_re("B", "C", Ty::AllRules, "*", &["b-*"], false));
    re_main.push(imp("MAIN", "B", Ty::AllRules, "*"));
    vec![re_chain, re_main]
}

/// (the empty pattern is an exact name that no rule has: it matches nothing; `?ALL` is the
/// documented alias of `*`)
const PATTERNS: [&str; 9] = ["*", "a-*", "*-x", "b-*", "a-x", "a-y", "b-x", "", "?ALL"];

fn pick_s(rng: &mut Rng, xs: &[&str]) -> String {
    xs[rng.below(xs.len())].to_string()
}

fn rand_module(rng: &mut Rng) -> String {
    // MAIN a little less often than the three user modules
    s(["MAIN", "A", "B", "C", "A", "B", "C"][rng.below(7)])
}

/// One operation of the full alphabet. `deletes` / `reexports` switch the hostile features on.
fn rand_op(rng: &mut Rng, deletes: bool, reexports: bool, pos: usize) -> Op {
    loop {
        // creations are more likely at the start of a sequence
        let w = rng.below(if pos < 2 { 24 } else { 18 });
        return match w {
            0..=1 => {
                if !deletes {
                    continue;
                }
                Op::Delete(rand_module(rng))
            }
            2..=3 => {
                let m = rand_module(rng);
                let e = match rng.below(5) {
                    0 => Exp::All,
                    1 => Exp::None,
                    _ => {
                        let n = 1 + rng.below(2);
                        Exp::Spec(
                            (0..n)
                                .map(|_| (*rng.pick(&[Item::Rule, Item::Rule, Item::All, Item::Template, Item::Fact]), pick_s(rng, &PATTERNS)))
                                .collect(),
                        )
                    }
                };
                Op::Exports(m, e)
            }
            4..=6 => Op::AddRule(rand_module(rng), pick_s(rng, &NAMES)),
            7 => Op::AddTemplate(rand_module(rng), pick_s(rng, &NAMES)),
            8..=14 => {
                let to = rand_module(rng);
                let from = rand_module(rng);
                let ty = *rng.pick(&TYPES);
                let pat = if rng.chance(1, 2) { s("*") } else { pick_s(rng, &PATTERNS) };
                let re = if reexports && rng.chance(1, 3) {
                    let n = 1 + rng.below(2);
                    Some(ReX { patterns: (0..n).map(|_| pick_s(rng, &PATTERNS)).collect(), transitive: rng.bool() })
                } else {
                    None
                };
                Op::Import { to, from, ty, pat, re }
            }
            _ => Op::Create(rand_module(rng)),
        };
    }
}

/// A WIDE import-heavy sequence: 6..=9 modules, 10..=30 imports among them (diamonds, long
/// chains, attempts to close cycles several imports below a shared module), a few rules and
/// export declarations.
fn gen_wide_ops(rng: &mut Rng) -> Vec<Op> {
    let k = 6 + rng.below(4);
    let mods: Vec<String> = (0..k).map(|i| if i == 0 && rng.bool() { s("MAIN") } else { format!("M{}", i) }).collect();
    let mut ops: Vec<Op> = Vec::new();
    let mut order: Vec<usize> = (0..k).collect();
    rng.shuffle(&mut order);
    for i in &order {
        if mods[*i] != "MAIN" {
            ops.push(Op::Create(mods[*i].clone()));
        }
    }
    for m in &mods {
        if rng.chance(1, 3) {
            ops.push(Op::AddRule(m.clone(), pick_s(rng, &NAMES)));
        }
        if rng.chance(1, 4) {
            ops.push(Op::Exports(m.clone(), if rng.bool() { Exp::All } else { Exp::None }));
        }
    }
    let n = 10 + rng.below(21);
    for _ in 0..n {
        let to = rng.below(k);
        // mostly "downwards" (towards higher numbers), so that long acyclic structures build up
        // before an upward import tries to close a cycle
        let from = if rng.chance(3, 4) { (to + 1 + rng.below(k - 1)).min(k - 1).max(to) } else { rng.below(k) };
        let from = if from == to { (to + 1) % k } else { from };
        ops.push(Op::Import { to: mods[to].clone(), from: mods[from].clone(), ty: *rng.pick(&TYPES), pat: if rng.chance(2, 3) { s("*") } else { pick_s(rng, &PATTERNS) }, re: None });
    }
    ops
}

struct Dfs<'a> {
    alphabet: &'a [Op],
    names: Vec<String>,
    prefix: Vec<Op>,
    path: Vec<usize>,
    seen: Vec<String>,
    nontrivial_cap: usize,
}

impl<'a> Dfs<'a> {
    fn ops(&self) -> Vec<Op> {
        let mut v = self.prefix.clone();
        v.extend(self.path.iter().map(|&i| self.alphabet[i].clone()));
        v
    }
    fn visit(&mut self, run: &Runner, snap: &Snap, i: usize, depth_left: usize, st: &mut Stats, t: &mut Tally, rep: &mut Reporter) {
        let mut r2 = run.clone();
        self.path.push(i);
        let op = &self.alphabet[i];
        match pan::catch_frames(|| r2.step(op, &self.names, snap, t)) {
            Ok((snap2, viols, _ok)) => {
                let base = self.seen.len();
                for v in &viols {
                    let sig = v.sig();
                    if !self.seen.contains(&sig) {
                        self.seen.push(sig);
                        let ops = self.ops();
                        rep.report(&ops, v, st);
                    }
                }
                if depth_left > 1 {
                    for j in 0..self.alphabet.len() {
                        self.visit(&r2, &snap2, j, depth_left - 1, st, t, rep);
                    }
                } else {
                    st.eval();
                    if r2.obs.nontrivial() {
                        if st.distinct.len() < self.nontrivial_cap {
                            let ops = self.ops();
                            st.nontrivial(hash_of(&ops));
                            st.sample(|| ops_to_json(&ops));
                        } else {
                            st.distinct_saturated = true;
                            t.inc("nontrivial_sequences_beyond_the_distinct_counter_cap");
                        }
                    }
                }
                self.seen.truncate(base);
            }
            Err(p) => {
                let ops = self.ops();
                rep.report_panic(&ops, &p, st);
            }
        }
        self.path.pop();
    }
}

struct C18;

impl Check for C18 {
    fn id(&self) -> &'static str {
        "C18"
    }
    fn rule(&self) -> String {
        format!(
            "Each case is an operation sequence on a fresh ModuleManager, step-monitored after every operation (so every prefix is checked). \
             Exhaustive: every sequence of length L (quick 4, thorough 5) over a reduced alphabet of {} operations (create/delete A,B,C; 5 export settings; 5 rule and 1 template assignments; \
             all 9 ordered imports AllRules '*' among A,B,C incl. self-imports; 4 imports with other types/patterns; 2 imports involving MAIN; 4 imports with re-export), \
             started from each of 3 fixed prefixes (empty = inside the stated bound of 7; 'populated' = A,B,C created with rules and exports; 'chained' = populated plus A imports B imports C; the prefixes put delete-recreate-close-the-cycle within reach of L). \
             Random: sequences of length 1..=7 after a random one of the same prefixes over the full alphabet (4 module names MAIN,A,B,C x 3 rule names; 5 import types x 7 patterns ('*', prefix, suffix, exact); \
             export All/None/Specific with Rule/All/Template/Fact items; re-exports with 1-2 patterns, transitive on/off); deletions and re-exports are each switched off in half of the random cases. \
             A sequence is non-trivial when at least one import was accepted AND (an import was refused as self-import/cycle OR some module saw a rule it does not own); distinct by the operation sequence; \
             for the exhaustive part only full-length sequences are counted as cases.",
            reduced_alphabet().len()
        )
    }
    fn assumptions(&self) -> Vec<String> {
        vec![
            "the import relation is what get_imports() of the existing modules shows (restricted to existing sources) and, separately, what get_import_graph() shows; both must be acyclic".into(),
            "operations are the manager-level ones plus Module::add_rule/add_template via get_module_mut; Module::add_import (which bypasses the manager and cannot refuse) is not part of the workload".into(),
            "the reference model follows the Ok/Err result of create/delete/set-exports/add-rule (it does not prescribe them) and requires list_modules() to match".into(),
            "AllRules, Rules and All carry rules, AllTemplates and Templates do not; MAIN exists initially and exports everything, user modules export nothing by default (type documentation)".into(),
            "patterns: '*', 'prefix*', '*suffix', exact name; other forms are undefined and skipped".into(),
            "where the statement leaves room (a declaration that outlived its deleted source; what exactly a re-export passes on; the `transitive` flag) every answer between the strict and the liberal reading is accepted; is_rule_visible and get_visible_rules must still agree with each other".into(),
            "clause (ii) is applied to every import that returned Err (DESIGN §5), the cause predicate says whether it was a cycle refusal".into(),
            "an import that is refused although it would not close a cycle is only counted (imports_refused_although_acyclic): the statement does not demand acceptance".into(),
        ]
    }

    fn explore(&self, cli: &Cli, st: &mut Stats) {
        let alphabet = reduced_alphabet();
        let pres = preambles();
        let len = cli.tier.pick(4usize, 5usize);
        let names: Vec<String> = NAMES.iter().map(|n| s(n)).collect();
        let nthreads = cli.threads.max(1);

        // ---- exhaustive part: jobs = (prefix, first op, second op)
        let mut jobs: Vec<(usize, usize, usize)> = Vec::new();
        for p in 0..pres.len() {
            for i in 0..alphabet.len() {
                for j in 0..alphabet.len() {
                    jobs.push((p, i, j));
                }
            }
        }
        let jobs = &jobs;
        let alphabet_ref = &alphabet;
        let pres_ref = &pres;
        let names_ref = &names;
        shards(cli, nthreads, st, |shard, _rng, st| {
            let mut t = Tally::default();
            let mut rep = Reporter::default();
            // state after each prefix
            let mut starts: Vec<(Runner, Snap, Vec<String>)> = Vec::new();
            for (_, pre) in pres_ref.iter() {
                let mut r = Runner::new();
                let mut snap = take_snapshot(&r.mgr, names_ref);
                let mut seen = Vec::new();
                let mut t0 = Tally::default();
                for op in pre {
                    let (s2, vs, _) = r.step(op, names_ref, &snap, &mut t0);
                    for v in vs {
                        seen.push(v.sig());
                        if shard == 0 {
                            rep.report(pre, &v, st);
                        }
                    }
                    snap = s2;
                }
                starts.push((r, snap, seen));
            }
            for (ji, &(p, i, j)) in jobs.iter().enumerate() {
                if ji % nthreads != shard {
                    continue;
                }
                let (r0, snap0, seen0) = &starts[p];
                // first level by hand so that jobs can be split on two operations
                let mut r1 = r0.clone();
                let mut t1 = Tally::default();
                let Ok((snap1, v1, _)) = pan::catch_frames(|| r1.step(&alphabet_ref[i], names_ref, snap0, &mut t1)) else {
                    if j == 0 {
                        let mut ops = pres_ref[p].1.clone();
                        ops.push(alphabet_ref[i].clone());
                        check_case(&ops, st, &mut t, &mut rep, DISTINCT_CAP / nthreads);
                    }
                    continue;
                };
                let mut d = Dfs {
                    alphabet: alphabet_ref,
                    names: names_ref.clone(),
                    prefix: pres_ref[p].1.clone(),
                    path: vec![i],
                    seen: seen0.clone(),
                    nontrivial_cap: DISTINCT_CAP / nthreads,
                };
                for v in &v1 {
                    let sig = v.sig();
                    if !d.seen.contains(&sig) {
                        d.seen.push(sig);
                        if j == 0 {
                            // the length-1 extension is shared by all jobs (p, i, *): report once
                            rep.report(&d.ops(), v, st);
                        }
                    }
                }
                if j == 0 {
                    for (k, v) in t1.c {
                        t.add(k, v);
                    }
                }
                d.visit(&r1, &snap1, j, len - 1, st, &mut t, &mut rep);
            }
            t.flush(st);
        });
        st.exhaustive.push(format!(
            "all operation sequences of length {} (and thereby every shorter one, as prefixes) over the reduced alphabet of {} operations, after each of the prefixes empty / populated / chained",
            len,
            alphabet.len()
        ));

        // ---- random part over the full alphabet
        let per = cli.n(120_000, 2_500_000);
        let extra_pres = random_only_preambles();
        let extra_pres = &extra_pres;
        shards(cli, nthreads, st, |_shard, rng, st| {
            let mut t = Tally::default();
            let mut rep = Reporter::default();
            for _ in 0..per {
                if cli.expired() {
                    st.count("stopped_by_time_budget");
                    break;
                }
                let deletes = rng.bool();
                let reexports = rng.bool();
                let pre = match rng.below(4) {
                    0 | 1 => 0,
                    2 => 1,
                    _ => 2,
                };
                let n = if rng.chance(1, 5) { 1 + rng.below(7) } else { 4 + rng.below(4) };
                let mut ops = pres_ref[pre].1.clone();
                if deletes && reexports && rng.chance(1, 3) {
                    ops = rng.pick(&extra_pres).clone();
                }
                for pos in 0..n {
                    ops.push(rand_op(rng, deletes, reexports, if pre == 0 { pos } else { 9 }));
                }
                if rng.chance(1, 10) {
                    ops = gen_wide_ops(rng);
                    t.inc("random_wide_cases(6..=9 modules, 10..=30 imports)");
                }
                t.inc(match (deletes, reexports) {
                    (false, false) => "random_cases_without_deletes_and_re_exports",
                    (true, false) => "random_cases_with_deletes_only",
                    (false, true) => "random_cases_with_re_exports_only",
                    (true, true) => "random_cases_with_deletes_and_re_exports",
                });
                check_case(&ops, st, &mut t, &mut rep, 2 * DISTINCT_CAP / nthreads);
            }
            t.flush(st);
        });

        if st.get("imports_accepted") == 0 {
            st.inconclusive("no import was ever accepted: nothing about cycles or imported visibility was observed");
        }
        if st.get("imports_refused_would_close_cycle") == 0 {
            st.inconclusive("no cycle-closing import was ever attempted and refused");
        }
        if st.get("rule_visible_via_import_answers") == 0 {
            st.inconclusive("no rule was ever visible through an import");
        }
        let spurious = st.get("imports_refused_although_acyclic");
        if spurious > 0 {
            st.notes.push(format!(
                "{} imports between existing, distinct modules were refused although the declarations had no path back (not demanded by the statement; reported only)",
                spurious
            ));
        }
    }

    fn replay(&self, cli: &Cli, case: &Json) -> Vec<Violation> {
        let Some(ops) = ops_from_json(case) else {
            return vec![Violation {
                clause: "harness".into(),
                sig: "C18|harness|bad-case".into(),
                detail: "cannot decode case".into(),
                case: case.clone(),
            }];
        };
        let verbose = cli.replay.is_some() || cli.verbose;
        let mut t = Tally::default();
        match pan::catch_frames(|| run_case(&ops, &mut t, verbose)) {
            Ok(r) => {
                if cli.replay.is_some() {
                    for l in &r.trace {
                        out!("{}", l);
                    }
                }
                r.viols.iter().map(|v| to_violation(&ops, v)).collect()
            }
            Err(p) => vec![panic_violation(&ops, &p)],
        }
    }
}

fn main() {
    run_main(C18)
}
